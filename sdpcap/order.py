"""E2 ordering obligations between programs the real code builds (and explicit feasible families), decided by z3.

T4 `OrderTask`      value(A) <= value(B) (both max; for two min programs value(B) <= value(A)): an affine embedding of A's decision
                    variables into B's, written from the property's definition, maps every feasible point of the captured program A to a
                    feasible point of the captured program B whose objective is at least as good.  PSD-ness is the uninterpreted predicate
                    of `capture.psd_pred`; closure facts about the PSD cone that an embedding needs (sum of PSD matrices, partial trace of
                    a PSD matrix) are *instantiated lemmas* - they are the trusted mathematics, listed in the record.
T5 `FamilyTask`     an explicit family of points (coordinates affine in symbolic weights: every classical post-processing of a concrete
                    product measurement, every convex weight vector, ...) is feasible for the captured program and the captured objective
                    equals the family's textbook value there.  PSD operands must be entry-wise equal to non-negative combinations of
                    concrete matrices whose PSD-ness is established in exact rational arithmetic (`exact_psd`).
A failed proof is a candidate: the real function is run with the real solver and the ordering / bound is compared numerically; only a reproduced
discrepancy is a violation."""
from __future__ import annotations

from fractions import Fraction

import numpy as np
import z3

from props.common import Task
from sdpcap.affine import to_frac
from sdpcap.capture import (capture_call, extract, feasible, program_to_sym, psd_pred, sym_variables)
from sdpcap.task import VarMap
from symnp.core import Ctx, Poly, Sym, SymError, lift, use_ctx
from symnp.harness import Builder, jsonable


# ---- exact PSD decision for concrete Hermitian matrices with (Gaussian-)rational entries ------------------------------
def _fr(x):
    return Fraction(x) if not isinstance(x, Fraction) else x


def exact_psd(M):
    """True iff the concrete Hermitian matrix M (entries: Sym constants, python numbers or Fractions) is positive semidefinite.
    Exact: symmetric Gaussian elimination in rational arithmetic on the real embedding [[A, -B], [B, A]] of M = A + iB."""
    M = np.asarray(M, dtype=object)
    n = M.shape[0]
    A = [[Fraction(0)] * (2 * n) for _ in range(2 * n)]
    for i in range(n):
        for j in range(n):
            v = lift(M[i, j])
            if not (v.re.is_const() and v.im.is_const()):
                raise ValueError("exact_psd needs a concrete matrix")
            a, b = _fr(v.re.t.get((), 0)), _fr(v.im.t.get((), 0))
            A[i][j], A[n + i][n + j] = a, a
            A[i][n + j], A[n + i][j] = -b, b
    N = 2 * n
    for i in range(N):
        for j in range(N):
            if A[i][j] != A[j][i]:
                return False                      # not Hermitian
    for k in range(N):
        d = A[k][k]
        if d < 0:
            return False
        if d == 0:
            if any(A[k][j] != 0 for j in range(N)):
                return False
            continue
        for i in range(k + 1, N):
            if A[i][k] != 0:
                f = A[i][k] / d
                for j in range(k, N):
                    A[i][j] -= f * A[k][j]
        for i in range(k + 1, N):
            A[i][k] = Fraction(0)
    return True


def cmat(a):
    """numeric array -> object array of exact Sym constants (short dyadics / small rationals only)"""
    a = np.asarray(a)
    out = np.empty(a.shape, dtype=object)
    for idx in np.ndindex(a.shape):
        out[idx] = Sym(Poly.const(to_frac(np.real(a[idx]))), Poly.const(to_frac(np.imag(a[idx]))))
    return out


def coords_of(var, M):
    """coordinates (real Sym terms) of the symbolic matrix M in the variable's real basis.  The basis of sdpcap.affine.real_basis
    is triangular in the entries, so the coordinates are read off; that M lies in the variable's domain is a separate goal."""
    shp = var.shape if len(var.shape) == 2 else (var.shape[0], 1)
    M = np.asarray(M, dtype=object).reshape(shp)
    st = var.structure
    out = []
    if st in ("psd_h", "psd_s"):
        n = shp[0]
        p = {}
        for (kind, i, j), _ in var.basis:
            if kind == "p":
                p[("p", i, j)] = lift(M[i, j]).real
            elif kind == "q":
                p[("q", i, j)] = lift(0) - lift(M[i, j]).imag
        for (kind, i, j), _ in var.basis:
            if kind == "d":
                v = lift(M[i, i]).real
                for (k2, a, b), val in p.items():
                    if i in (a, b):
                        v = v - val
                out.append(v)
            else:
                out.append(p[(kind, i, j)])
        return out
    for (kind, i, j), _ in var.basis:
        out.append(lift(M[i, j]).real if kind == "r" else lift(M[i, j]).imag)
    return out


def domain_goals(var, M):
    """z3 formulas: M is an admissible value of the variable (Hermitian / symmetric / real)"""
    shp = var.shape if len(var.shape) == 2 else (var.shape[0], 1)
    M = np.asarray(M, dtype=object).reshape(shp)
    g = []
    st = var.structure
    if st in ("hermitian", "psd_h"):
        for i in range(shp[0]):
            for j in range(i, shp[1]):
                a, b = lift(M[i, j]), lift(M[j, i])
                g.append(a.re.to_z3() == b.re.to_z3())
                g.append(a.im.to_z3() == -b.im.to_z3())
    elif st in ("symmetric", "psd_s"):
        for i in range(shp[0]):
            for j in range(shp[1]):
                a, b = lift(M[i, j]), lift(M[j, i])
                g.append(a.re.to_z3() == b.re.to_z3())
                g.append(a.im.to_z3() == 0)
    elif st in ("real", "nonneg"):
        for v in M.flat:
            g.append(lift(v).im.to_z3() == 0)
    return g


def goals_of(sp):
    """the constraints of a SymProgram as a list of (label, z3 formula)"""
    out = []
    for n, (kind, E) in enumerate(sp.constraints):
        out.append((f"constraint #{n} ({kind}, shape {list(np.shape(E))})", feasible(type(sp)(sp.sense, sp.objective, [(kind, E)]))))
    return out


# ---- lemmas about the PSD cone (trusted mathematics, instantiated explicitly) ------------------------------------------
def lemma_sum(*mats):
    """PSD(A_1) & ... & PSD(A_k)  =>  PSD(A_1 + ... + A_k)"""
    tot = np.asarray(mats[0], dtype=object)
    for m in mats[1:]:
        tot = tot + np.asarray(m, dtype=object)
    return z3.Implies(z3.And(*[psd_pred(m) for m in mats]), psd_pred(tot))


def lemma_map(src, dst):
    """PSD(src) => PSD(dst) for dst = a positive map applied to src by the caller (partial trace, compression, ...)"""
    return z3.Implies(psd_pred(src), psd_pred(dst))


def fact_combination(weights, mats):
    """weights >= 0  =>  PSD(sum_k w_k P_k), each P_k a concrete matrix whose PSD-ness is checked exactly here"""
    for P in mats:
        if not exact_psd(P):
            raise ValueError("fact_combination: a generator is not positive semidefinite")
    tot = None
    for w, P in zip(weights, mats):
        term = np.asarray(P, dtype=object) * lift(w)
        tot = term if tot is None else tot + term
    hyp = [lift(w).re.to_z3() >= 0 for w in weights]
    if tot.shape == (1, 1):
        return z3.BoolVal(True)
    return z3.Implies(z3.And(*hyp) if hyp else z3.BoolVal(True), psd_pred(tot))


class OrderTask(Task):
    engine = "E2-sdpcap (T4 program inclusion in z3)"
    weight = 10

    def __init__(self, name, cfg, call_a, call_b, embed, lemmas=None, value_a=None, value_b=None, abort_a=1, abort_b=1, tol=3e-4,
                 trusted=(), replay_a=None, replay_b=None):
        """embed(VA, vars_b) -> list of symbolic matrices, one per variable of B (same order as vars_b), affine in A's variables.
        lemmas(VA, PA, emb) -> list of z3 formulas (instantiated PSD-cone facts)."""
        super().__init__(name, cfg)
        self.ca, self.cb, self.embed, self.lemmas = call_a, call_b, embed, lemmas
        self.va = value_a or (lambda r: float(np.real(r[0] if isinstance(r, tuple) else r)))
        self.vb = value_b or self.va
        self.aa, self.ab, self.tol, self.trusted = abort_a, abort_b, tol, list(trusted)
        # replay_a / replay_b: the two values for the numeric replay when they are better obtained through another formulation of the
        # same quantity (cvxopt breaks down on some primal programs of the unmodified library)
        self.ra = replay_a or (lambda: self.va(self.ca()))
        self.rb = replay_b or (lambda: self.vb(self.cb()))

    def _run(self, rec, seed):
        capa, capb = capture_call(self.ca, self.aa), capture_call(self.cb, self.ab)
        if capa is None or capb is None:
            rec["notes"].append("no Problem.solve was reached by one of the two calls: zero coverage")
            return self._numeric(rec, "a shortcut answered")
        pa, pb = extract(capa), extract(capb)
        rec["programs"] = 2
        rec["program"] = {"A": pa.summary(), "B": pb.summary()}
        rec["stubs"] = ["PSD cone: uninterpreted predicate + instantiated lemmas " + "; ".join(self.trusted)]
        ctx = Ctx("lra", self.name)
        detail = []
        with use_ctx(ctx):
            b = Builder(ctx)
            ma, ca = sym_variables(b, pa.vars, "a")
            PA = program_to_sym(pa, ca)
            VA = VarMap(pa.vars, ma)
            try:
                emb = self.embed(VA, pb.vars)
                cb = [coords_of(v, M) for v, M in zip(pb.vars, emb)]
            except (KeyError, ValueError, IndexError) as e:
                detail.append(f"the embedding cannot be written over the captured variables: {type(e).__name__}: {e}")
                emb = None
            if emb is not None:
                PB = program_to_sym(pb, cb)
                hyp = [feasible(PA)] + (self.lemmas(VA, PA, emb) if self.lemmas else [])
                same = pa.sense == pb.sense and pa.sense in ("max", "min")
                if not same:
                    detail.append(f"senses {pa.sense} / {pb.sense}")
                goals = [(f"domain of {v.name}", z3.And(*g)) for v, M in zip(pb.vars, emb) for g in [domain_goals(v, M)] if g]
                goals += goals_of(PB)
                oa, ob = lift(np.asarray(PA.objective, dtype=object).flat[0]), lift(np.asarray(PB.objective, dtype=object).flat[0])
                better = (ob.re.to_z3() >= oa.re.to_z3()) if pa.sense == "max" else (ob.re.to_z3() <= oa.re.to_z3())
                goals.append(("objective at the embedded point is at least as good", better))
                for label, g in goals:
                    r, _ = ctx.check(hyp + [z3.Not(g)], timeout_ms=60000, cross=True)
                    if r != "unsat":
                        detail.append(f"{label}: {r}")
                r, _ = ctx.check(hyp, timeout_ms=60000)
                rec["reachable"] = r == "sat"
                worse = (ob.re.to_z3() >= oa.re.to_z3() + 1) if pa.sense == "max" else (ob.re.to_z3() <= oa.re.to_z3() - 1)
                r2, _ = ctx.check(hyp + [z3.Not(worse)], timeout_ms=60000)
                rec["neg_control"] = r2 == "sat"
            rec["queries"], rec["solver_s"] = ctx.queries, round(ctx.solver_s, 3)
        if not detail and rec["reachable"] and rec["neg_control"]:
            rec["status"] = "discharged"
            return
        rec["notes"] += detail[:6]
        self._numeric(rec, "inclusion not proved")

    def _numeric(self, rec, why):
        rec["disagreements_checked"] = 1
        try:
            a, b = self.ra(), self.rb()
        except (ArithmeticError, ZeroDivisionError) as e:
            rec["notes"].append(f"replay: conic solver breakdown ({type(e).__name__})")
            return
        except Exception as e:  # noqa: BLE001
            rec["status"] = "violation"
            rec["violation"] = {"source": "the real function raises (reproduced)", "inputs": jsonable(self.cfg), "exception": f"{type(e).__name__}: {str(e)[:300]}"}
            return
        if not (np.isfinite(a) and np.isfinite(b)):
            rec["notes"].append(f"replay: non-finite values ({a}, {b})")
            return
        if a > b + self.tol:
            rec["status"] = "violation"
            rec["violation"] = {"source": f"{why}; the ordering fails with the real solver", "inputs": jsonable(self.cfg),
                                "actual": {"lower": a, "upper": b}, "expected": "lower <= upper"}
        else:
            rec["notes"].append(f"{why}; the values are ordered on this instance ({a:.6f} <= {b:.6f})")

    def replay(self, rp):
        if "exception" in rp.get("violation", {}):
            try:
                self.ca(), self.cb()
                return True
            except Exception as e:  # noqa: BLE001
                print({"exception": f"{type(e).__name__}: {e}"})
                return False
        a, b = self.ra(), self.rb()
        print({"lower": a, "upper": b})
        return a <= b + self.tol


class FamilyTask(Task):
    engine = "E2-sdpcap (T5 feasible family in z3)"
    weight = 8

    def __init__(self, name, cfg, call, family, value_of=None, best=None, abort_after=1, tol=3e-4, trusted=()):
        """family(b, vars) -> dict(points=[matrix per captured variable, affine in the family's symbolic weights],
                                   assume=[z3 formulas on the weights], facts=[z3 PSD facts], value=Sym (textbook value of the point))
        best(): a float, the value of the best member of the family (replay: a 'max' program must return at least this, a 'min' at most)."""
        super().__init__(name, cfg)
        self.call, self.family, self.best, self.abort_after, self.tol, self.trusted = call, family, best, abort_after, tol, list(trusted)
        self.value_of = value_of or (lambda r: float(np.real(r[0] if isinstance(r, tuple) else r)))

    def _run(self, rec, seed):
        cap = capture_call(self.call, self.abort_after)
        if cap is None:
            rec["notes"].append("no Problem.solve was reached: zero coverage of the program")
            return self._numeric(rec, "a shortcut answered", None)
        prog = extract(cap)
        rec["programs"] = 1
        rec["program"] = prog.summary()
        rec["stubs"] = ["PSD facts: exact rational elimination on concrete generators + closure under non-negative combinations " + "; ".join(self.trusted)]
        ctx = Ctx("lra", self.name)
        detail = []
        with use_ctx(ctx):
            b = Builder(ctx)
            try:
                fam = self.family(b, prog.vars)
                cs = [coords_of(v, M) for v, M in zip(prog.vars, fam["points"])]
            except (KeyError, ValueError, IndexError) as e:
                detail.append(f"the family cannot be written over the captured variables {[(v.name, list(v.shape)) for v in prog.vars]}: {type(e).__name__}: {e}")
                fam = None
            if fam is not None:
                P = program_to_sym(prog, cs)
                hyp = list(fam.get("assume", [])) + list(fam.get("facts", []))
                goals = [(f"domain of {v.name}", z3.And(*g)) for v, M in zip(prog.vars, fam["points"]) for g in [domain_goals(v, M)] if g]
                goals += goals_of(P)
                o, want = lift(np.asarray(P.objective, dtype=object).flat[0]), lift(fam["value"])
                goals.append(("captured objective equals the textbook value of the point", z3.And(o.re.to_z3() == want.re.to_z3(), want.im.to_z3() == 0)))
                for label, g in goals:
                    r, _ = ctx.check(hyp + [z3.Not(g)], timeout_ms=60000, cross=True)
                    if r != "unsat":
                        detail.append(f"{label}: {r}")
                r, _ = ctx.check(hyp, timeout_ms=60000)
                rec["reachable"] = r == "sat"
                r2, _ = ctx.check(hyp + [o.re.to_z3() == want.re.to_z3() + 1], timeout_ms=60000)
                rec["neg_control"] = r2 != "sat" and (ctx.check(hyp + [o.re.to_z3() != want.re.to_z3() + 1], timeout_ms=60000)[0] == "sat")
                rec["sense"] = prog.sense
            rec["queries"], rec["solver_s"] = ctx.queries, round(ctx.solver_s, 3)
        if not detail and rec["reachable"] and rec["neg_control"]:
            rec["status"] = "discharged"
            return
        rec["notes"] += detail[:6]
        self._numeric(rec, "family not proved feasible", prog.sense)

    def _numeric(self, rec, why, sense):
        if self.best is None:
            return
        rec["disagreements_checked"] = 1
        try:
            got, bound = self.value_of(self.call()), float(self.best())
        except (ArithmeticError, ZeroDivisionError) as e:
            rec["notes"].append(f"replay: conic solver breakdown ({type(e).__name__})")
            return
        except Exception as e:  # noqa: BLE001
            rec["status"] = "violation"
            rec["violation"] = {"source": "the real function raises (reproduced)", "inputs": jsonable(self.cfg), "exception": f"{type(e).__name__}: {str(e)[:300]}"}
            return
        sense = sense or self.cfg.get("sense", "max")
        bad = got < bound - self.tol if sense == "max" else got > bound + self.tol
        if bad:
            rec["status"] = "violation"
            rec["violation"] = {"source": f"{why}; the returned optimum is beaten by an explicit member of the family", "inputs": jsonable(self.cfg),
                                "actual": got, "expected": f"{'>=' if sense == 'max' else '<='} {bound}"}
        else:
            rec["notes"].append(f"{why}; the returned value respects the family's best member on this instance ({got:.6f} vs {bound:.6f})")

    def replay(self, rp):
        if "exception" in rp.get("violation", {}):
            try:
                self.call()
                return True
            except Exception as e:  # noqa: BLE001
                print({"exception": f"{type(e).__name__}: {e}"})
                return False
        got, bound = self.value_of(self.call()), float(self.best())
        print({"actual": got, "bound": bound})
        sense = rp.get("cfg", {}).get("sense", "max")
        return got >= bound - self.tol if sense == "max" else got <= bound + self.tol
