"""T3 embedding certificates and implication checks on captured programs, directly in z3.

A captured Program has exact affine maps (const + sum coord * coeff).  Here the coordinates are arbitrary z3
real terms (e.g. If(strategy answers a to x, 1, 0)), so that statements such as
"every deterministic strategy is a feasible point of the relaxation with objective = its winning probability"
become one universally quantified formula over the strategy symbols."""
from __future__ import annotations

from fractions import Fraction

import numpy as np
import z3

from sdpcap.affine import to_frac


def rv(x):
    f = to_frac(x)
    return z3.RealVal(str(f)) if f.denominator != 1 else z3.RealVal(f.numerator)


def z3_affine(aff, coordvals):
    """returns (re, im) object arrays of z3 terms"""
    shape = aff.const.shape
    re = np.empty(shape, dtype=object)
    im = np.empty(shape, dtype=object)
    terms_re = {idx: [] for idx in np.ndindex(*shape)}
    terms_im = {idx: [] for idx in np.ndindex(*shape)}
    ctr = {}
    for vi, nm, coeff in aff.terms:
        k = ctr.get(vi, 0)
        ctr[vi] = k + 1
        if coeff is None:
            continue
        c = coordvals[vi][k]
        for idx in map(tuple, np.argwhere(np.abs(coeff) > 1e-13)):
            v = coeff[idx]
            if abs(v.real) > 1e-13:
                terms_re[idx].append(rv(v.real) * c)
            if abs(v.imag) > 1e-13:
                terms_im[idx].append(rv(v.imag) * c)
    for idx in np.ndindex(*shape):
        re[idx] = z3.Sum([rv(aff.const[idx].real)] + terms_re[idx]) if terms_re[idx] else rv(aff.const[idx].real)
        im[idx] = z3.Sum([rv(aff.const[idx].imag)] + terms_im[idx]) if terms_im[idx] else rv(aff.const[idx].imag)
    return re, im


def coord_values(var, matrix_re, matrix_im=None):
    """coordinates of a concrete/z3-valued matrix in the variable's real basis (non-PSD bases only)"""
    vals = []
    for (kind, i, j), e in var.basis:
        if kind == "r":
            vals.append(matrix_re[i][j] if len(np.shape(matrix_re)) == 2 else matrix_re[i])
        elif kind == "i":
            vals.append(matrix_im[i][j] if matrix_im is not None else z3.RealVal(0))
        else:
            raise ValueError("PSD-basis variables are not supported by coord_values")
    return vals


def linear_constraints(prog, coordvals, include_psd_1x1=True, psd_diag_lemma=False):
    """z3 formula: all equalities and sign constraints of the captured program at the given coordinates
    (matrix PSD constraints are NOT included: they are discharged by construction or listed by the caller);
    with psd_diag_lemma=True, returns additionally the list of 'diagonal >= 0' consequences of each PSD constraint"""
    conj, lemmas, psd_list = [], [], []
    for kind, aff in prog.constraints:
        re, im = z3_affine(aff, coordvals)
        if kind == "eq":
            for idx in np.ndindex(*re.shape):
                conj.append(re[idx] == 0)
                conj.append(im[idx] == 0)
        elif kind == "ge0":
            for idx in np.ndindex(*re.shape):
                conj.append(re[idx] >= 0)
        elif kind == "psd":
            if re.shape == (1, 1) and include_psd_1x1:
                conj.append(re[0, 0] >= 0)
            else:
                psd_list.append((re, im))
                if psd_diag_lemma:
                    for i in range(re.shape[0]):
                        lemmas.append(re[i, i] >= 0)
    return conj, psd_list, lemmas


def objective_term(prog, coordvals):
    re, im = z3_affine(prog.objective, coordvals)
    return re.flat[0]


def prove(goal_negation, assumptions=(), timeout_ms=120000):
    s = z3.Solver()
    s.set("timeout", timeout_ms)
    for a in assumptions:
        s.add(a)
    s.add(goal_negation)
    r = s.check()
    rs = str(r)
    import os
    if rs in ("sat", "unsat") and os.environ.get("VERIF_XCHECK") == "1":
        from symnp.core import Ctx
        c = Ctx()
        c._cross(s, rs)           # raises SolverDisagreement on a sat/unsat disagreement with z3 4.8.12 / cvc5
        for k, v in c.xstats.items():
            XSTATS.setdefault(k, {"agree": 0, "unknown": 0})
            XSTATS[k]["agree"] += v["agree"]
            XSTATS[k]["unknown"] += v["unknown"]
    return rs, (s.model() if rs == "sat" else None)


XSTATS = {}
