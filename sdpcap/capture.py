"""E2: capture the cvxpy / picos Problem the real toqito code builds and turn it into solver terms.

`capture()` patches `cvxpy.Problem.solve` and `picos.Problem.solve`; the first solve raises `Captured`
(a BaseException, so toqito's own `except Exception` cannot swallow it) carrying the real Problem object.
`extract(problem)` evaluates objective and constraint expressions on a real basis of the variable space
(the library's own evaluation, so toqito's partial_trace / partial_transpose / bmat glue stays inside what is
analysed) and returns a `Program` whose pieces are exact affine maps.  `Program.to_sym(ctx_builder)` rebuilds
them as symnp terms over symbolic decision variables; `t1_equiv` proves two programs equal with z3
(PSD-ness is an uninterpreted predicate over the matrix entries: congruence + linear arithmetic)."""
from __future__ import annotations

import contextlib
from fractions import Fraction

import numpy as np
import z3

from sdpcap.affine import real_basis, to_frac
from symnp.array import SymArray
from symnp.core import Poly, Sym, SymBool, And, as_z3, cur, lift


class Captured(BaseException):
    def __init__(self, lib, problem, kwargs):
        self.lib, self.problem, self.kwargs = lib, problem, kwargs


@contextlib.contextmanager
def capture(abort_after=1):
    """inside the block, the n-th call of Problem.solve raises Captured; earlier ones are solved for real"""
    import cvxpy
    import picos
    state = {"n": 0}
    o_cv, o_pc = cvxpy.Problem.solve, picos.Problem.solve

    def cv_solve(self, *a, **k):
        state["n"] += 1
        if state["n"] >= abort_after:
            raise Captured("cvxpy", self, k)
        return o_cv(self, *a, **k)

    def pc_solve(self, *a, **k):
        state["n"] += 1
        if state["n"] >= abort_after:
            raise Captured("picos", self, k)
        return o_pc(self, *a, **k)
    cvxpy.Problem.solve, picos.Problem.solve = cv_solve, pc_solve
    try:
        yield state
    finally:
        cvxpy.Problem.solve, picos.Problem.solve = o_cv, o_pc


def capture_call(fn, abort_after=1):
    """run fn(); return (lib, problem) of the captured solve, or None if no solve happened"""
    try:
        with capture(abort_after):
            fn()
    except Captured as c:
        return c
    return None


# ----------------------------------------------------------------------------------------------
class Var:
    def __init__(self, name, shape, structure, handle):
        self.name, self.shape, self.structure, self.handle = name, tuple(shape), structure, handle
        self.basis = real_basis(self.shape if len(self.shape) == 2 else (self.shape[0] if self.shape else 1, 1), structure)

    def __repr__(self):
        return f"Var({self.name},{self.shape},{self.structure})"


class Affine:
    """value = const + sum_k coord_k * coeff_k  (coeff arrays complex, one per (var, basis element))"""

    def __init__(self, const, terms):
        self.const, self.terms = const, terms
        self.shape = const.shape


class Program:
    def __init__(self, lib, variables, sense, objective, constraints):
        self.lib, self.vars, self.sense, self.objective, self.constraints = lib, variables, sense, objective, constraints

    def summary(self):
        kinds = {}
        for k, a in self.constraints:
            kinds[k] = kinds.get(k, 0) + 1
        return {"lib": self.lib, "sense": self.sense, "variables": [(v.name, list(v.shape), v.structure) for v in self.vars],
                "constraints": kinds}


# ---- cvxpy ---------------------------------------------------------------------------------------
def _cv_structure(v):
    a = v.attributes
    if a.get("hermitian"):
        return "hermitian"
    if a.get("PSD"):
        return "psd_s"
    if a.get("symmetric"):
        return "symmetric"
    if a.get("complex"):
        return "complex"
    return "real"


def _set_all(variables, setter, zero=True):
    for v in variables:
        setter(v, None)


def extract_cvxpy(problem):
    import cvxpy
    from cvxpy.constraints import PSD, Equality, Inequality, NonNeg, NonPos, Zero
    vs = sorted(problem.variables(), key=lambda v: v.id)
    variables = [Var(v.name(), v.shape if len(v.shape) else (1, 1), _cv_structure(v), v) for v in vs]

    def zero(v):
        return np.zeros(v.handle.shape, dtype=complex if v.structure in ("hermitian", "complex") else float)

    def setv(v, val):
        v.handle.value = val.reshape(v.handle.shape) if val.shape != tuple(v.handle.shape) else val

    exprs = [("objective", problem.objective.expr)]
    cons = []
    for c in problem.constraints:
        if isinstance(c, Equality) or isinstance(c, Zero):
            cons.append(("eq", c.expr if isinstance(c, Zero) else c.args[0] - c.args[1]))
        elif isinstance(c, Inequality):
            cons.append(("ge0", c.args[1] - c.args[0]))
        elif isinstance(c, NonNeg):
            cons.append(("ge0", c.args[0]))
        elif isinstance(c, NonPos):
            cons.append(("ge0", -c.args[0]))
        elif isinstance(c, PSD):
            cons.append(("psd", c.args[0]))
        else:
            raise ValueError(f"unsupported cvxpy constraint {type(c).__name__}")
    for v in variables:
        a = v.handle.attributes
        if a.get("PSD"):
            cons.append(("psd", v.handle + 0))
        if a.get("nonneg"):
            cons.append(("ge0", v.handle + 0))
        if a.get("nonpos"):
            cons.append(("ge0", -v.handle))
    allx = [e for _, e in exprs] + [e for _, e in cons]
    saved = [v.handle.value for v in variables]
    try:
        for v in variables:
            setv(v, zero(v))
        consts = [np.atleast_2d(np.array(e.value, dtype=complex)) for e in allx]
        terms = [[] for _ in allx]
        for vi, v in enumerate(variables):
            for nm, e in v.basis:
                setv(v, np.asarray(e))
                for k, ex in enumerate(allx):
                    val = np.atleast_2d(np.array(ex.value, dtype=complex)) - consts[k]
                    if np.any(np.abs(val) > 1e-13):
                        terms[k].append((vi, nm, val))
                    else:
                        terms[k].append((vi, nm, None))
            setv(v, zero(v))
    finally:
        for v, s in zip(variables, saved):
            try:
                v.handle.value = s
            except Exception:  # noqa: BLE001
                pass
    affs = [Affine(c, t) for c, t in zip(consts, terms)]
    for a_, e_ in zip(affs, allx):
        a_.handle = e_
    sense = "max" if isinstance(problem.objective, cvxpy.Maximize) else "min"
    return Program("cvxpy", variables, sense, affs[0], [(k, a) for (k, _), a in zip(cons, affs[1:])])


# ---- picos ---------------------------------------------------------------------------------------
def _pc_structure(v):
    n = type(v).__name__
    return {"HermitianVariable": "hermitian", "SymmetricVariable": "symmetric", "ComplexVariable": "complex",
            "RealVariable": "real"}.get(n) or (_ for _ in ()).throw(ValueError(f"unsupported picos variable {n}"))


def _pcval(e):
    v = e.value
    from picos.expressions.data import cvx2np
    try:
        return np.atleast_2d(np.array(cvx2np(v), dtype=complex))
    except Exception:  # noqa: BLE001
        return np.atleast_2d(np.array(v, dtype=complex))


def extract_picos(problem):
    import picos
    vs = list(problem.variables.values())
    variables = [Var(v.name, v.shape, _pc_structure(v), v) for v in vs]

    def zero(v):
        return np.zeros(v.shape, dtype=complex if v.structure in ("hermitian", "complex") else float)

    def setv(v, val):
        v.handle.value = val

    obj = problem.objective
    f = obj.function if obj.function is not None else picos.Constant(0)
    norm_terms = []
    tn = type(f).__name__
    if tn == "WeightedSum":
        for w, e in zip(f.weights, f.expressions):
            if type(e).__name__ != "SpectralNorm":
                raise ValueError(f"unsupported objective term {type(e).__name__}")
            norm_terms.append((float(w), e.x))
        f = picos.Constant(0)
    elif tn == "SpectralNorm":
        norm_terms.append((1.0, f.x))
        f = picos.Constant(0)
    exprs = [f] + [x for _, x in norm_terms]
    cons = []
    for c in problem.constraints.values():
        n = type(c).__name__
        if n in ("LMIConstraint", "ComplexLMIConstraint"):
            cons.append(("psd", c.psd))
        elif n == "ComplexAffineConstraint":
            cons.append(("eq", c.lhs - c.rhs))
        elif n == "AffineConstraint":
            if c.relation == "=":
                cons.append(("eq", c.lhs - c.rhs))
            elif c.relation == "<":
                cons.append(("ge0", c.rhs - c.lhs))
            else:
                cons.append(("ge0", c.lhs - c.rhs))
        else:
            raise ValueError(f"unsupported picos constraint {n}")
    for v in variables:
        bd = getattr(v.handle, "bound_dicts", None)
        if bd:
            lower, upper = bd
            for idx, val in lower.items():
                cons.append(("ge0", v.handle[idx] - val))
            for idx, val in upper.items():
                cons.append(("ge0", val - v.handle[idx]))
    allx = exprs + [e for _, e in cons]
    saved = []
    for v in variables:
        try:
            saved.append(v.handle.value)
        except Exception:  # noqa: BLE001
            saved.append(None)
    for v in variables:
        setv(v, zero(v))
    consts = [_pcval(e) for e in allx]
    terms = [[] for _ in allx]
    for vi, v in enumerate(variables):
        for nm, e in v.basis:
            setv(v, np.asarray(e).reshape(v.shape))
            for k, ex in enumerate(allx):
                val = _pcval(ex) - consts[k]
                terms[k].append((vi, nm, val if np.any(np.abs(val) > 1e-13) else None))
        setv(v, zero(v))
    affs = [Affine(c, t) for c, t in zip(consts, terms)]
    for a_, e_ in zip(affs, allx):
        a_.handle = e_
    nn = len(norm_terms)
    prog = Program("picos", variables, obj.direction if obj.direction in ("max", "min") else "find", affs[0],
                   [(k, a) for (k, _), a in zip(cons, affs[1 + nn:])])
    prog.obj_norm_terms = [(w, "specnorm", a) for (w, _), a in zip(norm_terms, affs[1:1 + nn])]
    return prog


def extract(cap):
    return extract_cvxpy(cap.problem) if cap.lib == "cvxpy" else extract_picos(cap.problem)


# ---- to solver terms -----------------------------------------------------------------------------
class SymProgram:
    """a Program (captured or written by the harness) over shared symbolic coordinates"""

    def __init__(self, sense, objective, constraints):
        self.sense, self.objective, self.constraints = sense, objective, constraints   # constraints: [(kind, SymArray)]


def sym_variables(b, variables, prefix="v"):
    """symbolic matrices for the decision variables; returns (list of SymArray, list of coordinate lists)"""
    mats, coords = [], []
    for k, v in enumerate(variables):
        shp = v.shape if len(v.shape) == 2 else (v.shape[0], 1)
        cs = [b.real(f"{prefix}{k}_{nm[0]}{nm[1]}_{nm[2]}") for nm, _ in v.basis]
        out = np.empty(shp, dtype=object)
        for idx in np.ndindex(*shp):
            out[idx] = lift(0)
        for c, (nm, e) in zip(cs, v.basis):
            e = np.asarray(e).reshape(shp)
            for idx in map(tuple, np.argwhere(e != 0)):
                out[idx] = out[idx] + c * (complex(e[idx]) if np.iscomplexobj(e) else float(e[idx]))
        mats.append(out.view(SymArray))
        coords.append(cs)
    return mats, coords


def affine_to_sym(aff, coords, tol=1e-9):
    shape = aff.const.shape
    out = np.empty(shape, dtype=object)
    for idx in np.ndindex(*shape):
        out[idx] = Sym(Poly.const(to_frac(aff.const[idx].real, tol)), Poly.const(to_frac(aff.const[idx].imag, tol)))
    counters = {}
    for vi, nm, coeff in aff.terms:
        k = counters.get(vi, 0)
        counters[vi] = k + 1
        if coeff is None:
            continue
        c = coords[vi][k]
        for idx in map(tuple, np.argwhere(np.abs(coeff) > 1e-13)):
            v = coeff[idx]
            out[idx] = out[idx] + c * Sym(Poly.const(to_frac(v.real, tol)), Poly.const(to_frac(v.imag, tol)))
    return out.view(SymArray)


def specnorm(M):
    """spectral norm as an uninterpreted function of the matrix' normal form (used by captured and reference programs alike)"""
    from symnp.array import kernel
    return kernel("specnorm", [np.asarray(M, dtype=object)], [((), "r")], concrete=lambda m: np.linalg.norm(m, 2))[0]


def program_to_sym(prog, coords):
    obj = affine_to_sym(prog.objective, coords)
    for w, kind, a in getattr(prog, "obj_norm_terms", []):
        obj = np.asarray(obj, dtype=object) + lift(to_frac(w)) * specnorm(affine_to_sym(a, coords))
    return SymProgram(prog.sense, obj, [(k, affine_to_sym(a, coords)) for k, a in prog.constraints])


_PSD_UF = {}


def psd_pred(M):
    """uninterpreted predicate PSD_n over the (re, im) entries of M"""
    M = np.asarray(M, dtype=object)
    n = M.shape[0]
    f = _PSD_UF.get(n)
    if f is None:
        f = z3.Function(f"PSD{n}", *([z3.RealSort()] * (2 * n * n)), z3.BoolSort())
        _PSD_UF[n] = f
    args = []
    for v in M.flat:
        v = lift(v)
        args += [v.re.to_z3(), v.im.to_z3()]
    return f(*args)


def feasible(sp, psd_as_uf=True):
    conj = []
    for kind, E in sp.constraints:
        E = np.asarray(E, dtype=object)
        if kind == "eq":
            for v in E.flat:
                v = lift(v)
                conj.append(v.re.to_z3() == 0)
                if v.im.t:
                    conj.append(v.im.to_z3() == 0)
        elif kind == "ge0":
            for v in E.flat:
                v = lift(v)
                conj.append(v.re.to_z3() >= 0)
                if v.im.t:
                    conj.append(v.im.to_z3() == 0)
        elif kind == "psd":
            if E.shape == (1, 1):
                conj.append(lift(E[0, 0]).re.to_z3() >= 0)
            else:
                conj.append(psd_pred(E))
        else:
            raise ValueError(kind)
    return z3.And(*conj) if conj else z3.BoolVal(True)


def t1_equiv(ctx, P, R, timeout_ms=60000):
    """captured program P == reference program R: same feasible set, same objective on it, same sense.
    returns dict(ok, detail, queries)"""
    res = {"ok": False, "detail": [], "queries": 0}
    if P.sense != R.sense:
        res["detail"].append(f"sense {P.sense} != {R.sense}")
        return res
    fP, fR = feasible(P), feasible(R)
    oP, oR = lift(np.asarray(P.objective, dtype=object).flat[0]), lift(np.asarray(R.objective, dtype=object).flat[0])
    checks = [("feasible(captured) => feasible(reference)", [fP, z3.Not(fR)]),
              ("feasible(reference) => feasible(captured)", [fR, z3.Not(fP)]),
              ("objective equal on the feasible set", [fP, z3.Or(oP.re.to_z3() != oR.re.to_z3(), oP.im.to_z3() != 0 if oP.im.t else z3.BoolVal(False))])]
    ok = True
    for name, goal in checks:
        r, m = ctx.check(goal, timeout_ms=timeout_ms, cross=True)
        res["queries"] += 1
        if r != "unsat":
            ok = False
            res["detail"].append(f"{name}: {r}")
            res.setdefault("model", m)
    # reachability: the captured feasible set must be satisfiable in the abstraction
    r, _ = ctx.check([fP], timeout_ms=timeout_ms)
    res["queries"] += 1
    res["reachable"] = r == "sat"
    res["ok"] = ok and res["reachable"]
    return res
