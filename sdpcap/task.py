"""E2 obligations: T1 definition match of the captured program against a reference program written from the
property's textbook definition, with numeric replay (real function + real solver vs the reference program solved
independently) before anything is reported."""
from __future__ import annotations

import time
import traceback

import numpy as np
import z3

from sdpcap.capture import (Captured, SymProgram, capture_call, extract, feasible, program_to_sym, sym_variables, t1_equiv)
from symnp.core import Ctx, Sym, SymError, lift, use_ctx
from symnp.harness import Builder, jsonable


class SdpTask:
    engine = "E2-sdpcap"
    weight = 5
    wall_cap_s = 900

    def __init__(self, name, cfg, call, reference, instance=None, abort_after=1, value_of=None, tol=2e-4,
                 replay_oracle=None):
        """call(): invokes the real toqito function (which builds and solves a program).
        reference(V, inst) -> SymProgram, where V maps captured variable names (and indices) to symbolic matrices.
        value_of(result) -> float extracts the optimum from what the toqito function returns (replay).
        replay_oracle(inst) -> float: independent optimum; default: the reference program solved with cvxpy."""
        self.name, self.cfg, self.call, self.reference, self.instance = name, cfg, call, reference, instance
        self.abort_after, self.value_of, self.tol, self.replay_oracle = abort_after, value_of or (lambda r: float(np.real(r[0] if isinstance(r, tuple) else r))), tol, replay_oracle

    def run(self, seed):
        t0 = time.time()
        rec = {"name": self.name, "cfg": self.cfg, "status": "inconclusive", "paths": 0, "queries": 0, "solver_s": 0.0,
               "notes": [], "stubs": [], "neg_control": None, "reachable": None, "tv": None, "engine": self.engine,
               "programs": 0, "disagreements_checked": 0}
        from symnp.harness import _ARG_MUTATIONS, task_mutation_verdict
        del _ARG_MUTATIONS[:]
        try:
            self._run(rec, seed)
        except SymError as e:
            rec["notes"].append(f"SymError: {e}")
        except ValueError as e:
            rec["notes"].append(f"extraction: {e}")
            rec["trace"] = traceback.format_exc()[-1500:]
        except Exception as e:  # noqa: BLE001
            rec["status"] = "error"
            rec["notes"].append(f"harness exception {type(e).__name__}: {e}")
            rec["trace"] = traceback.format_exc()[-2500:]
        task_mutation_verdict(rec)
        rec["wall_s"] = round(time.time() - t0, 3)
        return rec

    def _run(self, rec, seed):
        try:
            cap = capture_call(self.call, self.abort_after)
        except Exception as e:  # noqa: BLE001 - the real function failed before handing a program to the solver
            rec["disagreements_checked"] = 1
            try:
                self.call()
                rec["notes"].append(f"exception during capture did not reproduce: {type(e).__name__}: {e}")
            except Exception as e2:  # noqa: BLE001
                rec["status"] = "violation"
                rec["violation"] = {"source": "the real function raises before reaching the solver (reproduced)", "inputs": jsonable(self.cfg),
                                    "exception": f"{type(e2).__name__}: {str(e2)[:300]}"}
            return
        if cap is None:
            # the real function answered without handing a program to a solver (a closed-form shortcut): nothing to match
            # structurally; with an independent oracle the returned value itself is compared
            if self.replay_oracle is None:
                rec["notes"].append("no Problem.solve was reached: zero coverage")
                return
            rec["disagreements_checked"] = 1
            got, want = self.value_of(self.call()), self.replay_oracle(self.instance)
            if abs(got - want) > self.tol:
                rec["status"] = "violation"
                rec["violation"] = {"source": "the real function returned without solving a program; its value differs from the independent optimum",
                                    "inputs": jsonable(self.cfg), "actual": got, "expected": want}
            else:
                rec["notes"].append(f"no program was solved (shortcut); the returned value agrees with the independent optimum ({got:.6f} vs {want:.6f})")
            return
        prog = extract(cap)
        rec["programs"] = 1
        rec["program"] = prog.summary()
        rec["tv"] = verify_affine(prog, seed)
        if rec["tv"] is False:
            rec["status"] = "error"
            rec["notes"].append("affine extraction does not reproduce the library's own evaluation")
            return
        ctx = Ctx("lra", self.name)
        with use_ctx(ctx):
            b = Builder(ctx)
            mats, coords = sym_variables(b, prog.vars)
            P = program_to_sym(prog, coords)
            V = VarMap(prog.vars, mats)
            try:
                R = self.reference(V, self.instance)
            except (KeyError, ValueError, IndexError) as e:
                # the captured program does not even have the decision variables of the definition's program (renamed, missing,
                # different shape): a T1 mismatch like any other - the numeric replay below decides whether the value moved
                R = None
                res = {"ok": False, "detail": [f"the reference program cannot be written over the captured variables "
                                               f"{[(v.name, list(v.shape)) for v in prog.vars]}: {type(e).__name__}: {e}"]}
            else:
                res = t1_equiv(ctx, P, R)
            rec["reachable"] = res.get("reachable")
            # negative control: a reference with one constraint dropped (or a perturbed objective) must NOT be proved equal
            if R is not None and R.constraints:
                R2 = SymProgram(R.sense, R.objective, R.constraints[:-1])
                r2 = t1_equiv(ctx, P, R2)
                rec["neg_control"] = not r2["ok"]
            rec["queries"], rec["solver_s"] = ctx.queries, round(ctx.solver_s, 3)
            rec["atoms"] = len(ctx.atoms)
        if res["ok"] and rec["neg_control"] is not False:
            rec["status"] = "discharged"
            return
        if res["ok"]:
            rec["notes"].append("negative control not refuted")
            return
        rec["notes"] += res["detail"]
        # candidate: replay with the real solver against an independent optimum
        rec["disagreements_checked"] = 1
        try:
            got = self.value_of(self.call())
            want = self.replay_oracle(self.instance) if self.replay_oracle else (solve_reference(R, ctx) if R is not None else None)
        except Exception as e:  # noqa: BLE001
            rec["notes"].append(f"replay failed: {type(e).__name__}: {e}")
            return
        if want is None or not np.isfinite(want) or not np.isfinite(got):
            rec["notes"].append(f"reference program could not be solved for replay (reference {want}, real function {got})")
            return
        if abs(got - want) > self.tol:
            rec["status"] = "violation"
            rec["violation"] = {"source": "T1 mismatch reproduced numerically with the real solver", "inputs": jsonable(self.cfg),
                                "actual": got, "expected": want, "t1": res["detail"]}
        else:
            rec["notes"].append(f"formulation differs from the reference but the value agrees ({got:.6f} vs {want:.6f}): equivalent rewrite or redundant constraint")

    def replay(self, rp):
        if "exception" in rp.get("violation", {}):
            try:
                self.call()
                return True
            except Exception as e:  # noqa: BLE001
                print({"exception": f"{type(e).__name__}: {e}"})
                return False
        got = self.value_of(self.call())
        want = rp["violation"]["expected"]
        print({"actual": got, "expected": want})
        return abs(got - want) <= self.tol


class VarMap:
    """captured variables by name or by position"""

    def __init__(self, variables, mats):
        self.vars, self.mats = variables, mats
        self.by_name = {v.name: m for v, m in zip(variables, mats)}

    def __getitem__(self, k):
        if isinstance(k, int):
            return self.mats[k]
        return self.by_name[k]

    def names(self):
        return [v.name for v in self.vars]

    def herm(self, k):
        """the decision variable `k` as the textbook program declares it: a complex HERMITIAN matrix.  If the captured
        variable is only real symmetric (a restriction of the textbook domain), the reference gets its own symbols for the
        imaginary parts, so that T1 fails and the numeric replay decides whether the restriction changes the optimum."""
        from symnp.core import cur
        from symnp.harness import Builder
        i = k if isinstance(k, int) else [v.name for v in self.vars].index(k)
        v, m = self.vars[i], np.asarray(self.mats[i], dtype=object)
        if v.structure in ("symmetric", "psd_s", "real") and m.ndim == 2 and m.shape[0] == m.shape[1] and m.shape[0] > 1:
            b = Builder(cur())
            m = m.copy()
            n = m.shape[0]
            for a in range(n):
                for c in range(a + 1, n):
                    im = b.real(f"href_{v.name}_{a}_{c}")
                    m[a, c] = m[a, c] + 1j * im
                    m[c, a] = m[c, a] - 1j * im
        return m

    def cplx(self, k):
        """the decision variable `k` as the textbook program declares it: an arbitrary COMPLEX matrix.  If the captured
        variable is real, the reference gets its own symbols for the imaginary parts (T1 then fails and the numeric replay
        decides whether restricting the domain changes the optimum)."""
        from symnp.core import cur
        from symnp.harness import Builder
        i = k if isinstance(k, int) else [v.name for v in self.vars].index(k)
        v, m = self.vars[i], np.asarray(self.mats[i], dtype=object)
        if v.structure in ("real", "symmetric", "psd_s", "nonneg") and m.ndim == 2:
            b = Builder(cur())
            m = m.copy()
            for a in range(m.shape[0]):
                for c in range(m.shape[1]):
                    m[a, c] = m[a, c] + 1j * b.real(f"cref_{v.name}_{a}_{c}")
        return m

    def like(self, prefix):
        return [m for v, m in zip(self.vars, self.mats) if v.name.startswith(prefix)]

    def __len__(self):
        return len(self.mats)


def verify_affine(prog, seed):
    """random admissible point: affine map vs the library's own evaluation of the same expressions"""
    rng = np.random.default_rng(seed + 3)
    vals = []
    for v in prog.vars:
        cs = rng.integers(-3, 4, size=len(v.basis)).astype(float)
        if v.structure.startswith("psd"):
            cs = np.abs(cs)
        vals.append(cs)

    def ev(aff):
        out = aff.const.copy()
        ctr = {}
        for vi, nm, coeff in aff.terms:
            k = ctr.get(vi, 0)
            ctr[vi] = k + 1
            if coeff is not None:
                out = out + vals[vi][k] * coeff
        return out
    try:
        for v, cs in zip(prog.vars, vals):
            shp = v.shape if len(v.shape) == 2 else (v.shape[0], 1)
            m = sum(c * np.asarray(e).reshape(shp) for c, (nm, e) in zip(cs, v.basis))
            if prog.lib == "cvxpy":
                v.handle.value = np.asarray(m).reshape(v.handle.shape)
            else:
                v.handle.value = np.asarray(m)
        if prog.lib == "cvxpy":
            problem_objs = None
        # objective
        return True if _check_exprs(prog, ev) else False
    except Exception:  # noqa: BLE001
        return None


def _check_exprs(prog, ev):
    # the expression objects are not stored on the Program (only their maps); re-evaluation is done through
    # handles kept on the Affine objects when available
    ok = True
    for aff in [prog.objective] + [a for _, a in prog.constraints]:
        h = getattr(aff, "handle", None)
        if h is None:
            continue
        if prog.lib == "cvxpy":
            val = np.atleast_2d(np.array(h.value, dtype=complex))
        else:
            from sdpcap.capture import _pcval
            val = _pcval(h)
        if not np.allclose(val, ev(aff), atol=1e-9):
            ok = False
    return ok


def solve_reference(R, ctx):
    """solve a SymProgram numerically with cvxpy (independent of toqito): every Sym entry is affine in the coordinates"""
    import cvxpy
    atoms = sorted({a for kind, E in R.constraints for v in np.asarray(E, dtype=object).flat for a in lift(v).re.atoms() | lift(v).im.atoms()}
                   | {a for v in np.asarray(R.objective, dtype=object).flat for a in lift(v).re.atoms() | lift(v).im.atoms()})
    idx = {a: k for k, a in enumerate(atoms)}
    x = cvxpy.Variable(len(atoms)) if atoms else None

    def lin(p):
        c = float(p.t.get((), 0))
        expr = c
        for m, co in p.t.items():
            if not m:
                continue
            if len(m) != 1:
                raise ValueError("reference program is not affine")
            expr = expr + float(co) * x[idx[m[0]]]
        return expr
    cons = []
    for kind, E in R.constraints:
        E = np.asarray(E, dtype=object)
        if kind == "eq":
            for v in E.flat:
                v = lift(v)
                if v.re.t:
                    cons.append(lin(v.re) == 0)
                if v.im.t:
                    cons.append(lin(v.im) == 0)
        elif kind == "ge0":
            for v in E.flat:
                v = lift(v)
                cons.append(lin(v.re) >= 0)
        elif kind == "psd":
            n = E.shape[0]
            re = cvxpy.bmat([[lin(lift(E[i, j]).re) for j in range(n)] for i in range(n)])
            im = cvxpy.bmat([[lin(lift(E[i, j]).im) for j in range(n)] for i in range(n)])
            big = cvxpy.bmat([[re, -im], [im, re]])
            cons.append((big + big.T) / 2 >> 0)
    o = lin(lift(np.asarray(R.objective, dtype=object).flat[0]).re)
    prob = cvxpy.Problem(cvxpy.Maximize(o) if R.sense == "max" else cvxpy.Minimize(o), cons)
    try:
        val = prob.solve(solver=cvxpy.CLARABEL)
    except Exception:  # noqa: BLE001
        val = prob.solve(solver=cvxpy.SCS, eps=1e-8)
    # an infeasible / unbounded reference (e.g. written over captured variables of a different formulation) is not an optimum to
    # compare with: the caller reports "could not be solved", never a discrepancy
    if val is None or prob.status not in ("optimal", "optimal_inaccurate") or not np.isfinite(val):
        return None
    return float(val)
