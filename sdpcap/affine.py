"""Exact affine maps of cvxpy / picos expressions by evaluating the library's own expression at a
real basis of the variable space.  (Both libraries realise constants into C arrays, so instance
data is concrete; the decision variables become solver variables afterwards.)"""
from __future__ import annotations

from fractions import Fraction

import numpy as np


def real_basis(shape, structure):
    """list of (name, matrix) spanning the real vector space of admissible values.
    structure: 'complex' | 'real' | 'hermitian' | 'symmetric' | 'psd_h' | 'psd_s' | 'nonneg'
    For PSD-constrained variables the spanning set consists of PSD matrices."""
    if len(shape) == 0:
        shape = (1, 1)
    if len(shape) == 1:
        shape = (shape[0], 1)
    m, n = shape
    out = []
    if structure in ("real", "nonneg"):
        for i in range(m):
            for j in range(n):
                e = np.zeros((m, n)); e[i, j] = 1
                out.append((("r", i, j), e))
    elif structure == "complex":
        for i in range(m):
            for j in range(n):
                e = np.zeros((m, n), dtype=complex); e[i, j] = 1
                out.append((("r", i, j), e))
                e = np.zeros((m, n), dtype=complex); e[i, j] = 1j
                out.append((("i", i, j), e))
    elif structure in ("hermitian", "symmetric"):
        for i in range(n):
            e = np.zeros((n, n), dtype=complex if structure == "hermitian" else float); e[i, i] = 1
            out.append((("r", i, i), e))
            for j in range(i + 1, n):
                e = np.zeros((n, n), dtype=complex if structure == "hermitian" else float); e[i, j] = e[j, i] = 1
                out.append((("r", i, j), e))
                if structure == "hermitian":
                    e = np.zeros((n, n), dtype=complex); e[i, j] = 1j; e[j, i] = -1j
                    out.append((("i", i, j), e))
    elif structure in ("psd_h", "psd_s"):
        for i in range(n):
            e = np.zeros((n, n), dtype=complex if structure == "psd_h" else float); e[i, i] = 1
            out.append((("d", i, i), e))
        for i in range(n):
            for j in range(i + 1, n):
                v = np.zeros((n, 1), dtype=complex if structure == "psd_h" else float); v[i] = 1; v[j] = 1
                out.append((("p", i, j), v @ v.conj().T))
                if structure == "psd_h":
                    v = np.zeros((n, 1), dtype=complex); v[i] = 1; v[j] = 1j
                    out.append((("q", i, j), v @ v.conj().T))
    else:
        raise ValueError(structure)
    return out


def to_frac(x, tol=1e-9, maxden=1 << 20):
    """float -> Fraction; must be (numerically) a small dyadic/rational, else ValueError (inconclusive)"""
    f = Fraction(float(x))
    if f.denominator <= (1 << 44):
        return f            # a short dyadic rational: the double is exact
    f = f.limit_denominator(maxden)
    if abs(float(f) - float(x)) > tol:
        raise ValueError(f"coefficient {x!r} is not a small rational: instance data must be dyadic")
    return f


def frac_array(a, tol=1e-9):
    a = np.asarray(a)
    re = np.empty(a.shape, dtype=object)
    im = np.empty(a.shape, dtype=object)
    for idx in np.ndindex(a.shape):
        re[idx] = to_frac(np.real(a[idx]), tol)
        im[idx] = to_frac(np.imag(a[idx]), tol)
    return re, im


def cvxpy_structure(var):
    a = var.attributes
    if a.get("hermitian"):
        return "hermitian"
    if a.get("symmetric"):
        return "symmetric"
    if a.get("PSD"):
        return "psd_s"
    if a.get("complex"):
        return "complex"
    if a.get("nonneg"):
        return "nonneg"
    return "real"


def cvxpy_affine(expr, variables):
    """returns (const, [(var_index, basis_name, coeff_array)]) with float arrays: expr = const + sum coord*coeff"""
    saved = [v.value for v in variables]
    try:
        for v in variables:
            v.value = np.zeros(v.shape, dtype=complex if cvxpy_structure(v) in ("hermitian", "complex") else float)
        const = np.array(expr.value, dtype=complex)
        terms = []
        for vi, v in enumerate(variables):
            st = cvxpy_structure(v)
            shp = v.shape
            for name, e in real_basis(shp, st):
                e2 = e.reshape(shp) if e.shape != tuple(shp) else e
                v.value = e2
                val = np.array(expr.value, dtype=complex) - const
                terms.append((vi, name, val))
            v.value = np.zeros(v.shape, dtype=complex if st in ("hermitian", "complex") else float)
        return const, terms
    finally:
        for v, s in zip(variables, saved):
            try:
                v.value = s
            except Exception:  # noqa: BLE001
                pass


def snap(a, tol=1e-9):
    """numeric array -> object array of exact small rationals (complex entries as Sym-compatible python complex of
    Fractions is not available, so return (re, im) Fractions folded into symnp constants)"""
    from symnp.core import Poly, Sym
    a = np.asarray(a)
    out = np.empty(a.shape, dtype=object)
    for idx in np.ndindex(a.shape):
        out[idx] = Sym(Poly.const(to_frac(np.real(a[idx]), tol)), Poly.const(to_frac(np.imag(a[idx]), tol)))
    return out
