#!/usr/bin/env python3
"""Regenerate seeded/TABLE.md from seeded/<id>/meta.json."""
import glob
import json
import os
import re

V = os.path.dirname(os.path.dirname(os.path.abspath(__file__)))


def key(sid):
    m = re.match(r"C(\d+)(?:_r(\d))?_(\d)", sid)
    return (int(m.group(1)), int(m.group(2) or 1), int(m.group(3)))


rows = []
for f in sorted(glob.glob(os.path.join(V, "seeded", "C*", "meta.json")), key=lambda p: key(os.path.basename(os.path.dirname(p)))):
    m = json.load(open(f))
    title = (m.get("needs_to_manifest_and_clause_broken") or "").strip().splitlines()
    title = re.sub(r"^#+\s*", "", title[0]) if title else ""
    obs = ", ".join(f"{k} ({v})" for k, v in list(m.get("violating_obligations", {}).items())[:3])
    rows.append(f"| {m['id']} | {m['round']} | {', '.join(os.path.basename(x) for x in m['files_changed'])} | {title[:160]} | "
                f"{'yes' if m.get('detected_by_check') else 'NO'} | {obs} | {m.get('applies_to_repo_commit')} |")
out = ["# Seeded changes kept (confirmed by tools/seedtest.py against /repo at the commit given)", "",
       "Each directory holds `patch.diff`, `demo.py` (exit 0 on the unchanged tree, 1 with the patch) and `meta.json` (what was run, what the check printed).",
       "`caught` = `./vcheck <Cxx> --tier quick` exited 1 with VIOLATION lines on the patched tree, with the checks as they stood when the row was last confirmed.",
       "", "| id | round | file(s) | change (agent's own title) | caught | violating obligations (count) | /repo commit |", "|---|---|---|---|---|---|---|"] + rows
open(os.path.join(V, "seeded", "TABLE.md"), "w").write("\n".join(out) + "\n")
print(len(rows), "rows;", sum("| yes |" in r for r in rows), "caught")
