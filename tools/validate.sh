#!/bin/sh
/opt/veriftools/pyvenv/bin/python - <<'PY'
import json,jsonschema,glob
jsonschema.validate(json.load(open('/verif/MANIFEST.json')),json.load(open('/root/.vp/MANIFEST.schema.json')))
s=json.load(open('/root/.vp/EVIDENCE.schema.json'))
for f in sorted(glob.glob('/verif/evidence/*.json')):
    jsonschema.validate(json.load(open(f)),s)
print('manifest + evidence valid')
PY
