#!/usr/bin/env python3
"""Regenerates MANIFEST.json from the table below (one entry per claimed property)."""
import json, os
V = os.path.dirname(os.path.dirname(os.path.abspath(__file__)))

E1 = "symbolic execution of the real Python/numpy code on solver-backed scalars + SMT (z3) discharge per configuration, counterexample replay on the real code"
NOTE_E1 = ("numpy object-array semantics taken as numpy's numeric semantics (validated per obligation by running the same harness on "
           "rational constants vs plain numpy); floats modelled as reals; z3 5.1.0; shapes bounded as stated in evidence.bounds")

KERN = ("; LAPACK / scipy kernels are uninterpreted functions of their argument's normal form (with algebraic contracts where named): "
        "their numerical behaviour is the trusted base")

CHECKS = {
 "C01": dict(engine="symnp", category="other", design_ref="DESIGN.md §3 C01", technique=E1, note=NOTE_E1,
   text="Bounded symbolic execution of the real permute_systems/swap/permutation_operator/swap_operator: for every enumerated configuration "
        "(subsystem count, local dims incl. separate row/column dims, permutation, flags, dim-argument form) z3 proves cell-for-cell equality "
        "with an independent index-map oracle for all entry values (uninterpreted sort / symbolic complex). Holds for all values within the "
        "enumerated shapes; nothing is claimed outside the bound."),
 "C02": dict(engine="symnp", category="other", design_ref="DESIGN.md §3 C02", technique=E1 + "; cvxpy path: affine map of the returned expression extracted on a basis, equality to the numeric path proved by z3",
   note=NOTE_E1 + "; cvxpy's .value evaluation trusted for the affine extraction",
   text="Bounded symbolic execution of the real partial_trace on symbolic complex matrices: definition (every S in every order / int), scalar and "
        "omitted dim, composition, product form; cvxpy Variable path proved equal to the numeric path for all variable values."),
 "C03": dict(engine="symnp", category="other", design_ref="DESIGN.md §3 C03", technique=E1 + "; cvxpy path: affine extraction + z3",
   note=NOTE_E1 + "; cvxpy's .value evaluation trusted for the affine extraction",
   text="Bounded symbolic execution of the real partial_transpose / realignment on uninterpreted-sort entries: exactly the indices in S are "
        "exchanged (square and rectangular), involution / full transpose / complement identities, realignment index map and product form; "
        "cvxpy Variable path equals numeric path."),
 "C04": dict(engine="symnp", category="other", design_ref="DESIGN.md §3 C04", technique=E1 + "; eigh/svd as uninterpreted kernels with algebraic contracts", note=NOTE_E1 + "; LAPACK eigh/svd trusted behind their algebraic contracts",
   text="Bounded symbolic execution of apply_channel / kraus_to_choi / choi_to_kraus / partial_channel / natural_representation / channel_dim with all Kraus, Choi, "
        "X and rho entries symbolic complex: every representation acts as sum_i A_i X B_i^dagger (rectangular pairs included), Choi = sum E_ij (x) Phi(E_ij), "
        "partial channel = id (x) Phi (x) id at every position, natural representation on row-major vec; Choi->Kraus reproduces the Choi matrix minus the "
        "dropped eigen/singular terms on every keep/drop path under the eigh/svd contracts."),
 "C05": dict(engine="symnp", category="other", design_ref="DESIGN.md §3 C05", technique=E1, note=NOTE_E1,
   text="Bounded symbolic execution of dual_channel / complementary_channel observed through the real apply_channel: adjoint identity for flat, nested, "
        "paired (rectangular) and Choi forms with Phi, X, Y all symbolic; dual of dual; unital iff dual trace-preserving as equivalence of the two verdict "
        "formulas; complementary-channel entries Tr(K_i rho K_j^dagger), trace identity, completeness guard."),
 "C06": dict(engine="symnp", category="other", design_ref="DESIGN.md §3 C06", technique=E1 + "; eigenvalue/rank kernels uninterpreted; eigen-certificates in linear arithmetic", note=NOTE_E1 + "; LAPACK eigh/matrix_rank uninterpreted",
   text="Channel predicates: exact=>True and margin=>False obligations for TP / unital / Hermiticity-preserving / unitary in every accepted representation; "
        "CP / positive / quantum-channel verdicts proved equal to the eigenvalue test of the oracle's Choi matrix; choi_rank / is_extremal arguments. "
        "Constructors with symbolic parameters act by their textbook formula through the real apply_channel, CP on the admissible range by eigen-certificate, "
        "sqrt-parameterised Kraus constructors complete, consistent across forms and rejecting exactly outside [0,1]."),
 "C10": dict(engine="sdpcap", category="translation_validation", design_ref="DESIGN.md §3 C10, §2.2",
   technique="capture of the picos program built by the real code, exact affine extraction, z3 proof of equality with the textbook program for all decision-variable values (PSD as uninterpreted predicate), numeric replay with the real solver; symbolic execution of the numpy glue",
   note="instance data concrete (dyadic family stated in evidence.bounds); picos' own expression evaluation trusted for extraction; textbook strong duality and the conic solver trusted; z3 5.1.0",
   text="Per instance of the stated family and each of the four strategy/formulation combinations, the captured program equals the textbook min-error / unambiguous "
        "primal or dual program (objective, every constraint, sense) for all values of the decision variables; primal/dual agreement reduces to that plus textbook duality. "
        "to_density_matrix / Gram-matrix glue proved for symbolic vectors. The captured min-error primal and dual are additionally proved to be a Lagrangian pair (T2, both captured from the real code); the operators the real solver returns are checked to be a POVM attaining the returned value on three instances (known finding: the dual form returns conjugated operators)."),
 "C11": dict(engine="sdpcap", category="translation_validation", design_ref="DESIGN.md §3 C11, §2.2",
   technique="capture of the picos program built by the real code, exact affine extraction, z3 proof of equality with the textbook program for all decision-variable values, numeric replay; symbolic execution of the glue with the solve stubbed",
   note="instance data concrete (small-denominator rational family stated in evidence.bounds); picos' own evaluation trusted for extraction; textbook strong duality and the conic solver trusted; z3 5.1.0",
   text="Per instance and formulation the captured exclusion program equals the textbook program (min-error primal/dual, unambiguous primal/dual) for all decision-variable values; "
        "is_antidistinguishable / common_quantum_overlap proved to be isclose(value,0) / value of the all-ones-prior dual program; trine and PBR constructors equal their closed forms. The captured min-error primal and dual are additionally proved to be a Lagrangian pair (T2); the returned operators are checked to attain the returned value (known finding for the dual form)."),
 "C12": dict(engine="sdpcap", category="translation_validation", design_ref="DESIGN.md §3 C12, §2.2",
   technique="capture of the picos / cvxpy program built by the real code, exact affine extraction, z3 proof of equality with the textbook program for all decision-variable values, numeric replay; z3 proof of program inclusion between two captured programs (ordering clauses) and of feasibility of explicit LOCC measurement families with symbolic post-processing weights; symbolic execution for the caller's-list clause",
   note="instance data concrete (dyadic family in evidence.bounds); picos / cvxpy evaluation trusted for extraction; textbook duality and conic solvers trusted; PSD-cone closure lemmas (sum, partial trace, non-negative combinations) instantiated as trusted facts, PSD-ness of concrete generators by exact rational elimination; z3 5.1.0",
   text="Per instance: PPT-distinguishability primal and dual programs equal the textbook programs with the oracle's own partial-transpose map (either party, 2x2 and 2x3); "
        "the symmetric-extension hierarchy program at levels 1 and 2 equals the textbook program (marginal, symmetric-subspace, PT cuts, completeness, objective); "
        "the caller's list of states holds the same objects after the call; every feasible point of the captured PPT program is feasible for the captured min-error program with the "
        "same objective (PPT <= global), every feasible point of the captured level-2 program maps to a feasible point of the captured level-1 program (non-increasing in the level), and "
        "every classical post-processing of explicit one-way LOCC product measurements is feasible with objective equal to its success probability (value >= explicit LOCC / separable measurements)."),
 "C20": dict(engine="sdpcap", category="translation_validation", design_ref="DESIGN.md §3 C20, §2.2",
   technique="capture of the picos / cvxpy program built by the real code, exact affine extraction (spectral norm as uninterpreted function), z3 proof of equality with the definition's program for all decision-variable values, numeric replay; symbolic execution of the shortcut branches",
   note="instance data concrete (dyadic Choi matrices, family in evidence.bounds); library evaluation trusted for extraction; the SDP characterisations (Watrous; Katariya-Wilde) are taken as the definitions; conic solvers and LAPACK norms trusted; z3 5.1.0",
   text="Per instance: the cb-trace-norm program equals Watrous' SDP; diamond distance and cb spectral norm are that program for J1-J2 and for the oracle's own dual map; the channel-fidelity "
        "program equals the definition's SDP for local dimension 2, 3, 5 (4, 6 thorough). Shortcut branches on a symbolic CP Choi matrix: channel => 1, CP non-TP => operator norm of Phi*(I) "
        "(the latter is a recorded known finding: the code returns the trace norm). Channel fidelity of separability: product-state certificate on the captured program (k = 1, 2, unequal dimensions, repeated call with the same list)."),
 "C13": dict(engine="symnp", category="other", design_ref="DESIGN.md §3 C13", technique=E1 + "; sqrtm / nuclear norm / eigenvalue kernels uninterpreted (congruence)", note=NOTE_E1 + KERN,
   text="For symbolic density operators rho = AA^dagger/Tr (all rank pairs, real and complex, d=2 quick / 3 thorough) the value returned by fidelity, trace_distance, hilbert_schmidt, "
        "hilbert_schmidt_inner_product, helstrom_holevo, bures_distance, bures_angle, sub_fidelity, matsumoto_fidelity equals the documented formula with each kernel applied to an argument "
        "proved entry-wise equal; non-density inputs are rejected on every path. hilbert_schmidt's spectral-norm formula is a recorded known finding. Fidelity of separability: the captured picos program of a product state with unequal dimensions admits the product extension with value 1 (T3 certificate)."),
 "C14": dict(engine="symnp", category="other", design_ref="DESIGN.md §3 C14", technique=E1 + "; svd / nuclear norm / rank / eigenvalue kernels uninterpreted, svd contract for the Schmidt decomposition", note=NOTE_E1 + KERN,
   text="negativity / log_negativity = stated function of the nuclear-norm kernel of the oracle's own partial transpose (vector and density input, dim list/int/omitted); Schmidt decomposition: "
        "the SVD argument is the amplitude matrix and, under the svd contract, the factors rebuild the state (unequal local dims); schmidt_rank / sk_vector_norm / is_product arguments; "
        "l1 coherence, purity, entropy, concurrence, entanglement of formation (pure branch) as formulas of the right kernel arguments. sk_operator_norm: the returned bounds are compared, by QF_NRA queries over all coefficient vectors, with the values attained on explicit families of Schmidt-rank-<=k vectors (15 operators, thorough 19, two of them with the optimum at a lower Schmidt rank). Operator Schmidt rank and the operator product test also for non-square local factors and scalar dim."),
 "C16": dict(engine="symnp", category="other", design_ref="DESIGN.md §3 C16", technique=E1 + "; eigenvalue / rank / Cholesky / null-space kernels uninterpreted with contracts", note=NOTE_E1 + KERN,
   text="Each tolerance predicate: residuals within atol/2 => True, beyond 2(atol+rtol*magnitude) => False, exact-by-construction => True, invariance under the property-preserving "
        "transformations; exact-equivalence predicates as iff formulas; kernel predicates as the stated function of the right kernel argument; vec/unvec, vec(AXB), tensor associativity and powers, "
        "Gram round trip under the Cholesky contract, commutant under the null-space contract, majorisation. is_unextendible_product_basis: on concrete Gaussian-integer product families the definition (existence of a product vector orthogonal to every member) is decided by z3 in QF_LRA and compared with the real verdict and witness."),
 "C18": dict(engine="symnp", category="other", design_ref="DESIGN.md §3 C18", technique=E1 + " with a symbolic test vector; CrossHair (symbolic execution + z3) for unique_perms; complete enumeration of the finite spaces (perm_sign)", note=NOTE_E1 + "; projector entries lifted to exact k/p! (|err|<1e-12); orth kernel checked on the concrete output; CrossHair per-condition timeout",
   text="Symmetric / antisymmetric projectors for every (d,p) in the bound: idempotent, Hermitian, equal to the (signed) average of the oracle's own permutation maps, fixed / sign-flipped by every "
        "generator (all permutations in thorough), mutually orthogonal, summing to the identity for p=2, exact trace = binomial; isometry forms; perm_sign over all permutations of <=6 elements (enumeration); "
        "unique_perms confirmed over all paths by CrossHair for len<=3 (<=5 thorough); perfect_matchings with symbolic pairwise-distinct labels. unique_perms call histories (abandoned / interleaved enumerations) under a second CrossHair contract with translator validation of CrossHair's interpreter model."),
 "C19": dict(engine="symnp", category="other", design_ref="DESIGN.md §3 C19", technique=E1 + "; randomness replaced by a recording generator whose draws are unconstrained solver variables; qr / svd / eigh / fractional-power kernels with contracts", note=NOTE_E1 + KERN + "; numpy's contract for seeded generators (same seed => same stream) trusted",
   text="Provenance: every draw of every toqito.rand function comes from one default_rng(seed) built from its own seed argument and nothing touches the global state. Validity for arbitrary draws: density "
        "matrices as HH^dagger/Tr of a dim x k factor, unitaries / bases under the QR contract, PSD operators, state vectors as normalised sums of k product terms, POVMs summing to the identity, circulant Gram matrices; "
        "measure(): Born rule, post-states, completeness guard; pretty good / bad measurements sum to the identity under the inverse-square-root contract. The Bures branch's rank bound is a recorded known finding."),
 "C07": dict(engine="symnp + sdpcap", category="other", design_ref="DESIGN.md §3 C07, §2.2",
   technique="symbolic execution of classical_value / constructors on solver-backed scalars (z3); certificates on the captured cvxpy programs (real npa_constraints, nonsignaling_value, see-saw) proved in z3 with the answer functions / boxes / decision variables as symbols",
   note=NOTE_E1 + "; cvxpy evaluation trusted for extraction; v v^T and principal submatrices of PSD matrices are PSD and traces of PSD matrices are >= 0 (mathematical facts used by the certificates); the conic solver returns the optimum of the program it is handed",
   text="Classical value = max over all pairs of answer functions for every prob/pred tensor of the enumerated shapes (all entries symbolic), game object unchanged; product and BCS constructors; "
        "for every game of the listed shapes: every deterministic strategy is a feasible point of the real NPA program with its own value (classical <= NPA_k, k in 1,'1+ab',2), higher-level equalities "
        "imply lower-level ones (NPA monotone in k), NPA constraints imply a non-signalling box and nonsignaling_value's program is the LP over such boxes (NPA <= NS <= 1); see-saw programs are the textbook POVM optimisations. Large games (512..2048 enumerated strategies, both the single-core loop and the multiprocessing branch): the dispatch of strategy indices is executed with process_iteration uninterpreted and the pool stubbed, z3 decides that the result is the maximum over every index; NPA / NS programs are also captured from an object that already answered classical_value(). Explicit quantum CHSH strategies (Gaussian-rational non-commuting qubit projectors, symbolic shared state) are proved feasible for the captured NPA program with their own value (quantum <= NPA_k for these strategies)."),
 "C17": dict(engine="symnp", category="other", design_ref="DESIGN.md §3 C17", technique=E1 + "; parameter-free constructors executed over exact algebraic numbers (sqrt / roots of unity as symbols with rewriting), float-lifted fallback where the code leaves exact arithmetic",
   note=NOTE_E1 + "; 'float-lifted' obligations (named in their cfg) compare exact binary rationals of the returned doubles within 1e-9; eigen-certificates use concrete projectors built in the harness",
   text="Parameterised constructors with symbolic parameters equal their closed forms (Werner scalar and list forms, isotropic, Horodecki, Gisin, Breuer, chessboard, GHZ / W coefficient forms); PPT thresholds of Werner / isotropic / "
        "Horodecki states by eigen-certificates decided in (non)linear arithmetic; parameter-free constructors, run by the real code over exact algebraic numbers, satisfy their defining identities for every index pair / dimension in the bound "
        "(Bell / generalised Bell bases, maximally entangled marginals, GHZ / W / Dicke support and symmetry, tile / domino product bases, MUBs, Pauli / Gell-Mann families, Weyl relation, Fourier intertwiner, Hadamard / CNOT / cyclic shift)."),
 "C08": dict(engine="symnp + sdpcap", category="other", design_ref="DESIGN.md §3 C08, §2.2",
   technique="symbolic execution of the XOR-game glue (conversion, classical value with symbolic distribution, constructor validation, return formula) with z3; capture of the cvxpy programs of quantum_value and bell_inequality_max and z3 proof of equality with the reference programs for all decision-variable values",
   note=NOTE_E1 + "; cvxpy evaluation trusted for extraction; instance data of the captured programs is concrete (dyadic); the conic solver is trusted",
   text="XOR game: converted predicate is [f = a xor b]; classical value = max over +-1 assignments for every 0/1 predicate of the enumerated shapes and every distribution (symbolic), equal between the XOR game and its conversion; "
        "constructor rejects exactly invalid distributions; quantum_value = (dual optimum / 4 + 1/2)^reps and its program is Tsirelson's dual SDP; bell_inequality_max's program (m = 2, +-1 and 0/1 outcomes, marginal terms) has the stated "
        "trace / PSD / PPT constraints and the Bell-operator objective rebuilt from the oracle's own index maps. NPA level-1 certificates are run on the games XORGame.to_nonlocal_game() returns for rectangular question sets; the converted object is queried twice."),
 "C09": dict(engine="symnp + sdpcap", category="translation_validation", design_ref="DESIGN.md §3 C09, §2.2",
   technique="capture of every cvxpy program built by the real code, exact affine extraction, z3 proofs (T1 definition match, T2 adjoint pairing, T3 embedding certificates with answer functions and referee state as symbols); symbolic execution of unentangled_value and of the product / cloning-operator glue",
   note="instance data of captured programs concrete (dyadic); cvxpy evaluation trusted for extraction; rho (x) v v^T is PSD for rho >= 0; strong duality and the conic solver trusted; lambda_max as uninterpreted LAPACK kernel; z3 5.1.0",
   text="Unentangled value = max over all pairs of answer functions of lambda_max (all entries symbolic); every unentangled strategy is a feasible point of the real NPA-with-referee program with its own value (unentangled <= NPA_k), "
        "NPA constraints imply the non-signalling assemblage conditions and nonsignaling_value's program is the textbook assemblage program (NPA_k <= NS); hedging and cloning primal / dual programs equal the textbook programs and the dual's embedding "
        "is the adjoint of the primal's partial trace (so they are a dual pair), real and complex instances, 1 and 2 repetitions. The hedging programs are also captured after an earlier call on the same object (all ordered pairs of methods); the cloning primal/dual pair is checked as a Lagrangian pair (T2) for one and two repetitions. Explicit quantum strategies with non-commuting measurements and a symbolic shared state on A (x) B (x) R are proved feasible for the captured NPA-with-referee program with their own value, on two games with quantum advantage (real and complex referee projectors)."),
 "C15": dict(engine="symnp", category="other", design_ref="DESIGN.md §3 C15", technique=E1 + "; all LAPACK kernels uninterpreted; path exploration of the is_separable cascade; concrete-instance replays for the branches beyond the symbolic fragment",
   note=NOTE_E1 + KERN + "; beyond the spectrum sort of is_separable (argsort / orth / SDP) only a stated deterministic family of concrete product mixtures is run through the real code (labelled concrete-instance in the evidence)",
   text="is_ppt / is_npt verdict = 'every value of the eigenvalue kernel on the oracle's own partial transpose is >= -tol' for either party, dims 2x2..3x2 (3x3, 2x4 thorough), dim as list / int / omitted, tol symbolic; "
        "in_separable_ball = the Gurvits-Barnum trace / Frobenius test; has_symmetric_extension shortcut branches and two-qubit closed form; is_separable: total dimension <= 6 equals the PPT test, a partial transpose negative by a margin gives False on "
        "every path, symbolic product mixtures never raise up to the spectrum sort; the SDP branch of has_symmetric_extension (rejects every state) and the Breuer-Hall block (TypeError) are recorded known findings."),
}
NOT_BUILT = "check not built yet in this round (planned per DESIGN.md §3); nothing is claimed"
NA = {f"C{i:02d}": NOT_BUILT for i in range(1, 21) if f"C{i:02d}" not in CHECKS}

ENGINES = [
 {"name": "symnp", "path": "symnp/", "serves_properties": [k for k, v in CHECKS.items() if "symnp" in v["engine"]],
  "kind_free_text": "E1: symbolic execution of the real numpy code on object arrays of z3-backed scalars (polynomial normal form, monomial abstraction), decision-replay path exploration, z3 discharge, numeric replay"},
 {"name": "sdpcap", "path": "sdpcap/", "serves_properties": [k for k, v in CHECKS.items() if "sdpcap" in v["engine"]],
  "kind_free_text": "E2: capture of the cvxpy/picos program the real code builds, exact affine extraction on a basis, z3 obligations T1/T2/T3"},
]
import subprocess as _sp
_fix = _sp.run("git -C /repo log --format=%h --grep=^fix: --reverse", shell=True, capture_output=True, text=True).stdout.split()
NOTES = (f"{len(_fix)} `fix:` commits in /repo (oldest first): " + ", ".join(_fix) + "; what each repaired is listed in known_findings.json 'fixed' and DESIGN.md section 5. "
         "Exit codes: 0 held / 1 VIOLATION (reproduced on the real code) / 2 harness error.")

checks = []
for pid, e in sorted(CHECKS.items()):
    checks.append({
        "property_id": pid,
        "quick_cmd": f"./vcheck {pid} --tier quick",
        "thorough_cmd": f"./vcheck {pid} --tier thorough",
        "evidence_file": f"evidence/{pid}.json",
        "replay_cmd_template": f"./vcheck {pid} --replay {{path}}",
        "engine": e["engine"],
        "level_claimed": {"category": e["category"], "text": e["text"], "design_ref": e["design_ref"]},
        "level_note": e["note"],
        "technique": e["technique"],
    })
m = {
    "version": 1,
    "setup_cmd": "./setup.sh",
    "hooks": {"guard": "TOQITO_VERIF",
              "enable": "no source hooks: interception is done at run time from the harness (module-scoped name rebinding, Problem.solve patches)",
              "baseline_off_cmd": "cd /repo && /venv/bin/python -m pytest -ra -q -p no:cacheprovider --timeout=900 --continue-on-collection-errors",
              "source_commits": [], "add_only": True},
    "engines": ENGINES,
    "checks": checks,
    "notes": NOTES,
    "not_applicable": [{"property_id": k, "reason": v} for k, v in sorted(NA.items())],
}
json.dump(m, open(os.path.join(V, "MANIFEST.json"), "w"), indent=1)
print("checks:", [c["property_id"] for c in checks], "n/a:", sorted(NA))
