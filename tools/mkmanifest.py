#!/usr/bin/env python3
"""Regenerates MANIFEST.json from the per-property META tables (props/cNN.py) + tools/manifest_table.json."""
import json, os, sys
V = os.path.dirname(os.path.dirname(os.path.abspath(__file__)))
tab = json.load(open(os.path.join(V, "tools", "manifest_table.json")))
checks = []
for pid, e in sorted(tab["checks"].items()):
    checks.append({
        "property_id": pid,
        "quick_cmd": f"./vcheck {pid} --tier quick",
        "thorough_cmd": f"./vcheck {pid} --tier thorough",
        "evidence_file": f"evidence/{pid}.json",
        "replay_cmd_template": f"./vcheck {pid} --replay {{path}}",
        "engine": e["engine"],
        "level_claimed": {"category": e["category"], "text": e["text"], "design_ref": e.get("design_ref", "DESIGN.md §3")},
        "level_note": e["note"],
        "technique": e["technique"],
    })
m = {
    "version": 1,
    "setup_cmd": "./setup.sh",
    "hooks": {"guard": "TOQITO_VERIF", "enable": "no source hooks: interception is done at run time from the harness (module-scoped name rebinding, Problem.solve patches)",
              "baseline_off_cmd": "cd /repo && /venv/bin/python -m pytest -ra -q -p no:cacheprovider --timeout=900 --continue-on-collection-errors",
              "source_commits": [], "add_only": True},
    "engines": tab["engines"],
    "checks": checks,
    "notes": tab["notes"],
    "not_applicable": [{"property_id": k, "reason": v} for k, v in sorted(tab["not_applicable"].items())],
}
json.dump(m, open(os.path.join(V, "MANIFEST.json"), "w"), indent=1)
print("checks:", [c["property_id"] for c in checks], "n/a:", sorted(tab["not_applicable"]))
