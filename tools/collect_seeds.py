#!/usr/bin/env python3
"""Copy confirmed seeded changes (scratch dirs /tmp/seed*_Cxx/change_i + the seedtest results in the directory given as argv[1],
default /tmp/seedres3) into /verif/seeded/<id>/ (patch.diff, demo.py, meta.json) and print the detection table for DESIGN.md.
argv[2] (optional): the /repo commit the results were obtained on."""
import glob
import json
import os
import re
import shutil
import subprocess
import sys

RES = sys.argv[1] if len(sys.argv) > 1 else "/tmp/seedres3"
BASE = sys.argv[2] if len(sys.argv) > 2 else subprocess.run("git -C /repo rev-parse --short HEAD", shell=True, capture_output=True, text=True).stdout.strip()

V = os.path.dirname(os.path.dirname(os.path.abspath(__file__)))
rows = []
for f in sorted(glob.glob(RES + "/C*_*.json")):
    sid = os.path.basename(f)[:-5]
    try:
        r = json.load(open(f))
    except Exception:  # noqa: BLE001
        continue
    src = r["dir"]
    confirmed = r.get("demo_unpatched_exit") == 0 and r.get("demo_patched_exit") == 1 and r.get("tests_exit") == 0
    notes = ""
    try:
        notes = open(os.path.join(src, "notes.md")).read()
    except OSError:
        pass
    files = sorted(set(re.findall(r"^\+\+\+ b/(\S+)", open(os.path.join(src, "patch.diff")).read(), re.M)))
    caught = r.get("check_exit") == 1
    meta = {
        "id": sid, "property": r["property"], "round": (2 if "_r2_" in sid else 3 if "_r3_" in sid else 4 if "_r4_" in sid else 6 if "_r6_" in sid else 1), "files_changed": files,
        "applies_to_repo_commit": BASE,
        "confirmed": confirmed,
        "what_i_ran": {"demo on unchanged /repo": f"exit {r.get('demo_unpatched_exit')}", "demo with patch applied to /repo": f"exit {r.get('demo_patched_exit')}",
                       "existing tests with patch": f"exit {r.get('tests_exit')} ({r.get('tests_tail')})",
                       f"./vcheck {r['property']} --tier {r.get('tier')} with patch": f"exit {r.get('check_exit')}; {r.get('check_summary')}"},
        "detected_by_check": caught, "violating_obligations": r.get("violating_obligations", {}),
        "other_lines": r.get("other_lines", [])[:3],
        "needs_to_manifest_and_clause_broken": notes[:3000],
    }
    if confirmed:
        d = os.path.join(V, "seeded", sid)
        os.makedirs(d, exist_ok=True)
        shutil.copy(os.path.join(src, "patch.diff"), d)
        shutil.copy(os.path.join(src, "demo.py"), d)
        json.dump(meta, open(os.path.join(d, "meta.json"), "w"), indent=1)
    rows.append((sid, ", ".join(os.path.basename(x) for x in files), confirmed, caught, ", ".join(f"{k} ({v})" for k, v in list(r.get("violating_obligations", {}).items())[:3])))
print("| seed | file(s) | confirmed | caught (quick) | violating obligations |")
print("|---|---|---|---|---|")
for sid, fl, c, k, ob in rows:
    print(f"| {sid} | {fl} | {'yes' if c else 'NO'} | {'yes' if k else 'NO'} | {ob} |")
