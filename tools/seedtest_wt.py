#!/usr/bin/env python3
"""Confirm a seeded change and run the property's check against it.

usage: tools/seedtest_wt.py <dir with patch.diff, demo.py> <property id> --repo <scratch worktree> [--tier quick|thorough] [--tests "<pytest args>"] [--jobs N]
(variant of seedtest.py that confirms a change and runs the check against a SCRATCH WORKTREE of /repo (toqito imported from it through PYTHONPATH / VERIF_REPO), so that many changes can be processed in parallel)

Steps (all against /repo itself, undone afterwards with `git -C /repo checkout -- .`):
  1. demo.py on the unchanged tree must exit 0
  2. git apply patch.diff ; demo.py must exit 1
  3. the given existing tests must still pass with the patch
  4. ./vcheck <id> --tier <tier> --no-evidence : records exit status and the VIOLATION lines
Prints a JSON summary."""
import json
import os
import subprocess
import sys

REPO = "/repo"
VERIF = os.path.dirname(os.path.dirname(os.path.abspath(__file__)))


def run(cmd, cwd=None, timeout=3600, env=None):
    e = dict(os.environ)
    if env:
        e.update(env)
    p = subprocess.run(cmd, shell=True, cwd=cwd, capture_output=True, text=True, timeout=timeout, env=e)
    return p.returncode, (p.stdout + p.stderr)


def main():
    d, pid = sys.argv[1], sys.argv[2]
    tier = "quick"
    tests = None
    jobs = "4"
    args = sys.argv[3:]
    while args:
        a = args.pop(0)
        if a == "--tier":
            tier = args.pop(0)
        elif a == "--tests":
            tests = args.pop(0)
        elif a == "--repo":
            globals()["REPO"] = args.pop(0)
        elif a == "--jobs":
            jobs = args.pop(0)
    patch = os.path.join(d, "patch.diff")
    if tests is None:
        pk = set()
        for ln in open(patch):
            if ln.startswith("+++ b/toqito/"):
                parts = ln.split()[1].split("/")
                pkg = "/".join(parts[1:3])
                one = f"{pkg}/tests/test_{parts[-1]}"
                slow = parts[2] in ("state_opt", "nonlocal_games", "channel_metrics", "state_metrics")
                pk.add(one if (slow and os.path.exists(os.path.join(REPO, one))) else pkg + "/tests")
        tests = " ".join(sorted(pk))
    demo = os.path.join(d, "demo.py")
    out = {"dir": d, "property": pid, "tier": tier}
    rc, o = run("git status --porcelain", cwd=REPO)
    if o.strip():
        print("refusing: the worktree has uncommitted changes")
        return 2
    rc0, o0 = run(f"/venv/bin/python {demo}", cwd=REPO, env={"PYTHONPATH": REPO})
    out["demo_unpatched_exit"] = rc0
    rc, o = run(f"git apply {patch}", cwd=REPO)
    if rc != 0:
        out["apply_error"] = o[-500:]
        print(json.dumps(out, indent=1))
        return 2
    try:
        rc1, o1 = run(f"/venv/bin/python {demo}", cwd=REPO, env={"PYTHONPATH": REPO})
        out["demo_patched_exit"] = rc1
        out["demo_patched_tail"] = o1[-400:]
        if tests:
            rct, ot = run(f"/venv/bin/python -m pytest -q -p no:cacheprovider {tests}", cwd=REPO, timeout=3600)
            out["tests_exit"] = rct
            out["tests_tail"] = ot.strip().splitlines()[-1] if ot.strip() else ""
        rcc, oc = run(f"./vcheck {pid} --tier {tier} --no-evidence --jobs {jobs}", cwd=VERIF, timeout=7200, env={"PYTHONPATH": REPO, "VERIF_REPO": REPO})
        out["check_exit"] = rcc
        lines = oc.splitlines()
        out["check_summary"] = lines[-1] if lines else ""
        viol = [ln for ln in lines if ln.startswith("  obligation=")]
        names = {}
        for ln in viol:
            n = ln.split()[0].split("=", 1)[1]
            names[n] = names.get(n, 0) + 1
        out["violating_obligations"] = names
        out["other_lines"] = [ln[:200] for ln in lines if ln.startswith(("INCONCLUSIVE", "HARNESS-ERROR", "KNOWN"))][:6]
    finally:
        run("git checkout -- .", cwd=REPO)
    print(json.dumps(out, indent=1))
    return 0


if __name__ == "__main__":
    sys.exit(main())
