#!/bin/sh
# Build the overlay environment for the checks, offline, from files on disk only.
# /verif/.venv = venv of /venv's interpreter + .pth to /venv's site-packages and /repo
# + z3-solver / crosshair-tool from the offline wheelhouse.
set -e
cd "$(dirname "$0")"
V=.venv
if [ -x "$V/bin/python" ] && "$V/bin/python" -c "import z3, crosshair, numpy, cvxpy, picos, toqito" 2>/dev/null; then
  exit 0
fi
rm -rf "$V"
/venv/bin/python -m venv "$V"
SP=$("$V/bin/python" -c "import sysconfig;print(sysconfig.get_paths()['purelib'])")
printf '%s\n%s\n' "/venv/lib/python3.12/site-packages" "/repo" > "$SP/verif_overlay.pth"
PIP_NO_INDEX=1 "$V/bin/pip" install -q --no-index --find-links /opt/veriftools/wheels z3-solver crosshair-tool >/dev/null 2>&1 || \
PIP_NO_INDEX=1 "$V/bin/pip" install --no-index --find-links /opt/veriftools/wheels z3-solver crosshair-tool
"$V/bin/python" -c "import z3, crosshair, numpy, cvxpy, picos, toqito; print('overlay ok', z3.get_version_string())"
