"""C01 Subsystem permutation is exactly tensor-factor relabelling."""
from __future__ import annotations

import itertools

import numpy as np

from symnp.harness import Obligation, eq
from toqito.perms import permutation_operator, permute_systems, swap, swap_operator

META = {
    "id": "C01",
    "level": "other",
    "files": ["toqito/perms/permute_systems.py", "toqito/perms/swap.py", "toqito/perms/permutation_operator.py",
              "toqito/perms/swap_operator.py", "toqito/matrix_ops/vec.py"],
    "functions": ["toqito.perms.permute_systems", "toqito.perms.swap", "toqito.perms.permutation_operator",
                  "toqito.perms.swap_operator", "toqito.matrix_ops.vec"],
    "explanation": "Bounded symbolic execution of the real permute_systems/swap/permutation_operator/swap_operator on "
                   "object arrays whose entries are constants of an uninterpreted z3 sort (pure relabelling) or z3-real "
                   "complex scalars (operator / Kronecker obligations). For every enumerated configuration (number of "
                   "subsystems, local dimensions incl. separate row/column dims, permutation, flags, dim-argument form) "
                   "z3 decides `out[cell] != oracle[cell]` for all cells at once; unsat = holds for every entry value "
                   "and dtype. Oracle = independent multi-index map written in the harness.",
    "bounds": {
        "quick": "matrices: n in {2,3} subsystems, local dims in {1,2,3} (n=3 rectangular: {1,2}), row/col totals in 2..18 "
                 "(rectangular n=3: <=8), all permutations, both flags, dim as flat list / 2-row list / ndarray; vectors 1-D and column: "
                 "same dims; omitted dim: n in {2,3,4}, d in 2..6 (N<=1296) vectors, d^n<=36 matrices; operators: all perms of "
                 "n<=3, dims<=3, dense+sparse; Kronecker form: n<=3, factor dims<=2x3",
        "thorough": "matrices: n<=4, local dims<=4, totals<=64 (square) / <=36 (rectangular); vectors N<=4096; "
                    "omitted dim up to d<=7,n<=4 (N<=2401)",
    },
    "trusted_base": ["numpy reshape/transpose/fancy-indexing on object arrays behaves as on numeric arrays (validated per "
                     "obligation by running the same harness on rational constants vs plain numpy)", "z3 5.1.0"],
    "outside_claim": ["scipy-sparse inputs with symbolic entries (sparse branch exercised on the concrete identity only)",
                      "subsystem counts / dimensions above the bound", "2-D row vectors (1,N) (not in the property's quantifier)"],
    "assumptions": [],
}


# ---- oracle: independent index map ---------------------------------------------------------------
def perm_index(perm, dims):
    """flat output index -> flat input index, for out subsystem k = in subsystem perm[k]"""
    n = len(perm)
    dims = [int(d) for d in dims]
    out_dims = [dims[p] for p in perm]
    res = []
    for out_multi in itertools.product(*[range(d) for d in out_dims]):
        j = [0] * n
        for k in range(n):
            j[perm[k]] = out_multi[k]
        flat = 0
        for jj, d in zip(j, dims):
            flat = flat * d + jj
        res.append(flat)
    return res


def inverse(perm):
    q = [0] * len(perm)
    for k, p in enumerate(perm):
        q[p] = k
    return q


def oracle_matrix(X, perm, dims_r, dims_c, row_only, inv):
    p = inverse(perm) if inv else list(perm)
    X = np.asarray(X)
    ri = perm_index(p, dims_r)
    out = np.empty(X.shape, dtype=X.dtype)
    ci = perm_index(p, dims_c) if not row_only else list(range(X.shape[1]))
    for a, r in enumerate(ri):
        for b, c in enumerate(ci):
            out[a, b] = X[r, c]
    return out


def oracle_vector(v, perm, dims, inv):
    p = inverse(perm) if inv else list(perm)
    v = np.asarray(v)
    flat = v.reshape(-1)
    idx = perm_index(p, dims)
    out = np.empty(len(idx), dtype=v.dtype)
    for a, r in enumerate(idx):
        out[a] = flat[r]
    return out


def dim_arg(form, dr, dc):
    if form == "flat":
        return list(dr)
    if form == "2row":
        return [list(dr), list(dc)]
    if form == "array":
        return np.array([list(dr), list(dc)])
    if form == "array1":
        return np.array(list(dr))
    raise ValueError(form)


def prod(x):
    r = 1
    for v in x:
        r *= int(v)
    return r


# ---- obligations ---------------------------------------------------------------------------------
def ob_matrix(dr, dc, perm, row_only, inv, form, kind="e"):
    cfg = {"dims_r": list(dr), "dims_c": list(dc), "perm": list(perm), "row_only": row_only, "inv_perm": inv, "dim_form": form}

    def build(b):
        return {"X": b.array("X", (prod(dr), prod(dc)), kind)}

    def call(i):
        return permute_systems(i["X"], list(perm), dim_arg(form, dr, dc), row_only, inv)

    def oracle(i):
        return oracle_matrix(i["X"], perm, dr, dc, row_only, inv)
    return Obligation("permute.matrix", cfg, build, call, oracle)


def ob_vector(dims, perm, inv, column, form="flat"):
    cfg = {"dims": list(dims), "perm": list(perm), "inv_perm": inv, "column": column, "dim_form": form}
    n = prod(dims)

    def build(b):
        return {"v": b.array("v", (n, 1) if column else (n,), "e")}

    def call(i):
        return permute_systems(i["v"], list(perm), dim_arg(form, dims, dims), False, inv)

    def oracle(i):
        return oracle_vector(i["v"], perm, dims, inv)

    def post(res, exp, i):
        # the permuted amplitudes, in order (the container is 1-D for both input forms in the current code)
        return eq(np.asarray(res, dtype=object).reshape(-1), exp)
    return Obligation("permute.vector", cfg, build, call, oracle, post)


def ob_nodim(n, d, perm, inv, what):
    cfg = {"n": n, "d": d, "perm": list(perm), "inv_perm": inv, "input": what}
    N = d ** n

    def build(b):
        return {"X": b.array("X", {"vec": (N,), "col": (N, 1), "mat": (N, N)}[what], "e")}

    def call(i):
        return permute_systems(i["X"], list(perm), None, False, inv)

    def oracle(i):
        if what == "mat":
            return oracle_matrix(i["X"], perm, [d] * n, [d] * n, False, inv)
        return oracle_vector(i["X"], perm, [d] * n, inv)

    def post(res, exp, i):
        if what == "mat":
            return eq(res, exp)
        return eq(np.asarray(res, dtype=object).reshape(-1), exp)
    return Obligation("permute.dim_omitted", cfg, build, call, oracle, post)


def ob_inverse_undo(dr, dc, perm, row_only):
    cfg = {"dims_r": list(dr), "dims_c": list(dc), "perm": list(perm), "row_only": row_only}

    def build(b):
        return {"X": b.array("X", (prod(dr), prod(dc)), "e")}

    def call(i):
        y = permute_systems(i["X"], list(perm), [list(dr), list(dc)], row_only, False)
        pr = [dr[p] for p in perm]
        pc = [dc[p] for p in perm] if not row_only else list(dc)
        return permute_systems(y, list(perm), [pr, pc], row_only, True)

    def oracle(i):
        return i["X"]
    return Obligation("permute.inverse_undoes_forward", cfg, build, call, oracle)


def ob_row_only_operator(dims, perm, inv, cols):
    cfg = {"dims": list(dims), "perm": list(perm), "inv_perm": inv, "cols": cols}

    def build(b):
        return {"X": b.array("X", (prod(dims), cols), "c")}

    def call(i):
        return permute_systems(i["X"], list(perm), [list(dims), [cols] + [1] * (len(dims) - 1)], True, inv)

    def oracle(i):
        P = permutation_operator(list(dims), list(perm), inv, False)
        return P @ i["X"]
    return Obligation("permute.row_only_is_left_multiplication", cfg, build, call, oracle)


def ob_swap(dr, dc, sys, form, row_only=False, sys_form="list"):
    cfg = {"dims_r": list(dr), "dims_c": list(dc), "sys": list(sys), "dim_form": form, "row_only": row_only}
    if sys_form != "list":
        cfg["sys_form"] = sys_form
    n = len(dr)

    def build(b):
        return {"X": b.array("X", (prod(dr), prod(dc)), "e")}

    def call(i):
        sy = list(sys) if sys_form == "list" else np.array(sys)      # an integer ndarray must come back unchanged (argument guard)
        if form == "omitted":
            return swap(i["X"], sy, None, row_only)
        if form == "int":
            return swap(i["X"], sy, int(dr[0]), row_only)
        return swap(i["X"], sy, dim_arg(form, dr, dc), row_only)

    def oracle(i):
        perm = list(range(n))
        a, c = sys[0] - 1, sys[1] - 1
        perm[a], perm[c] = perm[c], perm[a]
        return oracle_matrix(i["X"], perm, dr, dc, row_only, False)
    return Obligation("swap.is_transposition", cfg, build, call, oracle)


def ob_swap_vector(dims, sys, column, dim_form="list"):
    cfg = {"dims": list(dims), "sys": list(sys), "column": column}
    if dim_form != "list":
        cfg["dim_form"] = dim_form
    n = len(dims)
    N = prod(dims)

    def build(b):
        return {"v": b.array("v", (N, 1) if column else (N,), "e")}

    def call(i):
        return swap(i["v"], list(sys), int(dims[0]) if dim_form == "int" else list(dims))

    def oracle(i):
        perm = list(range(n))
        a, c = sys[0] - 1, sys[1] - 1
        perm[a], perm[c] = perm[c], perm[a]
        return oracle_vector(i["v"], perm, dims, False)

    def post(res, exp, i):
        return eq(np.asarray(res, dtype=object).reshape(-1), exp)
    return Obligation("swap.vector_is_transposition", cfg, build, call, oracle, post)


def ob_permop(dims, perm, inv, sparse, dim_scalar=False):
    cfg = {"dims": list(dims), "perm": list(perm), "inv_perm": inv, "sparse": sparse, "dim_scalar": dim_scalar}
    N = prod(dims)

    def build(b):
        return {"v": b.array("v", (N,), "c")}

    def call(i):
        P = permutation_operator(int(dims[0]) if dim_scalar else list(dims), list(perm), inv, sparse)
        if sparse:
            P = P.toarray() if hasattr(P, "toarray") else np.asarray(P)
        P = np.asarray(P)
        v = i["v"]
        Pv = P @ v
        return [Pv, P.T @ Pv, np.asarray(P.shape), np.asarray(sorted(set(np.asarray(P, dtype=float).ravel().tolist())))]

    def oracle(i):
        return [oracle_vector(i["v"], perm, dims, inv), i["v"], np.asarray((N, N)), np.asarray([0.0, 1.0] if N > 1 else [1.0])]
    return Obligation("permutation_operator.implements_action_and_is_unitary", cfg, build, call, oracle, neg_control=True)


def ob_swapop(dims, sparse, scalar):
    cfg = {"dims": list(dims), "sparse": sparse, "dim_scalar": scalar}
    N = prod(dims)

    def build(b):
        return {"v": b.array("v", (N,), "c")}

    def call(i):
        P = swap_operator(int(dims[0]) if scalar else list(dims), sparse)
        if hasattr(P, "toarray"):
            P = P.toarray()
        P = np.asarray(P)
        Pv = P @ i["v"]
        return [Pv, P.T @ Pv]

    def oracle(i):
        return [oracle_vector(i["v"], [1, 0], dims, False), i["v"]]
    return Obligation("swap_operator.implements_swap_and_is_unitary", cfg, build, call, oracle)


def ob_kron(shapes, perm, inv):
    """A_0 (x) ... (x) A_{n-1}  ->  A_{p[0]} (x) ... (x) A_{p[n-1]} with symbolic factors"""
    cfg = {"factor_shapes": [list(s) for s in shapes], "perm": list(perm), "inv_perm": inv}
    n = len(shapes)

    def build(b):
        return {"A": [b.array(f"A{k}", tuple(shapes[k]), "c") for k in range(n)]}

    def kron_all(mats):
        r = mats[0]
        for m in mats[1:]:
            r = np.kron(r, m)
        return r

    def call(i):
        X = kron_all(i["A"])
        dr = [s[0] for s in shapes]
        dc = [s[1] for s in shapes]
        return permute_systems(X, list(perm), [dr, dc], False, inv)

    def oracle(i):
        p = inverse(perm) if inv else list(perm)
        return kron_all([i["A"][k] for k in p])
    return Obligation("permute.kronecker_factors_are_relabelled", cfg, build, call, oracle)


def all_dims(n, vals, lo, hi):
    for d in itertools.product(vals, repeat=n):
        if lo <= prod(d) <= hi:
            yield d

from props.common import Task                                                               # noqa: E402


class SparseRelabelling(Task):
    """permute_systems / swap on a scipy-sparse operator whose non-zero entries carry pairwise distinct labels: the result must be
    the oracle's index map applied to the labels (a relabelling is determined by where distinct labels go).  Concrete labels, every
    permutation / flag of the bound, the three storage formats; sparse entries cannot be solver terms (scipy realises them), so
    this is the sparse counterpart of the symbolic dense obligations (round-6 seed: column selection applied with the inverse map
    for sparse inputs only)."""
    engine = "concrete-labels (real function on scipy-sparse input vs the oracle index map)"

    def __init__(self, rdims, cdims, perm, inv, row_only, fmt, via="permute_systems"):
        super().__init__("permute.sparse_operator_is_relabelled_like_a_dense_one", {"row_dims": list(rdims), "col_dims": list(cdims), "perm": list(perm), "inv_perm": inv,
                                                                                     "row_only": row_only, "format": fmt, "via": via})
        self.a = (list(rdims), list(cdims), list(perm), inv, row_only, fmt, via)

    def _go(self):
        import scipy.sparse as sp
        rd, cd, perm, inv, row_only, fmt, via = self.a
        R, C = int(np.prod(rd)), int(np.prod(cd))
        X = (np.arange(R * C, dtype=float).reshape(R, C) + 1.0)
        X[::2, 1::3] = 0.0                                                   # genuinely sparse pattern, labels stay distinct
        S = getattr(sp, fmt + "_matrix")(X)
        dim = list(rd) if rd == cd else [list(rd), list(cd)]
        if via == "swap":
            i, j = [k for k in range(len(perm)) if perm[k] != k]
            got = swap(S, [i + 1, j + 1], dim)
        else:
            got = permute_systems(S, list(perm), dim, row_only, inv)
        got = got.toarray() if sp.issparse(got) else np.asarray(got)
        ri = perm_index(inv_of(perm) if inv else list(perm), rd) if True else None
        want = X[ri, :]
        if not row_only:
            ci = perm_index(inv_of(perm) if inv else list(perm), cd)
            want = want[:, ci]
        return got, want

    def _run(self, rec, seed):
        try:
            got, want = self._go()
        except Exception as e:  # noqa: BLE001
            rec["status"] = "violation"
            rec["violation"] = {"source": "the real function raises on a sparse operator (reproduced)", "inputs": self.cfg, "exception": f"{type(e).__name__}: {str(e)[:300]}"}
            return
        rec["reachable"] = True
        if got.shape == want.shape and np.array_equal(got, want):
            rec["status"] = "discharged"
        else:
            rec["status"] = "violation"
            rec["violation"] = {"source": "sparse operator relabelled differently from the definition (reproduced on the real function)", "inputs": self.cfg,
                                "actual": got.tolist(), "expected": want.tolist()}

    def replay(self, rp):
        try:
            got, want = self._go()
        except Exception as e:  # noqa: BLE001
            print({"exception": str(e)})
            return False
        return got.shape == want.shape and np.array_equal(got, want)


def inv_of(perm):
    out = [0] * len(perm)
    for i, p_ in enumerate(perm):
        out[p_] = i
    return out


def sparse_obligations(tier):
    obs = []
    shapes = [((2, 3), (2, 3)), ((2, 2, 3), (2, 2, 3)), ((2, 3, 2), (3, 2, 2)), ((3, 2), (2, 2))]
    if tier == "thorough":
        shapes += [((2, 3, 4), (2, 3, 4)), ((2, 2, 2, 3), (2, 2, 2, 3))]
    k = 0
    for rd, cd in shapes:
        for perm in itertools.permutations(range(len(rd))):
            if list(perm) == sorted(perm):
                continue
            for inv in (False, True):
                for row_only in (False, True):
                    fmt = ("csr", "csc", "coo")[k % 3]
                    k += 1
                    obs.append(SparseRelabelling(rd, cd, perm, inv, row_only, fmt))
            if sum(1 for a, b_ in enumerate(perm) if a != b_) == 2 and rd == cd:
                obs.append(SparseRelabelling(rd, cd, perm, False, False, "csr", via="swap"))
    return obs


def obligations(tier):
    T = tier == "thorough"
    obs = []
    flags = [(False, False), (False, True), (True, False), (True, True)]
    # (a) square, flat dims, n = 2, 3 (4)
    for n in ([2, 3, 4] if T else [2, 3]):
        vals = [1, 2, 3, 4] if (T and n <= 3) else ([1, 2, 3] if n <= 3 else [1, 2, 3])
        hi = 64 if T else 18
        if n == 4:
            hi = 36
        for d in all_dims(n, vals, 2, hi):
            for perm in itertools.permutations(range(n)):
                for ro, inv in flags:
                    for form in (["flat", "array1"] if not ro and not inv else ["flat"]):
                        obs.append(ob_matrix(d, d, perm, ro, inv, form))
    # (a) rectangular, separate row / column dims
    for n in [2, 3]:
        vals = ([1, 2, 3, 4] if n == 2 else [1, 2, 3]) if T else ([1, 2, 3] if n == 2 else [1, 2])
        hi = 36 if T else (18 if n == 2 else 8)
        for dr in all_dims(n, vals, 2, hi):
            for dc in all_dims(n, vals, 2, hi):
                if dr == dc:
                    continue
                for perm in itertools.permutations(range(n)):
                    for ro, inv in flags:
                        obs.append(ob_matrix(dr, dc, perm, ro, inv, "2row" if (ro or inv) else "array"))
    # (b) vectors
    for n in ([2, 3, 4] if T else [2, 3]):
        vals = [1, 2, 3, 4] if T else [1, 2, 3]
        for d in all_dims(n, vals, 2, 256 if T else 27):
            for perm in itertools.permutations(range(n)):
                for inv in (False, True):
                    for col in (False, True):
                        obs.append(ob_vector(d, perm, inv, col, "flat" if not col else "array1"))
    # (h) omitted dim
    for n in [2, 3, 4]:
        for d in range(2, 8 if T else 7):
            N = d ** n
            for perm in itertools.permutations(range(n)):
                if perm == tuple(range(n)) and n > 2:
                    continue
                if n == 4 and not T and perm not in [(1, 2, 3, 0), (3, 0, 1, 2), (1, 0, 3, 2), (2, 3, 0, 1), (0, 2, 1, 3)]:
                    continue
                for inv in (False, True):
                    if N <= (2401 if T else 1296):
                        obs.append(ob_nodim(n, d, perm, inv, "vec"))
                    if N <= (64 if T else 36):
                        obs.append(ob_nodim(n, d, perm, inv, "mat"))
                        obs.append(ob_nodim(n, d, perm, inv, "col"))
    # (c) inverse undoes forward (given the permuted dims)
    for n in ([2, 3, 4] if T else [2, 3]):
        vals = [1, 2, 3] if n <= 3 else [1, 2]
        for dr in all_dims(n, vals, 2, 18 if n <= 3 else 16):
            dc = tuple(reversed(dr))
            for perm in itertools.permutations(range(n)):
                for ro in (False, True):
                    obs.append(ob_inverse_undo(dr, dc if prod(dc) >= 2 else dr, perm, ro))
    # (d) row_only == left multiplication by the permutation operator
    for n in [2, 3]:
        for d in all_dims(n, [1, 2, 3], 2, 18 if T else 12):
            for perm in itertools.permutations(range(n)):
                for inv in (False, True):
                    obs.append(ob_row_only_operator(d, perm, inv, 2))
    # (d') many subsystems (9..12), all but two or three of dimension 1
    import random as _rnd
    rr = _rnd.Random(12)
    for dims_ in ([1, 2, 1, 1, 1, 1, 1, 1, 3], [2, 1, 1, 1, 1, 1, 1, 1, 3, 1], [1, 3, 1, 1, 2, 1, 1, 1, 1, 1, 1, 2]):
        for _ in range(4 if not T else 12):
            perm = list(range(len(dims_)))
            rr.shuffle(perm)
            for inv in (False, True):
                obs.append(ob_matrix(tuple(dims_), tuple(dims_), tuple(perm), False, inv, "flat"))
                obs.append(ob_vector(tuple(dims_), tuple(perm), inv, False))
    # (e) swap
    for n in [2, 3] + ([4] if T else []):
        vals = [1, 2, 3] if n < 4 else [1, 2]
        for dr in all_dims(n, vals, 2, 18):
            for sys in itertools.permutations(range(1, n + 1), 2):
                obs.append(ob_swap(dr, dr, sys, "flat"))
                if n == 3 or T:
                    obs.append(ob_swap(dr, dr, sys, "flat", sys_form="array"))
                dc = tuple(reversed(dr))
                if dc != dr:
                    obs.append(ob_swap(dr, dc, sys, "2row"))
                    obs.append(ob_swap(dr, dc, sys, "2row", row_only=True))
                for col in (False, True):
                    obs.append(ob_swap_vector(dr, sys, col))
    for d in [2, 3, 4] + ([5, 6] if T else []):
        obs.append(ob_swap((d, d), (d, d), (1, 2), "omitted"))
        obs.append(ob_swap((d, d), (d, d), (2, 1), "omitted"))
        obs.append(ob_swap((d, d), (d, d), (1, 2), "int"))
    for d, e in [(2, 3), (3, 2), (2, 4), (4, 2)] + ([(3, 4), (2, 5)] if T else []):
        obs.append(ob_swap((d, e), (d, e), (1, 2), "int"))
        for col in (False, True):       # vectors with the dimension of the first subsystem given as a scalar
            obs.append(ob_swap_vector((d, e), (1, 2), col, "int"))
    obs.append(ob_swap_vector((2, 2), (1, 2), False, "int"))
    # (f) operators
    for n in [2, 3] + ([4] if T else []):
        vals = [1, 2, 3] if n < 4 else [1, 2]
        for d in all_dims(n, vals, 2, 27):
            for perm in itertools.permutations(range(n)):
                for inv in (False, True):
                    for sp in (False, True):
                        obs.append(ob_permop(d, perm, inv, sp))
    for d in [2, 3]:
        for perm in itertools.permutations(range(3)):
            obs.append(ob_permop((d, d, d), perm, False, False, dim_scalar=True))
    for d in [(2, 2), (2, 3), (3, 2), (3, 3), (1, 3), (4, 2)] + ([(4, 4), (5, 3), (2, 7)] if T else []):
        for sp in (False, True):
            obs.append(ob_swapop(d, sp, False))
            if d[0] == d[1]:
                obs.append(ob_swapop(d, sp, True))
    # (g) Kronecker form
    shapes2 = [((2, 2), (2, 3)), ((2, 3), (3, 2)), ((1, 2), (2, 2)), ((3, 1), (2, 2))]
    for sh in shapes2:
        for perm in itertools.permutations(range(2)):
            for inv in (False, True):
                obs.append(ob_kron(sh, perm, inv))
    shapes3 = [((2, 2), (2, 1), (1, 2)), ((2, 1), (1, 3), (2, 2)), ((2, 2), (2, 2), (2, 2))] if not T else \
        [((2, 2), (2, 1), (1, 2)), ((2, 1), (1, 3), (2, 2)), ((2, 2), (2, 2), (2, 2)), ((2, 3), (3, 2), (2, 2)), ((3, 2), (2, 2), (2, 3))]
    for sh in shapes3:
        for perm in itertools.permutations(range(3)):
            for inv in (False, True):
                obs.append(ob_kron(sh, perm, inv))
    obs += sparse_obligations(tier)
    return obs
