"""helpers shared by the property modules"""
from __future__ import annotations

import time
import traceback
from fractions import Fraction

import numpy as np
import z3

from sdpcap.affine import cvxpy_affine, real_basis, to_frac
from symnp.array import SymArray, symbolic_mode
from symnp.core import Ctx, Poly, Sym, SymBool, SymError, And, as_z3, lift, model_values, use_ctx
from symnp.harness import Builder, eq, jsonable, to_numeric


def prod(x):
    r = 1
    for v in x:
        r *= int(v)
    return r


def flat_index(multi, dims):
    f = 0
    for j, d in zip(multi, dims):
        f = f * int(d) + int(j)
    return f


def dagger(a):
    return np.asarray(a).conj().T


def kron_all(mats):
    r = mats[0]
    for m in mats[1:]:
        r = np.kron(r, m)
    return r


class Task:
    """an obligation that is not a plain E1 Obligation; subclasses implement _run(rec, seed)"""
    engine = "E1-symnp"
    weight = 1
    wall_cap_s = 600

    def __init__(self, name, cfg):
        self.name, self.cfg = name, cfg

    def run(self, seed):
        t0 = time.time()
        rec = {"name": self.name, "cfg": self.cfg, "status": "inconclusive", "paths": 0, "queries": 0, "solver_s": 0.0,
               "notes": [], "stubs": [], "neg_control": None, "reachable": None, "tv": None, "engine": self.engine}
        from symnp.harness import _ARG_MUTATIONS, task_mutation_verdict
        del _ARG_MUTATIONS[:]
        try:
            self._run(rec, seed)
        except SymError as e:
            rec["status"] = "inconclusive"
            rec["notes"].append(f"SymError: {e}")
        except Exception as e:  # noqa: BLE001
            rec["status"] = "error"
            rec["notes"].append(f"harness exception {type(e).__name__}: {e}")
            rec["trace"] = traceback.format_exc()[-2500:]
        task_mutation_verdict(rec)
        rec["wall_s"] = round(time.time() - t0, 3)
        return rec


def sym_from_basis(b, shape, structure, prefix="x"):
    """symbolic matrix = sum coord_k * basis_k ; returns (SymArray, [coord Sym], basis list)"""
    basis = real_basis(shape, structure)
    coords = [b.real(f"{prefix}_{nm[0]}_{nm[1]}_{nm[2]}") for nm, _ in basis]
    shp = shape if len(shape) == 2 else (shape[0], 1)
    out = np.empty(shp, dtype=object)
    for idx in np.ndindex(*shp):
        out[idx] = lift(0)
    for c, (nm, e) in zip(coords, basis):
        for idx in np.ndindex(*shp):
            v = e[idx]
            if v != 0:
                out[idx] = out[idx] + c * complex(v) if np.iscomplexobj(e) else out[idx] + c * float(v)
    return out.view(SymArray), coords, basis


def affine_to_sym(const, terms, coords_by_var, tol=1e-9):
    """exact symbolic value of an extracted affine map: const + sum coord*coeff (coefficients lifted to rationals)"""
    shape = const.shape
    out = np.empty(shape, dtype=object)
    for idx in np.ndindex(*shape):
        out[idx] = Sym(Poly.const(to_frac(const[idx].real, tol)), Poly.const(to_frac(const[idx].imag, tol)))
    counters = {}
    for vi, nm, coeff in terms:
        k = counters.get(vi, 0)
        counters[vi] = k + 1
        c = coords_by_var[vi][k]
        nz = np.argwhere(np.abs(coeff) > 1e-13)
        for idx in map(tuple, nz):
            v = coeff[idx]
            out[idx] = out[idx] + c * Sym(Poly.const(to_frac(v.real, tol)), Poly.const(to_frac(v.imag, tol)))
    return out.view(SymArray)


class CvxpyPathTask(Task):
    """f(cvxpy Variable) must be the same linear map as f(ndarray), for all variable values."""
    engine = "E1-symnp + E2-affine-extraction"

    def __init__(self, name, cfg, f, rows, cols, structure):
        super().__init__(name, cfg)
        self.f, self.rows, self.cols, self.structure = f, rows, cols, structure

    def _run(self, rec, seed):
        import cvxpy
        st = self.structure
        kw = {"hermitian": {"hermitian": True}, "symmetric": {"symmetric": True}, "complex": {"complex": True}, "real": {}}[st]
        X = cvxpy.Variable((self.rows, self.cols), **kw)
        try:
            expr = self.f(X)          # the real function on a cvxpy Variable
        except Exception as e:        # noqa: BLE001 - the variable path refuses what the numeric path accepts?
            xnum = self._generic_point(seed)
            rec["disagreements_checked"] = 1
            rec["status"] = "violation"
            try:
                want = np.array(self.f(np.array(xnum)))   # numeric path on a matrix of the same shape and structure
            except Exception as e2:   # noqa: BLE001 - the configuration is valid by construction: raising is itself the failure
                rec["violation"] = {"source": "both the variable path and the numeric path raise on a valid configuration", "inputs": {"X": jsonable(xnum)},
                                    "actual": f"{type(e).__name__}: {e}"[:300], "expected": "a value", "numeric_path": f"{type(e2).__name__}: {e2}"[:300]}
                return
            rec["violation"] = {"source": "variable path raises", "inputs": {"X": jsonable(xnum)},
                                "actual": f"{type(e).__name__}: {e}"[:300], "expected": jsonable(want)}
            return
        const, terms = cvxpy_affine(expr, [X])
        rec["programs"] = 1
        ctx = Ctx("lra", self.name)
        with use_ctx(ctx), symbolic_mode():
            b = Builder(ctx)
            Xs, coords, basis = sym_from_basis(b, (self.rows, self.cols), st)
            lhs = affine_to_sym(const, terms, {0: coords})
            from symnp.core import explore
            paths, complete = explore(ctx, lambda: self.f(Xs), max_paths=4)
            p = paths[0]
            if p.exc is not None:
                sym_exc = p.exc
                break_out = True
            else:
                sym_exc, break_out = None, False
            rhs = p.result if not break_out else None
            if break_out:
                cond = None
            else:
                cond = eq(np.asarray(lhs, dtype=object), np.asarray(rhs, dtype=object))
        if break_out:
            # the real function raised on the symbolic ndarray; does it raise on a plain ndarray of the same shape too, while the
            # Variable path returned an expression?  Then the two paths disagree on a valid input (reproduced).
            xnum = self._generic_point(seed)
            try:
                self.f(np.array(xnum))
            except Exception as e2:  # noqa: BLE001
                rec["disagreements_checked"] = 1
                rec["status"] = "violation"
                rec["violation"] = {"source": "numeric path raises where the variable path returns an expression", "inputs": {"X": jsonable(xnum)},
                                    "actual": f"{type(e2).__name__}: {e2}"[:300], "expected": "value of the variable path"}
                return
            raise sym_exc
        with use_ctx(ctx), symbolic_mode():
            cond = SymBool(cond) if not isinstance(cond, SymBool) else cond
            r, model = ctx.check(p.pc + [as_z3(~cond)])
            rec["paths"] = len(paths)
            # negative control: transposed extraction must be refuted
            bad = eq(np.asarray(lhs, dtype=object).T, np.asarray(rhs, dtype=object)) if lhs.shape[0] == lhs.shape[1] and lhs.shape[0] > 1 else None
            if bad is not None and not isinstance(bad, bool):
                r2, _ = ctx.check(p.pc + [as_z3(~bad)])
                rec["neg_control"] = (r2 == "sat")
            r3, _ = ctx.check(p.pc)
            rec["reachable"] = (r3 == "sat")
            rec["queries"], rec["solver_s"], rec["stubs"] = ctx.queries, round(ctx.solver_s, 4), sorted(ctx.stubs)
            rec["atoms"] = len(ctx.atoms)
            vals = model_values(ctx, model) if r == "sat" else None
            xnum = to_numeric(Xs, vals, {}) if vals is not None else None
        if r == "unsat" and complete:
            rec["status"] = "discharged"
        elif r == "sat":
            X.value = xnum
            got = np.array(expr.value)
            want = np.array(self.f(np.array(xnum)))
            rec["disagreements_checked"] = 1
            if got.shape != want.shape or not np.allclose(got, want, atol=1e-7):
                rec["status"] = "violation"
                rec["violation"] = {"source": "solver model", "inputs": {"X": jsonable(xnum)}, "actual": jsonable(got), "expected": jsonable(want)}
            else:
                rec["status"] = "inconclusive"
                rec["notes"].append("candidate counterexample did not reproduce on the real code")
        else:
            rec["notes"].append(f"solver: {r}")

    def _generic_point(self, seed):
        rng = np.random.default_rng(seed)
        a = rng.integers(-8, 9, size=(self.rows, self.cols)) / 4.0
        if self.structure in ("hermitian", "complex"):
            a = a + 1j * rng.integers(-8, 9, size=(self.rows, self.cols)) / 4.0
        if self.structure == "hermitian":
            a = (a + a.conj().T) / 2
        if self.structure == "symmetric":
            a = (a + a.T) / 2
        return a

    def replay(self, rp):
        import cvxpy
        from symnp.harness import from_jsonable
        st = self.structure
        kw = {"hermitian": {"hermitian": True}, "symmetric": {"symmetric": True}, "complex": {"complex": True}, "real": {}}[st]
        X = cvxpy.Variable((self.rows, self.cols), **kw)
        try:
            expr = self.f(X)
        except Exception:             # noqa: BLE001
            return False
        xnum = np.array(from_jsonable(rp["violation"]["inputs"]["X"]))
        X.value = xnum
        got = np.array(expr.value)
        try:
            want = np.array(self.f(xnum))
        except Exception:             # noqa: BLE001 - the numeric path raises where the variable path returns a value
            return False
        return got.shape == want.shape and bool(np.allclose(got, want, atol=1e-7))


class ReturnedCertificateTask(Task):
    """(value, measurements) as RETURNED by the real function with the real solver on one instance: the operators must form a
    POVM (Hermitian, PSD, summing to the identity) and sum_i p_i Tr(rho_i M_i) must equal the returned value.  A statement
    about the solver's output on a concrete instance - no SMT content; it is the only way the clause "the returned measurement
    attains the value" can be observed at all (the operators do not exist before the solve).  A solver breakdown
    (ArithmeticError / ZeroDivisionError / SolutionFailure inside the conic solver) is inconclusive, not a violation."""
    engine = "certificate check of the real solver's output (concrete instance; no SMT content)"
    weight = 15

    def __init__(self, name, cfg, call, rhos, probs, tol=2e-5):
        super().__init__(name, cfg)
        self.call, self.rhos, self.probs, self.tol = call, [np.asarray(r, dtype=complex) for r in rhos], list(probs), tol

    @staticmethod
    def _arr(M):
        v = getattr(M, "value", M)
        return np.array(v, dtype=complex)

    def _verdict(self):
        val, Ms = self.call()
        Ms = [self._arr(M) for M in Ms]
        d = self.rhos[0].shape[0]
        detail = {"returned_value": float(np.real(val))}
        if len(Ms) != len(self.rhos) or any(M.shape != (d, d) for M in Ms):
            return False, dict(detail, problem=f"{len(Ms)} operators of shapes {[M.shape for M in Ms][:4]} for {len(self.rhos)} states of dimension {d}")
        herm = max(float(np.max(np.abs(M - M.conj().T))) for M in Ms)
        mineig = min(float(np.linalg.eigvalsh((M + M.conj().T) / 2).min()) for M in Ms)
        comp = float(np.max(np.abs(sum(Ms) - np.eye(d))))
        att = float(sum(p * np.trace(r @ M).real for p, r, M in zip(self.probs, self.rhos, Ms)))
        attc = float(sum(p * np.trace(r @ M.conj()).real for p, r, M in zip(self.probs, self.rhos, Ms)))
        detail.update({"max_non_hermiticity": herm, "min_eigenvalue": mineig, "completeness_defect": comp, "value_attained_by_returned_operators": att})
        if herm > 1e-6 or mineig < -1e-6 or comp > 1e-5:
            return False, dict(detail, problem="the returned operators are not a POVM")
        if abs(att - float(np.real(val))) > self.tol:
            return False, dict(detail, problem="the returned POVM does not attain the returned value",
                               conjugated_operators_attain_the_value=bool(abs(attc - float(np.real(val))) <= self.tol))
        return True, detail

    def _run(self, rec, seed):
        try:
            ok, detail = self._verdict()
        except (ArithmeticError, ZeroDivisionError) as e:
            rec["notes"].append(f"conic solver breakdown: {type(e).__name__}: {e}")
            return
        except Exception as e:  # noqa: BLE001
            if "SolutionFailure" in type(e).__name__ or "Solver" in type(e).__name__:
                rec["notes"].append(f"conic solver breakdown: {type(e).__name__}: {e}")
                return
            raise
        rec["paths"], rec["reachable"] = 1, True
        if ok:
            rec["status"] = "discharged"
        else:
            rec["status"] = "violation"
            rec["violation"] = {"source": "the real function's return value on a concrete instance (real solver)", "inputs": jsonable_cfg(self.cfg), **detail}

    def replay(self, rp):
        ok, detail = self._verdict()
        print(detail)
        return ok


def jsonable_cfg(cfg):
    import json
    return json.loads(json.dumps(cfg, default=str))


# ---- call history: what a function returned earlier must not influence what it returns later ------------------------------
def _scribble(x):
    """in-place modification of every array a caller could reach through a returned object"""
    import scipy.sparse as sp
    if isinstance(x, np.ndarray):
        if x.dtype.kind in "fc" and x.flags.writeable:
            x *= 1.25
            x += 0.5
        elif x.dtype.kind in "iub" and x.flags.writeable:
            x += 1
    elif sp.issparse(x):
        try:
            x.data *= 1.25
        except Exception:  # noqa: BLE001
            pass
    elif isinstance(x, (list, tuple)):
        for y in x:
            _scribble(y)
        if isinstance(x, list) and x:
            x.reverse()
    elif isinstance(x, dict):
        for y in x.values():
            _scribble(y)


def _same(a, b):
    import scipy.sparse as sp
    if sp.issparse(a) or sp.issparse(b):
        a = a.toarray() if sp.issparse(a) else a
        b = b.toarray() if sp.issparse(b) else b
    if isinstance(a, (list, tuple)):
        return isinstance(b, (list, tuple)) and len(a) == len(b) and all(_same(x, y) for x, y in zip(a, b))
    if isinstance(a, dict):
        return isinstance(b, dict) and a.keys() == b.keys() and all(_same(a[k], b[k]) for k in a)
    try:
        return np.shape(a) == np.shape(b) and bool(np.allclose(np.asarray(a, dtype=complex), np.asarray(b, dtype=complex), atol=1e-12))
    except Exception:  # noqa: BLE001
        return a == b


class HistoryTask(Task):
    """The same call, made again after the caller has modified in place what an earlier identical call returned, returns the same
    value (no state shared through caches or module-level buffers).  A concrete execution of the real function - the call history
    is the point, values are not quantified; the symbolic obligations of the same function decide what the value must be."""
    engine = "concrete-history (real function, call / modify the returned object in place / call again)"

    def __init__(self, name, cfg, fn):
        super().__init__(name, cfg)
        self.fn = fn

    def _go(self):
        import copy
        r1 = self.fn()
        want = copy.deepcopy(r1)
        _scribble(r1)
        r2 = self.fn()
        return want, r2

    def _run(self, rec, seed):
        try:
            want, got = self._go()
        except Exception as e:  # noqa: BLE001
            rec["status"] = "violation"
            rec["violation"] = {"source": "the repeated call raises (reproduced)", "inputs": jsonable(self.cfg), "exception": f"{type(e).__name__}: {str(e)[:300]}"}
            return
        rec["reachable"] = True
        if _same(want, got):
            rec["status"] = "discharged"
        else:
            rec["status"] = "violation"
            rec["violation"] = {"source": "a second identical call returns a different value after the caller modified the first result in place (reproduced on the real function)",
                                "inputs": jsonable(self.cfg), "actual": jsonable(got), "expected": jsonable(want)}

    def replay(self, rp):
        try:
            want, got = self._go()
        except Exception as e:  # noqa: BLE001
            print({"exception": f"{type(e).__name__}: {e}"})
            return False
        return _same(want, got)
