"""C09 Extended games, hedging, cloning: closed forms, ordering, strong duality."""
from __future__ import annotations

import itertools
import time

import numpy as np
import z3

from sdpcap.affine import snap
from sdpcap.capture import Captured, SymProgram, capture, capture_call, extract, extract_cvxpy, program_to_sym, sym_variables, t1_equiv
from sdpcap.embed import coord_values, linear_constraints, objective_term, prove, rv, z3_affine
from sdpcap.task import SdpTask, solve_reference
from symnp.core import Ctx, And, Or, SymBool, lift, use_ctx
from symnp.harness import Builder, Obligation, eq, jsonable
from props.c01 import perm_index
from props.c02 import oracle_ptrace
from props.c08 import perm_matrix
from props.c10 import tr
from props.common import Task, dagger
from props.npa_quantum import NpaQuantumTask
from toqito.nonlocal_games.extended_nonlocal_game import ExtendedNonlocalGame
from toqito.nonlocal_games.quantum_hedging import QuantumHedging
from toqito.state_opt import optimal_clone

ENG = "toqito.nonlocal_games.extended_nonlocal_game"

META = {
    "id": "C09",
    "level": "translation_validation",
    "files": ["toqito/nonlocal_games/extended_nonlocal_game.py", "toqito/nonlocal_games/quantum_hedging.py", "toqito/state_opt/optimal_clone.py",
              "toqito/helper/npa_hierarchy.py", "toqito/channels/partial_trace.py", "toqito/perms/permutation_operator.py"],
    "functions": ["ExtendedNonlocalGame.__init__ (reps)", "ExtendedNonlocalGame.unentangled_value", "ExtendedNonlocalGame.commuting_measurement_value_upper_bound",
                  "ExtendedNonlocalGame.nonsignaling_value", "QuantumHedging.max/min_prob_outcome_a_primal/dual", "toqito.state_opt.optimal_clone (primal_problem, dual_problem)",
                  "toqito.helper.npa_constraints (referee_dim)"],
    "explanation": "E2: every program the real code hands to cvxpy is captured, extracted as exact affine maps and compared in z3 for all decision-variable values. "
                   "unentangled_value (E1): with every entry of pi and of the referee operators symbolic and lambda_max the uninterpreted LAPACK kernel, the result is >= "
                   "lambda_max(Herm(sum pi(x,y) V(f(x),g(y)|x,y))) for ALL pairs of answer functions and equals one of them, game object unchanged; commuting-measurement bound: with answer functions as z3 symbols and a symbolic PSD "
                   "referee state rho, the point K(a,b|x,y) = [f(x)=a][g(y)=b] rho, R = rho (x) v v^T satisfies every constraint the real npa_constraints(referee_dim) "
                   "generates and the objective equals Tr(P_fg^dagger rho) => unentangled <= NPA_k; the same for GENUINELY QUANTUM strategies (one qubit per player, Gaussian-rational rank-one projectors "
                   "that do not commute between questions, SYMBOLIC shared state rho on A (x) B (x) R with 64 real coordinates): the moment point R[(r,i),(s,j)] = <r|Tr_AB((S_i^* S_j (x) 1) rho)|s> "
                   "satisfies every equality of the captured program for every rho and the objective is the winning probability computed with plain Kronecker products => every such "
                   "achieved quantum value <= NPA_k on two games with quantum advantage (real and complex referee projectors); the NPA constraints imply the non-signalling assemblage conditions and "
                   "nonsignaling_value's program is the textbook assemblage program => NPA_k <= NS. Hedging / cloning: primal and dual programs are T1-equal to the textbook "
                   "primal (Tr_sys X = I, X >= 0, <Q,X>) and dual (P (I (x) Y) P^dagger >= Q, Tr Y) with the oracle's own partial trace and permutation matrix, and the dual's "
                   "embedding is proved to be the adjoint of the primal's partial trace (T2: <Xi*(Y),X> = <Y,Xi(X)> for symbolic complex Hermitian X, Y); the cloning operator "
                   "Q = sum p_k |psi psi conj(psi)><...| is proved for symbolic states (E1). Product constructor as in C07.",
    "bounds": {"quick": "extended games of shape (ref 2; A,B,X,Y) = (2,2,2,2) and (2,2,1,2)/(2,2,2,1) with dyadic real and complex PSD predicates; NPA levels 1, '1+ab'; "
                        "hedging: real and complex dyadic Hermitian Q, repetitions 1 and 2; cloning: 2 and 4 dyadic states, repetition 1",
               "thorough": "adds NPA level 2 and shape (2,3,2,2) with referee dim 2; cloning with 2 repetitions (512 real coordinates per program)"},
    "trusted_base": ["cvxpy evaluates its own affine expressions (extraction, cross-checked)", "rho (x) v v^T with rho >= 0 is PSD; principal facts about PSD matrices used by the certificates",
                     "strong duality of the hedging / cloning programs (Slater) and the conic solver", "z3 5.1.0"],
    "outside_claim": ["closed forms 3/4, cos^2(pi/8) (numerical optima; used only as replay oracles)", "see-saw achievability (the value returned by quantum_value_lower_bound is the solver's; quantum strategy <= NPA bound is decided for the explicit qubit strategies with symbolic state only, not for every strategy of every dimension)",
                      "maximal >= minimal hedging probability and n-repetition consistency as statements about optima"],
    "assumptions": ["instance data dyadic"],
}


# ---- instances ---------------------------------------------------------------------------------------
def psd(a, b, c):
    """2x2 dyadic PSD matrix [[a, b],[conj b, c]]"""
    return np.array([[a, b], [np.conj(b), c]], dtype=complex)


def ext_game(shape, complex_=True, functional=False):
    A, B, X, Y = shape
    n = X * Y
    p = np.array([2.0 ** -(k + 1) for k in range(n)])
    p[-1] = 2.0 ** -(n - 1) if n > 1 else 1.0
    p = p.reshape(X, Y)
    V = np.zeros((2, 2, A, B, X, Y), dtype=complex)
    mats = [psd(1, 0, 0), psd(0.5, 0.25j if complex_ else 0.25, 0.5), psd(0.25, 0, 0.75), psd(0.5, -0.5 if not complex_ else -0.25 - 0.25j, 0.5),
            psd(0, 0, 1), psd(0.75, 0.125, 0.25)]
    c = 0
    for a, b, x, y in itertools.product(range(A), range(B), range(X), range(Y)):
        if functional:
            # only question-dependent answers win: a must equal x mod A and b must equal y mod B
            V[:, :, a, b, x, y] = mats[(x + y) % len(mats)] if (a == x % A and b == y % B) else 0
        else:
            V[:, :, a, b, x, y] = mats[c % len(mats)] * (1 if (a + b + x * y) % 2 == 0 else 0.5)
        c += 1
    return p, V


# ---- unentangled value ------------------------------------------------------------------------------
def ob_unentangled(shape, solver_max=False):
    """all entries of the distribution and of the referee operators are symbolic; lambda_max is the LAPACK kernel (uninterpreted).
    solver_max: the running `max(max_unent_val, unent_val)` of the code is a definitional max symbol instead of a forking
    comparison, so that games with 16 strategy pairs stay one path"""
    from symnp.array import SymArray
    from props.c07 import _LazyMax, _solver_max
    A, B, X, Y = shape
    cfg = {"referee_dim": 2, "shape_A_B_X_Y": list(shape)}
    if solver_max:
        cfg["running_max"] = "definitional max symbol"

    def build(b):
        return {"p": b.array("p", (X, Y), "r"), "V": b.array("V", (2, 2, A, B, X, Y), "c")}

    def call(i):
        g = ExtendedNonlocalGame(i["p"], i["V"])
        val = g.unentangled_value()
        if isinstance(val, _LazyMax):
            val = val.force()
        return [val, np.asarray(g.prob_mat), np.asarray(g.pred_mat)]

    def oracle(i):
        return None

    def values(i):
        p, V = np.asarray(i["p"]), np.asarray(i["V"])
        vals = []
        for f in itertools.product(range(A), repeat=X):
            for g in itertools.product(range(B), repeat=Y):
                P = None
                for x in range(X):
                    for y in range(Y):
                        t = p[x, y] * V[:, :, f[x], g[y], x, y]
                        P = t if P is None else P + t
                H = (P + dagger(P)) / 2
                w = np.linalg.eigvalsh(H.view(SymArray) if H.dtype == object else H)
                vals.append(np.max(w))
        return vals

    def post(res, exp, i):
        val, pm, vm = res
        vals = values(i)
        if isinstance(val, (float, np.floating)):
            return abs(val - max(vals)) < 1e-9 and np.array_equal(pm, i["p"]) and np.array_equal(vm, i["V"])
        return And(*[lift(val) >= v for v in vals]) & Or(*[lift(val).eq_solver(v) for v in vals]) & eq(pm, i["p"]) & eq(vm, i["V"])

    def witness():
        rng = np.random.default_rng(9)
        out = []
        for _ in range(3):
            p = rng.random((X, Y))
            V = rng.normal(size=(2, 2, A, B, X, Y)) + 1j * rng.normal(size=(2, 2, A, B, X, Y))
            out.append({"p": p / p.sum(), "V": V})
        V = np.zeros((2, 2, A, B, X, Y), dtype=complex)
        for x, y in itertools.product(range(X), range(Y)):
            V[0, 0, x % A, (y + 1) % B, x, y] = 1        # only question-dependent answers win
        out.append({"p": np.full((X, Y), 1.0 / (X * Y)), "V": V})
        # never-asked questions: an all-zero FIRST row / column of the prior in front of a non-zero one
        Vr = rng.normal(size=(2, 2, A, B, X, Y)) + 1j * rng.normal(size=(2, 2, A, B, X, Y))
        for x, y, a, b_ in itertools.product(range(X), range(Y), range(A), range(B)):
            Vr[:, :, a, b_, x, y] = Vr[:, :, a, b_, x, y] @ Vr[:, :, a, b_, x, y].conj().T
        if X >= 2:
            p = rng.random((X, Y))
            p[0, :] = 0
            out.append({"p": p / p.sum(), "V": Vr})
        if Y >= 2:
            p = rng.random((X, Y))
            p[:, 0] = 0
            out.append({"p": p / p.sum(), "V": Vr})
        if (A, B, X, Y) == (2, 2, 2, 2):
            # "answers must agree" game (invariant under exchanging the two ANSWERS) on the question pairs (0,1), (1,0) only,
            # scored so that the unique optimum is f = (1, 0), g = (0, 1): not invariant under exchanging the players
            V = np.zeros((2, 2, 2, 2, 2, 2), dtype=complex)
            for a in range(2):
                for x, y in ((0, 1), (1, 0)):
                    V[:, :, a, a, x, y] = 0.2 * np.eye(2)
            V[:, :, 1, 1, 0, 1] = np.eye(2)
            V[:, :, 0, 0, 1, 0] = np.eye(2)
            out.append({"p": np.array([[0, 0.5], [0.5, 0]]), "V": V})
        return out
    return Obligation("unentangled_value.is_max_over_all_answer_function_pairs_of_lambda_max", cfg, build, call, oracle, post=post, witness=witness,
                      objzeros=(ENG,), max_paths=1024, neg_control=False, tv=False, weight=40,
                      extra_patch={ENG: {"max": _solver_max}} if solver_max else None)


# ---- NPA with referee ----------------------------------------------------------------------------------
class ExtNpaTask(Task):
    engine = "E2-sdpcap (T3 certificates in z3)"
    weight = 30

    def __init__(self, shape, k, kind):
        name = {"unent_le_npa": "npa_referee.every_unentangled_strategy_is_feasible_with_its_own_value",
                "npa_implies_ns": "npa_referee.constraints_imply_nonsignalling_assemblage"}[kind]
        super().__init__(name, {"shape_A_B_X_Y": list(shape), "referee_dim": 2, "k": k})
        self.shape, self.k, self.kind = shape, k, kind

    def _run(self, rec, seed):
        from toqito.helper.npa_hierarchy import _gen_words
        A, B, X, Y = self.shape
        rd = 2
        p, V = ext_game(self.shape, True, False)
        cap = capture_call(lambda: ExtendedNonlocalGame(p, V).commuting_measurement_value_upper_bound(self.k))
        prog = extract(cap)
        rec["programs"] = 1
        Ks, Ri = {}, None
        for vi, v in enumerate(prog.vars):
            if v.name == "R":
                Ri = vi
            elif v.name.startswith("K(a, b | "):
                x, y = [int(t) for t in v.name[len("K(a, b | "):-1].split(",")]
                Ks[(x, y)] = vi
        words = _gen_words(self.k, A, X, B, Y)
        n = len(words)
        t0 = time.time()
        if self.kind == "unent_le_npa":
            f = [z3.Int(f"f{x}") for x in range(X)]
            g = [z3.Int(f"g{y}") for y in range(Y)]
            dom = [z3.And(v >= 0, v < A) for v in f] + [z3.And(v >= 0, v < B) for v in g]
            r00, r11, rre, rim = z3.Real("rho00"), z3.Real("rho11"), z3.Real("rho01re"), z3.Real("rho01im")
            dom += [r00 + r11 == 1]          # trace one; PSD-ness of rho is what makes the point's PSD constraints hold (by construction)
            rho_re = [[r00, rre], [rre, r11]]
            rho_im = [[z3.RealVal(0), rim], [-rim, z3.RealVal(0)]]

            def ind(c):
                return z3.If(c, z3.RealVal(1), z3.RealVal(0))

            def wv(word):
                conds = []
                for s in word:
                    if s.player == "Alice":
                        conds.append(f[s.question] == s.answer)
                    elif s.player == "Bob":
                        conds.append(g[s.question] == s.answer)
                return z3.And(*conds) if conds else z3.BoolVal(True)
            cv = [None] * len(prog.vars)
            # K(x,y) has block (a,b) = [f(x)=a][g(y)=b] * rho ; the variable is Hermitian of size (A*rd, B*rd)
            for (x, y), vi in Ks.items():
                N = A * rd
                re = [[None] * (B * rd) for _ in range(N)]
                im = [[None] * (B * rd) for _ in range(N)]
                for a, b_ in itertools.product(range(A), range(B)):
                    c = ind(z3.And(f[x] == a, g[y] == b_))
                    for r, s in itertools.product(range(rd), range(rd)):
                        re[a * rd + r][b_ * rd + s] = c * rho_re[r][s]
                        im[a * rd + r][b_ * rd + s] = c * rho_im[r][s]
                cv[vi] = coord_values(prog.vars[vi], re, im)
            # R: index = r*dim + i  (sub_mat = R[i::dim, j::dim]) => R[(r,i),(s,j)] = rho[r,s] * v_i v_j
            Rre = [[None] * (rd * n) for _ in range(rd * n)]
            Rim = [[None] * (rd * n) for _ in range(rd * n)]
            for r, s in itertools.product(range(rd), range(rd)):
                for i, j in itertools.product(range(n), range(n)):
                    c = ind(z3.And(wv(words[i]), wv(words[j])))
                    Rre[r * n + i][s * n + j] = c * rho_re[r][s]
                    Rim[r * n + i][s * n + j] = c * rho_im[r][s]
            cv[Ri] = coord_values(prog.vars[Ri], Rre, Rim)
            conj, psd_list, _ = linear_constraints(prog, cv, include_psd_1x1=False)
            obj = objective_term(prog, cv)
            # value of the strategy at referee state rho: sum pi Re Tr(V^dagger rho)
            terms = []
            for a, b_, x, y in itertools.product(range(A), range(B), range(X), range(Y)):
                M = V[:, :, a, b_, x, y]
                t = z3.Sum([rv((np.conj(M[r, s])).real) * rho_re[r][s] - rv((np.conj(M[r, s])).imag) * rho_im[r][s]
                            for r in range(rd) for s in range(rd)])
                terms.append(rv(p[x, y]) * ind(z3.And(f[x] == a, g[y] == b_)) * t)
            val = z3.Sum(terms)
            # every matrix PSD constraint at the embedded point must be (0/1 indicator or 1) * rho  or  rho (x) v v^T : check the block form
            psd_ok = []
            for re, im in psd_list:
                if re.shape == (rd, rd):
                    # must equal c * rho with c in {0,1}: entries proportional to rho by the same indicator
                    psd_ok.append(z3.Or(z3.And(*[re[r, s] == 0 for r in range(rd) for s in range(rd)] + [im[r, s] == 0 for r in range(rd) for s in range(rd)]),
                                        z3.And(*[re[r, s] == rho_re[r][s] for r in range(rd) for s in range(rd)] + [im[r, s] == rho_im[r][s] for r in range(rd) for s in range(rd)])))
            r_, m = prove(z3.Not(z3.And(z3.And(*conj), z3.And(*psd_ok) if psd_ok else z3.BoolVal(True), obj == val)), dom)
            r2, _ = prove(z3.Not(obj == val + 1), dom)
            r3, _ = prove(z3.BoolVal(True), dom)
            rec["queries"] = 3
            rec["neg_control"], rec["reachable"] = r2 == "sat", r3 == "sat"
            big = [1 for re, im in psd_list if re.shape != (rd, rd)]
            if r_ == "unsat" and r2 == "sat" and r3 == "sat" and len(big) == 1:
                rec["status"] = "discharged"
            else:
                rec["notes"].append(f"solver {r_}; large PSD constraints {len(big)}")
                if r_ == "sat":
                    rec["notes"].append(f"model: {str(m)[:400]}")
        else:
            cv = [[z3.Real(f"c{vi}_{k}") for k in range(len(v.basis))] for vi, v in enumerate(prog.vars)]
            conj, _, _ = linear_constraints(prog, cv, include_psd_1x1=False)
            blocks = {}
            for (x, y), vi in Ks.items():
                aff_vals = {b[0]: c for b, c in zip(prog.vars[vi].basis, cv[vi])}

                def ent(i, j, aff_vals=aff_vals, st=prog.vars[vi].structure):
                    if st == "complex":
                        return aff_vals[("r", i, j)], aff_vals[("i", i, j)]
                    if i == j:
                        return aff_vals[("r", i, i)], z3.RealVal(0)
                    if i < j:
                        return aff_vals[("r", i, j)], aff_vals[("i", i, j)]
                    return aff_vals[("r", j, i)], -aff_vals[("i", j, i)]
                for a, b_ in itertools.product(range(A), range(B)):
                    blocks[(a, b_, x, y)] = [[ent(a * rd + r, b_ * rd + s) for s in range(rd)] for r in range(rd)]

            def bsum(keys):
                return [[(z3.Sum([blocks[k][r][s][0] for k in keys]), z3.Sum([blocks[k][r][s][1] for k in keys])) for s in range(rd)] for r in range(rd)]

            def beq(M1, M2):
                return [M1[r][s][t] == M2[r][s][t] for r in range(rd) for s in range(rd) for t in range(2)]
            ns = []
            for x, a in itertools.product(range(X), range(A)):
                base = bsum([(a, b_, x, 0) for b_ in range(B)])
                for y in range(1, Y):
                    ns += beq(bsum([(a, b_, x, y) for b_ in range(B)]), base)
            for y, b_ in itertools.product(range(Y), range(B)):
                base = bsum([(a, b_, 0, y) for a in range(A)])
                for x in range(1, X):
                    ns += beq(bsum([(a, b_, x, y) for a in range(A)]), base)
            for x, y in itertools.product(range(X), range(Y)):
                tot = bsum([(a, b_, x, y) for a in range(A) for b_ in range(B)])
                ns.append(tot[0][0][0] + tot[1][1][0] == 1)
            r_, m = prove(z3.Not(z3.And(*ns)), conj)
            r2, _ = prove(z3.Not(z3.And(*(ns + [blocks[(0, 0, 0, 0)][0][0][0] == 2]))), conj)
            r3, _ = prove(z3.BoolVal(True), conj)
            rec["queries"] = 3
            rec["neg_control"], rec["reachable"] = r2 == "sat", r3 == "sat"
            if r_ == "unsat" and r2 == "sat" and r3 == "sat":
                rec["status"] = "discharged"
            else:
                rec["notes"].append(f"solver {r_}")
        rec["solver_s"] = round(time.time() - t0, 3)


def ref_ext_ns(shape, p, V):
    A, B, X, Y = shape

    def ref(Vm, inst):
        mats = [np.asarray(Vm.herm(i)) for i in range(len(Vm))]     # textbook domain: complex Hermitian operators (a real-symmetric captured variable fails T1)
        K, c = {}, 0
        for a, b_, x, y in itertools.product(range(A), range(B), range(X), range(Y)):
            K[(a, b_, x, y)] = mats[c]
            c += 1
        sig = {}
        for a, x in itertools.product(range(A), range(X)):
            sig[(a, x)] = mats[c]
            c += 1
        rho = {}
        for b_, y in itertools.product(range(B), range(Y)):
            rho[(b_, y)] = mats[c]
            c += 1
        tau = mats[c]
        cons = [("psd", K[k]) for k in K]
        obj = 0
        for (a, b_, x, y), k in K.items():
            obj = obj + float(p[x, y]) * tr(dagger(snap(V[:, :, a, b_, x, y])) @ k)
        for x, y, a in itertools.product(range(X), range(Y), range(A)):
            cons.append(("eq", sum(K[(a, b_, x, y)] for b_ in range(B)) - sig[(a, x)]))
        for x, y, b_ in itertools.product(range(X), range(Y), range(B)):
            cons.append(("eq", sum(K[(a, b_, x, y)] for a in range(A)) - rho[(b_, y)]))
        for x in range(X):
            cons.append(("eq", sum(sig[(a, x)] for a in range(A)) - tau))
        for y in range(Y):
            cons.append(("eq", sum(rho[(b_, y)] for b_ in range(B)) - tau))
        cons.append(("eq", np.array([[tr(tau) - 1]], dtype=object)))
        cons.append(("psd", tau))
        return SymProgram("max", np.array([[lift(obj).real]], dtype=object), cons)
    return ref


def ob_ext_product(shape, kind="r"):
    A, B, X, Y = shape
    cfg = {"referee_dim": 2, "shape_A_B_X_Y": list(shape), "reps": 2, "predicate_entries": "complex" if kind == "c" else "real"}

    def build(b):
        return {"p": b.array("p", (X, Y), "r"), "V": b.array("V", (2, 2, A, B, X, Y), kind)}

    def call(i):
        g = ExtendedNonlocalGame(i["p"], i["V"], reps=2)
        return [np.asarray(g.prob_mat), np.asarray(g.pred_mat)]

    def oracle(i):
        p, V = np.asarray(i["p"]), np.asarray(i["V"])
        P2 = np.empty((X * X, Y * Y), dtype=object)
        V2 = np.empty((4, 4, A * A, B * B, X * X, Y * Y), dtype=object)
        for x1, x2, y1, y2 in itertools.product(range(X), range(X), range(Y), range(Y)):
            P2[x1 * X + x2, y1 * Y + y2] = p[x1, y1] * p[x2, y2]
            for a1, a2, b1, b2 in itertools.product(range(A), range(A), range(B), range(B)):
                for r1, r2, s1, s2 in itertools.product(range(2), repeat=4):
                    V2[r1 * 2 + r2, s1 * 2 + s2, a1 * A + a2, b1 * B + b2, x1 * X + x2, y1 * Y + y2] = \
                        V[r1, s1, a1, b1, x1, y1] * V[r2, s2, a2, b2, x2, y2]
        return [P2, V2]
    def witness():
        rng = np.random.default_rng(17)
        V = rng.normal(size=(2, 2, A, B, X, Y)) + (1j * rng.normal(size=(2, 2, A, B, X, Y)) if kind == "c" else 0)
        p = rng.random((X, Y))
        return [{"p": p / p.sum(), "V": V}]
    return Obligation("extended_product_game.two_repetitions_is_kronecker_product_game", cfg, build, call, oracle, objzeros=(ENG,), witness=witness)


# ---- hedging ------------------------------------------------------------------------------------------
def hedging_Q(n, complex_):
    """dyadic Hermitian hedging operator on 2n qubits (not a product, so that index conventions show)"""
    N = 4 ** n
    rng = np.random.default_rng(40 + n + (7 if complex_ else 0))
    M = rng.integers(-2, 3, size=(N, N)) / 4.0
    if complex_:
        M = M + 1j * rng.integers(-2, 3, size=(N, N)) / 4.0
    Q = (M + M.conj().T) / 2
    return Q + 2 * np.eye(N)


def hedging_perm(n):
    l1, l2 = list(range(n)), list(range(n, 2 * n))
    return [v for pair in zip(l1, l2) for v in pair]


def ref_hedging(n, which, form):
    def ref(Vm, Q):
        Qs = snap(Q)
        if form == "primal":
            X = Vm.herm(0)
            sysl = list(range(0, 2 * n - 1, 2))
            cons = [("eq", oracle_ptrace(X, [2] * (2 * n), sysl) - np.identity(2 ** n)), ("psd", X)]
            return SymProgram("max" if which == "max" else "min", np.array([[lift(tr(dagger(Qs) @ X)).real]], dtype=object), cons)
        Y = Vm.herm(0)
        P = perm_matrix(hedging_perm(n), [2] * (2 * n)) if n > 1 else np.eye(4)
        E = P @ np.kron(np.identity(2 ** n), Y) @ P.T
        if which == "max":
            return SymProgram("min", np.array([[lift(tr(Y)).real]], dtype=object), [("psd", E - Qs)])
        return SymProgram("max", np.array([[lift(tr(Y)).real]], dtype=object), [("psd", Qs - E)])
    return ref


class AdjointTask(Task):
    """T2: the dual's embedding Y -> (psd expression linear part) is the adjoint of the primal's map X -> (equality linear part)"""
    engine = "E2-sdpcap (T2 pairing in z3)"
    weight = 10

    def __init__(self, name, cfg, call_primal, call_dual, sign=1):
        super().__init__(name, cfg)
        self.cp, self.cd, self.sign = call_primal, call_dual, sign

    def _run(self, rec, seed):
        pp = extract(capture_call(self.cp))
        pd = extract(capture_call(self.cd))
        rec["programs"] = 2
        ctx = Ctx("lra", self.name)
        with use_ctx(ctx):
            b = Builder(ctx)
            mx, cx = sym_variables(b, pp.vars, "x")
            my, cy = sym_variables(b, pd.vars, "y")
            P = program_to_sym(pp, cx)
            D = program_to_sym(pd, cy)
            # linear parts: subtract the value at zero
            zero_x = [[lift(0)] * len(c) for c in cx]
            zero_y = [[lift(0)] * len(c) for c in cy]
            Pe = [E for k, E in P.constraints if k == "eq"][0]
            De = [E for k, E in D.constraints if k == "psd"][0]
            Pe0 = [E for k, E in program_to_sym(pp, zero_x).constraints if k == "eq"][0]
            De0 = [E for k, E in program_to_sym(pd, zero_y).constraints if k == "psd"][0]
            L = np.asarray(Pe) - np.asarray(Pe0)            # Xi(X)
            Ls = (np.asarray(De) - np.asarray(De0)) * self.sign     # Xi*(Y)
            X, Y = np.asarray(mx[0]), np.asarray(my[0])
            lhs = tr(dagger(Ls) @ X)
            rhs = tr(dagger(Y) @ L)
            # Lagrangian duality also ties the constants: the operator of the primal objective Re<C, X> is the constant of the dual
            # constraint (C = -sign * D(0)), and the right-hand side R of the primal equality (R = -Xi(0)) is the operator of the
            # dual objective Re<R, Y>
            C = -self.sign * np.asarray(De0)
            Rr = -np.asarray(Pe0)
            obj_p = lift(np.asarray(P.objective, dtype=object).flat[0])
            obj_d = lift(np.asarray(D.objective, dtype=object).flat[0])
            goal = lift(lhs).eq_solver(rhs) & obj_p.eq_solver(lift(tr(dagger(C) @ X)).real) & obj_d.eq_solver(lift(tr(dagger(Rr) @ Y)).real)
            r, m = ctx.check([core_not(goal)])
            # constants: primal rhs must be the identity the dual's objective pairs with; dual constant must be -+ Q of the primal objective
            bad = lift(lhs).eq_solver(rhs + 1)
            r2, _ = ctx.check([core_not(bad)])
            rec["queries"], rec["solver_s"] = ctx.queries, round(ctx.solver_s, 3)
            rec["neg_control"], rec["reachable"] = r2 == "sat", True
        if r == "unsat" and r2 == "sat":
            rec["status"] = "discharged"
            return
        rec["notes"].append(f"pairing identity: {r}")
        rec["disagreements_checked"] = 1
        a, d = float(self.cp()), float(self.cd())
        if abs(a - d) > 2e-4:
            rec["status"] = "violation"
            rec["violation"] = {"source": "dual embedding is not the adjoint of the primal map; primal and dual optima differ with the real solver", "inputs": jsonable(self.cfg),
                                "actual": {"primal": a, "dual": d}, "expected": "equal optima"}
        else:
            rec["notes"].append(f"optima agree on this instance ({a:.6f} vs {d:.6f})")

    def replay(self, rp):
        a, d = float(self.cp()), float(self.cd())
        print({"primal": a, "dual": d})
        return abs(a - d) <= 2e-4


class DualityTask(Task):
    """T2 for block programs: the captured dual is the Lagrange dual of the captured primal.
        primal:  opt Re sum_i <C_i, X_i>   s.t.  sum_i A_i(X_i) = R,  X_i >= 0          (opt = max or min)
        dual:    opt' Re <R, Y>            s.t.  +-(A_i^*(Y) - C_i) >= 0 for every i    (opt' = min or max)
    decided for symbolic Hermitian X_i, Y: sum_i <A_i^*(Y), X_i> = <Y, sum_i A_i(X_i)>, the constants C_i and R of one program are the
    operators of the other one's objective, the senses are opposite.  Independent of the harness' textbook references (both sides
    are captured from the real code)."""
    engine = "E2-sdpcap (T2 Lagrangian pairing in z3)"
    weight = 15

    def __init__(self, name, cfg, call_primal, call_dual, value_of=None):
        super().__init__(name, cfg)
        self.cp, self.cd = call_primal, call_dual
        self.value_of = value_of or (lambda r: float(np.real(r[0] if isinstance(r, tuple) else r)))

    def _run(self, rec, seed):
        pp = extract(capture_call(self.cp))
        pd = extract(capture_call(self.cd))
        rec["programs"] = 2
        ctx = Ctx("lra", self.name)
        with use_ctx(ctx):
            b = Builder(ctx)
            mx, cx = sym_variables(b, pp.vars, "x")
            my, cy = sym_variables(b, pd.vars, "y")
            P, D = program_to_sym(pp, cx), program_to_sym(pd, cy)
            P0 = program_to_sym(pp, [[lift(0)] * len(c) for c in cx])
            D0 = program_to_sym(pd, [[lift(0)] * len(c) for c in cy])
            eqs = [(E, E0) for (k, E), (_, E0) in zip(P.constraints, P0.constraints) if k == "eq"]
            psds = [(E, E0) for (k, E), (_, E0) in zip(D.constraints, D0.constraints) if k == "psd"]
            ok_shape = len(eqs) == 1 and len(my) == 1 and len(psds) == len(mx) and P.sense != D.sense
            r = r2 = "n/a"
            if ok_shape:
                s_ = 1 if P.sense == "max" else -1
                Pe, Pe0 = eqs[0]
                L, Rr = np.asarray(Pe) - np.asarray(Pe0), -np.asarray(Pe0)
                Y = np.asarray(my[0])
                lhs, objp = 0, 0
                for X, (De, De0) in zip(mx, psds):
                    X = np.asarray(X)
                    lhs = lhs + tr(dagger(s_ * (np.asarray(De) - np.asarray(De0))) @ X)
                    objp = objp + tr(dagger(-s_ * np.asarray(De0)) @ X)
                rhs = tr(dagger(Y) @ L)
                obj_p = lift(np.asarray(P.objective, dtype=object).flat[0])
                obj_d = lift(np.asarray(D.objective, dtype=object).flat[0])
                goal = lift(lhs).eq_solver(rhs) & obj_p.eq_solver(lift(objp).real) & obj_d.eq_solver(lift(tr(dagger(Rr) @ Y)).real)
                r, _ = ctx.check([core_not(goal)])
                r2, _ = ctx.check([core_not(lift(lhs).eq_solver(rhs + 1))])
            rec["queries"], rec["solver_s"] = ctx.queries, round(ctx.solver_s, 3)
            rec["neg_control"], rec["reachable"] = r2 == "sat", True
        if ok_shape and r == "unsat" and r2 == "sat":
            rec["status"] = "discharged"
            return
        rec["notes"].append("programs are not a primal / dual pair of the block form" if not ok_shape else f"Lagrangian identities: {r}")
        rec["disagreements_checked"] = 1
        try:
            a, d = self.value_of(self.cp()), self.value_of(self.cd())
        except (ArithmeticError, ZeroDivisionError) as e:
            rec["notes"].append(f"replay: conic solver breakdown ({type(e).__name__})")
            return
        if abs(a - d) > 2e-4:
            rec["status"] = "violation"
            rec["violation"] = {"source": "the dual program is not the Lagrange dual of the primal program; the optima differ with the real solver",
                                "inputs": jsonable(self.cfg), "actual": {"primal": a, "dual": d}, "expected": "equal optima"}
        else:
            rec["notes"].append(f"optima agree on this instance ({a:.6f} vs {d:.6f})")

    def replay(self, rp):
        a, d = self.value_of(self.cp()), self.value_of(self.cd())
        print({"primal": a, "dual": d})
        return abs(a - d) <= 2e-4


def core_not(b):
    from symnp.core import as_z3
    return as_z3(~SymBool(b))


# ---- cloning ------------------------------------------------------------------------------------------
def clone_states(kind):
    if kind == "bb84":
        return [np.array([[1.0], [0]]), np.array([[0.0], [1]]), np.array([[0.5], [0.5]]), np.array([[0.5], [-0.5]])], [0.25] * 4
    if kind == "three kets not closed under conjugation":      # |0>, |+>, |+i> (un-normalised, dyadic)
        return [np.array([[1], [0j]]), np.array([[0.5], [0.5 + 0j]]), np.array([[0.5], [0.5j]])], [0.5, 0.25, 0.25]
    if kind == "real first, complex second":     # mixed storage: the first ket is a float array
        return [np.array([[1.0], [0.5]]), np.array([[0.5], [0.25 - 0.5j]])], [0.25, 0.75]
    return [np.array([[1], [0.5j]]), np.array([[0.5], [0.25 - 0.5j]])], [0.75, 0.25]


def clone_Q(states, probs):
    Q = None
    for s, p in zip(states, probs):
        v = np.kron(np.kron(s, s), s.conj())
        t = p * (v @ v.conj().T)
        Q = t if Q is None else Q + t
    return Q


def clone_perm(n):
    perm = []
    for i in range(3):
        perm.append(i)
        for j in range(1, n):
            perm.append(i + 3 * j)
    return perm


def ref_clone(n, form):
    def ref(Vm, inst):
        states, probs = inst
        Q1 = clone_Q(states, probs)
        Q = Q1
        for _ in range(n - 1):
            Q = np.kron(Q, Q1)
        if n > 1:
            P = perm_matrix(clone_perm(n), [2] * (3 * n))
            Q = P @ Q @ P.T
        Qs = snap(Q)
        if form == "primal":
            X = Vm.herm(0)
            # Q has been brought to the order (Y_1..Y_n, Z_1..Z_n, X_1..X_n); the constraint is Tr_{Y,Z}(X) = identity on the n input
            # qubits X_1..X_n, i.e. the FIRST 2n factors are traced out.  (An earlier version of this reference copied the code's
            # own list [e-1 for e in 1..3n-1 if e % 3], which is the labelling BEFORE the permutation - see DESIGN.md, false alarms /
            # mirrored oracle.)
            sysl = list(range(2 * n))
            cons = [("eq", oracle_ptrace(X, [2] * (3 * n), sysl) - np.identity(2 ** n)), ("psd", X)]
            return SymProgram("max", np.array([[lift(tr(dagger(Qs) @ X)).real]], dtype=object), cons)
        Y = Vm.herm(0)
        E = np.kron(np.identity(4 ** n), Y)
        return SymProgram("min", np.array([[lift(tr(Y)).real]], dtype=object), [("psd", E - Qs)])
    return ref


def ob_clone_operator(n_states, flat=False):
    cfg = {"states": n_states, "state_vectors_given_as": "1-D arrays" if flat else "column arrays"}
    captured = {}

    def build(b):
        return {"s": [b.array(f"s{k}", (2,) if flat else (2, 1), "c") for k in range(n_states)], "p": [b.real(f"p{k}") for k in range(n_states)]}

    def call(i):
        import sys
        mod = sys.modules["toqito.state_opt.optimal_clone"]
        o = mod.dual_problem

        def stub(q_a, pperm, num_reps):
            captured["Q"] = q_a
            return 0.0
        mod.dual_problem = stub
        try:
            optimal_clone(list(i["s"]), list(i["p"]), 1, False)
        finally:
            mod.dual_problem = o
        return np.asarray(captured["Q"])

    def oracle(i):
        Q = None
        for s, p in zip(i["s"], i["p"]):
            s = np.asarray(s).reshape(-1, 1)
            v = np.kron(np.kron(s, s), s.conj())
            t = p * (v @ dagger(v))
            Q = t if Q is None else Q + t
        return Q
    return Obligation("optimal_clone.cloning_operator_is_sum_p_psi_psi_conjpsi_projectors", cfg, build, call, oracle,
                      objzeros=("toqito.state_opt.optimal_clone",))


# ---- see-saw programs of the extended game ---------------------------------------------------------------
def ext_see_saw_task(shape, who):
    """T1 for ExtendedNonlocalGame.__optimize_alice / __optimize_bob (referee dim 2; the library lets Bob measure a system whose
    dimension is his number of answers B, so the assemblage operators act on C^2 (x) C^B and Bob's POVM elements are B x B)"""
    import sys
    A, B, X, Y = shape
    p, V = ext_game(shape, True, False)
    dim = 2
    cfg = {"shape_A_B_X_Y": list(shape), "optimise": who, "referee_dim": dim}
    mod = sys.modules[ENG]
    H = np.array([[1, 1], [1, -1]]) / np.sqrt(2)        # its column projectors have dyadic entries
    UB = H if B == 2 else np.eye(B)       # what the patched random_unitary hands back for Bob's starting measurements
    n = dim * B
    rho0 = {}
    for x in range(X):
        for a in range(A):
            M = np.zeros((n, n), dtype=complex)
            M[(x + a) % n, (x + a) % n] = 0.25
            M[0, n - 1] += 0.125j
            M[n - 1, 0] -= 0.125j
            M[0, 0] += 0.125
            M[n - 1, n - 1] += 0.125
            rho0[(x, a)] = M

    def call():
        orig = mod.random_unitary
        mod.random_unitary = lambda d_: (H if d_ == 2 else np.eye(d_))
        import cvxpy
        cur_solve = cvxpy.Problem.solve
        try:
            if who == "alice":
                # make the y-dependence of Bob's starting measurements visible: patch after construction is not possible, so use
                # the module-level hook only (every y gets the H projectors)
                return ExtendedNonlocalGame(p, V).quantum_value_lower_bound(iters=1)
            state = {"n": 0}

            def first(self, *a, **k):
                state["n"] += 1
                if state["n"] == 1:
                    hv = sorted(self.variables(), key=lambda v: v.id)
                    c = 0
                    for x in range(X):
                        for a_ in range(A):
                            hv[c].value = rho0[(x, a_)]
                            c += 1
                    hv[c].value = np.eye(n, dtype=complex) / n
                    return 0.0
                return cur_solve(self, *a, **k)
            cvxpy.Problem.solve = first
            try:
                return ExtendedNonlocalGame(p, V).quantum_value_lower_bound(iters=1)
            finally:
                cvxpy.Problem.solve = cur_solve
        finally:
            mod.random_unitary = orig

    def reference(Vm, inst):
        cons, obj = [], 0
        if who == "alice":
            R, c = {}, 0
            for x in range(X):
                for a in range(A):
                    R[(x, a)] = Vm.herm(c)
                    c += 1
            tau = Vm.herm(c)
            for x in range(X):
                tot = None
                for a in range(A):
                    cons.append(("psd", R[(x, a)]))
                    tot = R[(x, a)] if tot is None else tot + R[(x, a)]
                cons.append(("eq", tot - tau))
            cons.append(("eq", np.array([[tr(tau) - 1]], dtype=object)))
            cons.append(("psd", tau))
            for x, y, a, b_ in itertools.product(range(X), range(Y), range(A), range(B)):
                Bm = np.outer(UB[:, b_], UB[:, b_].conj())
                K = np.kron(V[:, :, a, b_, x, y], Bm)
                obj = obj + float(p[x, y]) * tr(dagger(snap(K)) @ R[(x, a)])
        else:
            Bv, c = {}, 0
            for y in range(Y):
                for b_ in range(B):
                    Bv[(y, b_)] = Vm.herm(c)
                    c += 1
            for y in range(Y):
                tot = None
                for b_ in range(B):
                    cons.append(("psd", Bv[(y, b_)]))
                    tot = Bv[(y, b_)] if tot is None else tot + Bv[(y, b_)]
                cons.append(("eq", tot - np.identity(B)))
            for x, y, a, b_ in itertools.product(range(X), range(Y), range(A), range(B)):
                K = np.kron(snap(V[:, :, a, b_, x, y]), Bv[(y, b_)])
                obj = obj + float(p[x, y]) * tr(K @ snap(rho0[(x, a)]))
        return SymProgram("max", np.array([[lift(obj).real]], dtype=object), cons)
    return SdpTask("extended_see_saw.program_is_textbook_optimisation", cfg, call, reference, instance=None, abort_after=1, value_of=lambda r: float(r))


def obligations(tier):
    T = tier == "thorough"
    obs = []
    for sh in [(2, 2, 1, 2), (2, 2, 2, 1), (2, 3, 1, 1), (3, 2, 1, 1)] + ([(3, 3, 1, 1)] if T else []):
        obs.append(ob_unentangled(sh))
    for sh in [(2, 2, 2, 2), (2, 2, 1, 1)] + ([(3, 3, 1, 1), (2, 3, 2, 1)] if T else []):
        obs.append(ob_unentangled(sh, solver_max=True))
    for variant in ("real", "complex"):
        for k in [1, "1+ab"] + ([2] if T else []):
            obs.append(NpaQuantumTask(variant, k))
    for sh in [(2, 2, 2, 2), (2, 2, 1, 2)] + ([(2, 3, 2, 2)] if T else []):
        for k in [1, "1+ab"] + ([2] if T else []):
            obs.append(ExtNpaTask(sh, k, "unent_le_npa"))
            obs.append(ExtNpaTask(sh, k, "npa_implies_ns"))
        p, V = ext_game(sh, True, False)
        obs.append(SdpTask("extended_nonsignaling_value.program_is_textbook_assemblage_program", {"shape_A_B_X_Y": list(sh)},
                           (lambda p=p, V=V: ExtendedNonlocalGame(p, V).nonsignaling_value()), ref_ext_ns(sh, p, V), instance=None, value_of=lambda r: float(r)))
    for sh in [(2, 2, 2, 2), (2, 2, 1, 2), (2, 3, 1, 2)]:        # the last: Bob has 3 answers, the referee dimension is 2
        obs.append(ext_see_saw_task(sh, "alice"))
        obs.append(ext_see_saw_task(sh, "bob"))
    obs.append(ob_ext_product((2, 2, 1, 2)))
    obs.append(ob_ext_product((2, 1, 2, 2)))
    obs.append(ob_ext_product((2, 2, 1, 1), "c"))       # complex referee operators (e.g. BB84 in the Z / Y bases)
    obs.append(ob_ext_product((1, 2, 2, 1), "c"))
    # hedging
    for n in [1, 2]:
        for cx in (False, True):
            Q = hedging_Q(n, cx)
            for which in ("max", "min"):
                for form in ("primal", "dual"):
                    meth = f"{which}_prob_outcome_a_{form}"
                    t = SdpTask("quantum_hedging.program_is_textbook_program", {"reps": n, "Q": "complex" if cx else "real", "method": meth},
                                (lambda Q=Q, n=n, meth=meth: getattr(QuantumHedging(Q, n), meth)()), ref_hedging(n, which, form), instance=Q,
                                value_of=lambda r: float(r), tol=5e-4)
                    t.weight = 20 * n
                    obs.append(t)
                obs.append(AdjointTask("quantum_hedging.dual_embedding_is_adjoint_of_primal_partial_trace", {"reps": n, "Q": "complex" if cx else "real", "which": which},
                                       (lambda Q=Q, n=n, which=which: getattr(QuantumHedging(Q, n), f"{which}_prob_outcome_a_primal")()),
                                       (lambda Q=Q, n=n, which=which: getattr(QuantumHedging(Q, n), f"{which}_prob_outcome_a_dual")()),
                                       sign=1 if which == "max" else -1))
    # history: a value method called on an object that has already answered another one must still build the textbook
    # program for the operator the object was constructed with (the earlier call is solved for real, the later one captured)
    for n, cx in ([(2, True), (1, True), (2, False)] if T else [(2, True)]):
        Q = hedging_Q(n, cx)
        meths = [(w, f) for w in ("max", "min") for f in ("primal", "dual")]
        for (w0, f0) in meths:
            for (w1, f1) in meths:
                if (w0, f0) == (w1, f1) and f0 == "primal":
                    continue

                def call(Q=Q, n=n, m0=f"{w0}_prob_outcome_a_{f0}", m1=f"{w1}_prob_outcome_a_{f1}"):
                    h = QuantumHedging(Q.copy(), n)
                    getattr(h, m0)()
                    return getattr(h, m1)()
                t = SdpTask("quantum_hedging.program_is_textbook_program_after_an_earlier_call_on_the_same_object",
                            {"reps": n, "Q": "complex" if cx else "real", "earlier_call": f"{w0}_prob_outcome_a_{f0}", "method": f"{w1}_prob_outcome_a_{f1}"},
                            call, ref_hedging(n, w1, f1), instance=Q, abort_after=2, value_of=lambda r: float(r), tol=5e-4)
                t.weight = 25 * n
                obs.append(t)
    # cloning
    for kind in ("bb84", "complex pair", "real first, complex second", "three kets not closed under conjugation"):
        st, pr = clone_states(kind)
        for n in ([1, 2] if T else [1]):
            for form, strat in (("primal", True), ("dual", False)):
                t = SdpTask("optimal_clone.program_is_textbook_program", {"states": kind, "reps": n, "form": form},
                            (lambda st=st, pr=pr, n=n, strat=strat: optimal_clone([s.copy() for s in st], list(pr), n, strat)), ref_clone(n, form),
                            instance=(st, pr), value_of=lambda r: float(r), tol=5e-4)
                t.weight = 30 * n
                obs.append(t)
        for n in ([1, 2] if kind in ("bb84", "three kets not closed under conjugation") else [1]):
            t = AdjointTask("optimal_clone.dual_embedding_is_adjoint_of_primal_partial_trace", {"states": kind, "reps": n},
                            (lambda st=st, pr=pr, n=n: optimal_clone([s.copy() for s in st], list(pr), n, True)),
                            (lambda st=st, pr=pr, n=n: optimal_clone([s.copy() for s in st], list(pr), n, False)))
            t.weight = 10 if n == 1 else 400
            t.wall_cap_s = 3000
            obs.append(t)
    obs.append(ob_clone_operator(2))
    obs.append(ob_clone_operator(2, flat=True))      # "states provided as either matrices or vectors"
    return obs
