"""C07 Nonlocal game: classical value is exact and all values are ordered."""
from __future__ import annotations

import itertools
import time
import traceback
from fractions import Fraction as F

import numpy as np
import z3

from sdpcap.capture import Captured, SymProgram, capture, capture_call, extract
from sdpcap.embed import coord_values, linear_constraints, objective_term, prove, rv, z3_affine
from sdpcap.task import SdpTask
from symnp.core import And, Or, SymBool, SymError, lift
from symnp.harness import Obligation, eq, jsonable
from props.common import Task, prod
from props.c10 import tr
from props.npa_quantum import NpaQuantumTask
from toqito.nonlocal_games.nonlocal_game import NonlocalGame

NG = "toqito.nonlocal_games.nonlocal_game"

META = {
    "id": "C07",
    "level": "other",
    "files": ["toqito/nonlocal_games/nonlocal_game.py", "toqito/helper/npa_hierarchy.py", "toqito/helper/update_odometer.py", "toqito/matrix_ops/tensor.py"],
    "functions": ["NonlocalGame.__init__ (reps)", "NonlocalGame.from_bcs_game", "NonlocalGame.classical_value / process_iteration",
                  "NonlocalGame.commuting_measurement_value_upper_bound", "NonlocalGame.nonsignaling_value",
                  "NonlocalGame.quantum_value_lower_bound (__optimize_alice / __optimize_bob)", "toqito.helper.npa_constraints", "toqito.helper.update_odometer"],
    "explanation": "E1: classical_value / process_iteration are executed symbolically with EVERY entry of prob_mat and pred_mat a solver variable "
                   "(np.amax = exact max symbols, Python max forks); z3 proves per path that the result is >= the value of every pair of answer functions and "
                   "equals one of them, and that prob_mat / pred_mat are untouched afterwards; the 2-fold product constructor is proved to be the Kronecker "
                   "product game (symbolic p, V). E2/T3 on the REAL programs: the cvxpy program built by commuting_measurement_value_upper_bound (real "
                   "npa_constraints, k in {1,'1+ab',2}) is captured; with the answer functions as z3 symbols, the point M(a,b|x,y)=[f(x)=a][g(y)=b], R = v v^T "
                   "(v = word values, PSD by construction) satisfies every generated equality and sign constraint and the captured objective equals that "
                   "strategy's winning probability => classical <= NPA_k for every game of the shape; for CHSH, explicit QUANTUM strategies (Gaussian-rational non-commuting qubit projectors, symbolic shared state, "
                   "real and complex) are feasible moment points with their own value => the achieved 0.8535 <= NPA_k; the level-k' equalities imply the level-k ones on the "
                   "principal submatrix => NPA_k' <= NPA_k; the NPA constraints imply that M is a non-signalling box and the captured nonsignaling_value "
                   "program is equivalent to the LP over non-signalling boxes (both embeddings) => NPA_k <= NS; NS <= 1 by arithmetic. See-saw programs: T1 "
                   "against max Re sum pV Tr(B^dagger A) over POVMs (Alice: sub-normalised by tau). BCS constructor: complete enumeration of all 0/1 "
                   "constraint tensors of the stated sizes (finite space, no solver content). Large games: classical_value's dispatch of strategy indices "
                   "(single-core loop up to 1000 strategies, multiprocessing.Pool.starmap above) is executed with process_iteration replaced by an uninterpreted "
                   "function i -> t_i (one solver real per index), the pool by an in-process stub and the builtin max by a definitional max symbol; z3 decides that "
                   "the result is the maximum of t over EVERY index 0..N-1 (N up to 2187); a model is turned into a real game in which the missed strategy is the unique "
                   "perfect one and replayed through the public API with the real pool. Call histories: NPA / NS programs captured from a game object on which "
                   "classical_value() has already been called (the object's state must not change); 0/1 predicate tensors stored as integers are run as witnesses.",
    "bounds": {"quick": "classical value: all shapes (A,B,X,Y) with A,B in {2,3}, X,Y in {1,2,3}, <= 9 strategies on the enumerated side and <= 108 strategy pairs; product game: (2,2,2,2),(2,3,1,2),(3,2,2,1); "
                        "large-game dispatch: 6 shapes with 512..2048 enumerated strategies (both branches, swap and no swap); NPA / NS certificates: shapes (2,2,2,2),(2,3,2,2),(3,2,1,2),(2,2,3,2),(2,2,2,3),(2,2,2,1), levels 1,'1+ab',2 (level 2 for (2,2,2,2),(3,2,1,2)); see-saw: (2,2,2,2),(3,2,2,2) local dim 2; BCS: 2 constraints x 2 variables (256 tensors)",
               "thorough": "classical value: A,B in {2,3,4}, <= 9 enumerated strategies, <= 729 pairs; NPA level 2 for all listed shapes, BCS 3x2 and 1x3"},
    "trusted_base": ["numpy object-array semantics (translator validation)", "cvxpy evaluates its own affine expressions (extraction, cross-checked)",
                     "principal submatrices / v v^T / traces of PSD matrices are PSD / >= 0 (used as mathematical facts in the certificates)",
                     "the conic solver returns the optimum of the program it is handed", "z3 5.1.0"],
    "outside_claim": ["that a feasible point of the see-saw programs is achieved by a quantum strategy (lower bound <= NPA bound): a theorem about that parametrisation, not glue; quantum <= NPA_k is decided for explicit qubit strategies on CHSH only",
                      "numerical optimality / local optima of the see-saw iteration", "games with more than 9 and at most 1000 enumerated strategies end to end (covered in two halves: process_iteration with every entry symbolic up to 9, the dispatch of strategy indices up to 2187 with process_iteration uninterpreted)",
                      "order independence beyond 'classical_value leaves the attributes untouched' (SDP methods are captured, they do not assign to the attributes)"],
    "assumptions": ["floats modelled as reals"],
}


# ---- E1: classical value -----------------------------------------------------------------------------
def strategies(A, B, X, Y):
    for f in itertools.product(range(A), repeat=X):
        for g in itertools.product(range(B), repeat=Y):
            yield f, g


def ob_classical(A, B, X, Y):
    cfg = {"alice_out": A, "bob_out": B, "alice_in": X, "bob_in": Y}

    def build(b):
        return {"p": b.array("p", (X, Y), "r"), "V": b.array("V", (A, B, X, Y), "r")}

    def call(i):
        g = NonlocalGame(i["p"], i["V"])
        val = g.classical_value()
        return [val, np.asarray(g.prob_mat), np.asarray(g.pred_mat)]

    def oracle(i):
        return None

    def values(i):
        p, V = np.asarray(i["p"]), np.asarray(i["V"])
        out = []
        for f, g in strategies(A, B, X, Y):
            tot = 0
            for x in range(X):
                for y in range(Y):
                    tot = tot + p[x, y] * V[f[x], g[y], x, y]
            out.append(tot)
        return out

    def post(res, exp, i):
        val, pm, vm = res
        vals = values(i)
        if isinstance(val, (float, int, np.floating)):
            return abs(val - max(vals)) < 1e-9 and np.array_equal(pm, i["p"]) and np.array_equal(vm, i["V"])
        ge = And(*[lift(val) >= v for v in vals])
        one = Or(*[lift(val).eq_solver(v) for v in vals])
        return ge & one & eq(pm, i["p"]) & eq(vm, i["V"])

    def assume(i):
        p, V = np.asarray(i["p"]), np.asarray(i["V"])
        return [v >= 0 for v in p.flat] + [(sum(p.flat)).eq_solver(1)] + [c for v in V.flat for c in (v >= 0, v <= 1)]

    def valid(ni):
        return bool(np.all(ni["p"] >= 0) and abs(ni["p"].sum() - 1) < 1e-9 and np.all(ni["V"] >= 0) and np.all(ni["V"] <= 1))

    def witness():
        rng = np.random.default_rng(5)
        out = []
        for _ in range(4):
            p = rng.random((X, Y))
            out.append({"p": p / p.sum(), "V": rng.integers(0, 2, size=(A, B, X, Y)).astype(float)})
        # a 0/1 predicate stored as an INTEGER tensor (the natural way to write one down)
        p = rng.random((X, Y))
        out.append({"p": p / p.sum(), "V": rng.integers(0, 2, size=(A, B, X, Y)).astype(np.int64)})
        out.append({"p": np.full((X, Y), 1.0 / (X * Y)), "V": np.ones((A, B, X, Y), dtype=np.int64)})
        # the predicate that only the LAST answer of Bob wins
        V = np.zeros((A, B, X, Y))
        V[:, B - 1, :, :] = 1
        out.append({"p": np.full((X, Y), 1.0 / (X * Y)), "V": V})
        return out
    return Obligation("classical_value.is_max_over_all_answer_function_pairs_and_leaves_game_unchanged", cfg, build, call, oracle, post=post,
                      assume=assume, valid=valid, witness=witness, objzeros=(NG,), max_paths=4096, neg_control=False, tv=True,
                      weight=(min(A ** X, B ** Y)) ** 2, wall_cap_s=2400)


class _InlinePool:
    """environment stub for multiprocessing.Pool: the documented contract of map/starmap/imap (results of f on every
    element, in order), evaluated in this process"""

    def __init__(self, *a, **k):
        pass

    def __enter__(self):
        return self

    def __exit__(self, *a):
        return False

    def starmap(self, f, it, chunksize=None):
        return [f(*x) for x in it]

    def map(self, f, it, chunksize=None):
        return [f(x) for x in it]

    def imap(self, f, it, chunksize=1):
        return iter([f(x) for x in it])

    imap_unordered = imap

    def close(self):
        pass

    join = terminate = close


class _InlineMP:
    Pool = _InlinePool

    @staticmethod
    def cpu_count():
        return 1


def _solver_max(*a, **k):
    """builtin max inside nonlocal_game.py as a definitional solver symbol (no forking over 1000+ comparisons)"""
    from symnp.array import symmax
    vals = list(a[0]) if len(a) == 1 else list(a)
    vals = [v for v in vals if not (isinstance(v, float) and v == float("-inf"))]
    if not vals:
        return k.get("default", float("-inf"))
    flat = []
    for v in vals:       # max(max(a, b), c) = max(a, b, c): a running maximum stays ONE definitional symbol, made at the end
        flat += v.vals if isinstance(v, _LazyMax) else [v]
    return _LazyMax(flat)


class _LazyMax:
    def __init__(self, vals):
        self.vals = vals

    def force(self):
        from symnp.array import symmax
        return symmax(self.vals)


def ob_classical_dispatch(A, B, X, Y):
    """classical_value's enumeration glue for games with hundreds / thousands of strategies on the enumerated side
    (the multiprocessing branch above 1000): process_iteration is an uninterpreted function i -> t_i (one solver real per
    strategy index), the pool is an in-process stub, and the result must be the maximum of t over EVERY index 0..N-1."""
    swap = A ** X < B ** Y
    base, digits = (A, X) if swap else (B, Y)
    N = base ** digits
    cfg = {"alice_out": A, "bob_out": B, "alice_in": X, "bob_in": Y, "enumerated_strategies": N,
           "branch": "multiprocessing pool" if N > 1000 else "single core"}

    def build(b):
        return {"t": np.array([b.real(f"t{k}") for k in range(N)], dtype=object)}

    def call(i):
        t = i["t"]
        symbolic = any(not isinstance(v, (int, float, np.floating, F)) for v in t)
        if symbolic:
            seen = []

            def stub(k, nbo, nbi, pm, nao, nai):
                if (int(nbo), int(nbi), int(nao), int(nai)) != (base, digits, B if swap else A, Y if swap else X) or \
                        tuple(np.shape(pm)) != ((B, Y, A, X) if swap else (A, X, B, Y)):
                    raise ValueError("process_iteration called with the wrong alphabet sizes")
                seen.append(int(k))
                return t[int(k)]
            old = NonlocalGame.__dict__["process_iteration"]
            NonlocalGame.process_iteration = staticmethod(stub)
            try:
                val = NonlocalGame(np.full((X, Y), 1.0 / (X * Y)), np.ones((A, B, X, Y))).classical_value()
            finally:
                NonlocalGame.process_iteration = old
            if not seen:
                # the implementation does not evaluate strategies through process_iteration (e.g. a vectorised rewrite): the
                # uninterpreted-dispatch model says nothing about it - inconclusive, the replay below still runs the real code
                raise SymError("classical_value did not call process_iteration: the dispatch model does not apply to this implementation")
            return val.force() if isinstance(val, _LazyMax) else val
        # numeric replay through the public API with nothing stubbed: the game in which the enumerated player's strategy
        # number argmax(t) is the unique perfect strategy; the real value is 1 iff that strategy was evaluated
        import multiprocessing
        multiprocessing.current_process()._config["daemon"] = False      # allow the code's own Pool inside a check worker
        k = int(np.argmax([float(v) for v in t]))
        dg = [(k // base ** (digits - 1 - j)) % base for j in range(digits)]
        V = np.zeros((A, B, X, Y))
        for q in range(digits):
            if swap:
                V[dg[q], :, q, :] = 1
            else:
                V[:, dg[q], :, q] = 1
        val = NonlocalGame(np.full((X, Y), 1.0 / (X * Y)), V).classical_value()
        tmax = max(float(v) for v in t)
        return tmax if abs(val - 1) < 1e-9 else tmax - (1 - val) - 1.0

    def post(res, exp, i):
        t = list(i["t"])
        if isinstance(res, (float, int, np.floating)):
            return abs(float(res) - max(float(v) for v in t)) < 1e-9
        return And(*[lift(res) >= v for v in t]) & Or(*[lift(res).eq_solver(v) for v in t])
    mod = "toqito.nonlocal_games.nonlocal_game"

    def witness():
        # real games (nothing stubbed, the code's own pool) whose unique perfect strategy of the enumerated player is the first,
        # the last and a middle index; also what is left when the implementation does not dispatch through process_iteration
        out = []
        for k in (0, N - 1, N // 2 + 1):
            t = np.zeros(N)
            t[k] = 1.0
            out.append({"t": t})
        return out
    return Obligation("classical_value.large_game_enumeration_reaches_every_strategy_of_the_enumerated_player", cfg, build, call, lambda i: None,
                      post=post, objzeros=(NG,), extra_patch={mod: {"multiprocessing": _InlineMP, "max": _solver_max}}, witness=witness,
                      neg_control=False, tv=True, max_paths=8, weight=max(30, N // 20), dtype_variants=False,
                      functions=["NonlocalGame.classical_value (dispatch of strategy indices; process_iteration as uninterpreted i -> t_i; "
                                 "multiprocessing.Pool as in-process stub)"])

class LargeGameValue(Task):
    """classical_value of a GENERIC large game (0/1 predicate and dyadic weights from a seeded generator; no perfect strategy) through the
    public API with nothing stubbed, against the harness' own exhaustive enumeration of one player's answer functions (the other
    player's best response is a per-question maximum, which is exact).  Complements the dispatch obligation, whose witnesses are
    games with a perfect strategy: an implementation that maximises per question over a block of strategies over-estimates only
    on games where no single strategy is best for every question (round-6 seed)."""
    engine = "concrete-instance (real function vs exhaustive enumeration written in the harness)"
    weight = 40

    def __init__(self, A, B, X, Y, seed0):
        super().__init__("classical_value.large_generic_game_equals_exhaustive_enumeration", {"alice_out": A, "bob_out": B, "alice_in": X, "bob_in": Y,
                                                                                             "enumerated_strategies": min(A ** X, B ** Y), "generator_seed": seed0})
        self.shape, self.seed0 = (A, B, X, Y), seed0

    def _game(self):
        A, B, X, Y = self.shape
        rng = np.random.default_rng(self.seed0)
        V = rng.integers(0, 2, size=(A, B, X, Y)).astype(float)
        w = rng.integers(1, 5, size=(X, Y)).astype(float)
        return w / w.sum(), V

    def _expected(self, p, V):
        A, B, X, Y = self.shape
        W = p[None, None, :, :] * V
        if A ** X > B ** Y:                                   # enumerate Bob instead: exchange the roles
            W = W.transpose(1, 0, 3, 2)
            A, B, X, Y = B, A, Y, X
        best = -1.0
        N = A ** X
        for start in range(0, N, 4096):
            idx = np.arange(start, min(N, start + 4096))
            digs = np.stack([(idx // A ** (X - 1 - j)) % A for j in range(X)], axis=1)            # (n, X)
            S = np.zeros((len(idx), B, Y))
            for x in range(X):
                S += W[digs[:, x], :, x, :]
            best = max(best, float(S.max(axis=1).sum(axis=1).max()))
        return best

    def _run(self, rec, seed):
        import multiprocessing
        multiprocessing.current_process()._config["daemon"] = False
        p, V = self._game()
        want = self._expected(p, V)
        got = float(NonlocalGame(p.copy(), V.copy()).classical_value())
        rec["reachable"] = True
        if abs(got - want) <= 1e-9:
            rec["status"] = "discharged"
        else:
            rec["status"] = "violation"
            rec["violation"] = {"source": "real classical_value differs from exhaustive enumeration (reproduced)", "inputs": self.cfg, "actual": got, "expected": want}

    def replay(self, rp):
        p, V = self._game()
        got, want = float(NonlocalGame(p.copy(), V.copy()).classical_value()), self._expected(p, V)
        print({"actual": got, "expected": want})
        return abs(got - want) <= 1e-9


def ob_product(A, B, X, Y, reps_type="int"):
    cfg = {"alice_out": A, "bob_out": B, "alice_in": X, "bob_in": Y, "reps": 2}
    if reps_type != "int":
        cfg["reps_given_as"] = reps_type

    def build(b):
        return {"p": b.array("p", (X, Y), "r"), "V": b.array("V", (A, B, X, Y), "r")}

    def call(i):
        g = NonlocalGame(i["p"], i["V"], reps=2 if reps_type == "int" else getattr(np, reps_type)(2))
        return [np.asarray(g.prob_mat), np.asarray(g.pred_mat)]

    def oracle(i):
        p, V = np.asarray(i["p"]), np.asarray(i["V"])
        P2 = np.empty((X * X, Y * Y), dtype=object)
        V2 = np.empty((A * A, B * B, X * X, Y * Y), dtype=object)
        for x1, x2, y1, y2 in itertools.product(range(X), range(X), range(Y), range(Y)):
            P2[x1 * X + x2, y1 * Y + y2] = p[x1, y1] * p[x2, y2]
            for a1, a2, b1, b2 in itertools.product(range(A), range(A), range(B), range(B)):
                V2[a1 * A + a2, b1 * B + b2, x1 * X + x2, y1 * Y + y2] = V[a1, b1, x1, y1] * V[a2, b2, x2, y2]
        return [P2, V2]
    return Obligation("product_game.two_repetitions_is_kronecker_product_game", cfg, build, call, oracle, objzeros=(NG,))


class BcsEnumeration(Task):
    engine = "enumeration"

    def __init__(self, n_constraints, n_vars):
        super().__init__("from_bcs_game.scores_exactly_satisfying_consistent_assignments", {"constraints": n_constraints, "variables": n_vars,
                                                                                          "note": "complete enumeration of all 0/1 constraint tensors (finite space); no solver content"})
        self.nc, self.nv = n_constraints, n_vars

    def _run(self, rec, seed):
        nc, nv = self.nc, self.nv
        cells = 2 ** nv
        count = 0
        for bits in itertools.product([0, 1], repeat=nc * cells):
            cons = [np.array(bits[k * cells:(k + 1) * cells], dtype=float).reshape((2,) * nv) for k in range(nc)]
            dep = [[bool(np.diff(c, axis=i).any()) for i in range(nv)] for c in cons]
            if any(not any(d) for d in dep):
                continue        # a constant constraint depends on no variable: the question distribution is undefined (0/0); outside
            g = NonlocalGame.from_bcs_game([c.copy() for c in cons])
            P = np.zeros((nc, nv))
            V = np.zeros((2 ** nv, 2, nc, nv))
            for x in range(nc):
                nd = sum(dep[x])
                for y in range(nv):
                    P[x, y] = (1.0 / nc) * ((1.0 / nd) if dep[x][y] else 0.0)
                for a in range(2 ** nv):
                    assign = tuple((a >> (nv - 1 - t)) & 1 for t in range(nv))
                    for y in range(nv):
                        if cons[x][assign] == 1:
                            V[a, assign[y], x, y] = 1
            count += 1
            if not (np.allclose(g.prob_mat, P) and np.array_equal(g.pred_mat, V)):
                rec["status"] = "violation"
                rec["violation"] = {"source": "enumeration", "inputs": {"constraints": [c.tolist() for c in cons]},
                                    "actual": [np.asarray(g.prob_mat).tolist()], "expected": [P.tolist()]}
                return
        rec["status"] = "discharged"
        rec["evaluations"] = count
        rec["notes"].append(f"{count} tensors enumerated")

    def replay(self, rp):
        cons = [np.array(c) for c in rp["violation"]["inputs"]["constraints"]]
        g = NonlocalGame.from_bcs_game(cons)
        print(np.asarray(g.prob_mat).tolist())
        return False


# ---- E2: certificates on the real NPA / NS programs -----------------------------------------------
def game_instance(A, B, X, Y):
    """a generic dyadic game of the shape (distinct predicate values so that any index mix-up shows)"""
    n = X * Y
    w = np.arange(1, n + 1, dtype=float)
    # dyadic distribution: weights 1/2^k padded
    p = np.array([2.0 ** -(k + 1) for k in range(n)])
    p[-1] = 2.0 ** -(n - 1) if n > 1 else 1.0
    p = p.reshape(X, Y)
    V = np.zeros((A, B, X, Y))
    c = 0
    for a, b, x, y in itertools.product(range(A), range(B), range(X), range(Y)):
        V[a, b, x, y] = ((c * 7) % 16) / 16.0
        c += 1
    return p, V


def game_after(p, V, history=()):
    """a game object on which the listed value methods have already been called (the captured program must still be the one of
    the game the object was constructed with: the methods may not alter the object's state)"""
    g = NonlocalGame(np.array(p, dtype=float), np.array(V, dtype=float))
    for m in history:
        getattr(g, m)()
    return g


class NpaTask(Task):
    engine = "E2-sdpcap (T3 certificates in z3)"
    weight = 20

    def __init__(self, shape, k, kind, k_hi=None, history=(), game=None, game_name=None):
        name = {"classical_le_npa": "npa.every_deterministic_strategy_is_feasible_with_its_own_value",
                "npa_implies_ns": "npa.constraints_imply_nonsignalling_box",
                "level_monotone": "npa.higher_level_equalities_imply_lower_level_ones"}[kind]
        cfg = {"shape_A_B_X_Y": list(shape), "k": k}
        if k_hi is not None:
            cfg["k_higher"] = k_hi
        if history:
            cfg["earlier_calls_on_the_same_object"] = list(history)
        if game_name:
            cfg["game"] = game_name
        super().__init__(name, cfg)
        self.shape, self.k, self.kind, self.k_hi, self.history, self.game = shape, k, kind, k_hi, tuple(history), game

    def _capture(self, k):
        A, B, X, Y = self.shape
        p, V = self.game() if self.game else game_instance(A, B, X, Y)
        cap = capture_call(lambda: game_after(p, V, self.history).commuting_measurement_value_upper_bound(k))
        prog = extract(cap)
        return prog, p, V

    def _vars(self, prog):
        A, B, X, Y = self.shape
        Ms = {}
        R = None
        for vi, v in enumerate(prog.vars):
            if v.name == "R":
                R = vi
            elif v.name.startswith("M(a, b | "):
                x, y = [int(t) for t in v.name[len("M(a, b | "):-1].split(",")]
                Ms[(x, y)] = vi
        return Ms, R

    def _run(self, rec, seed):
        from toqito.helper.npa_hierarchy import _gen_words
        A, B, X, Y = self.shape
        try:
            prog, p, V = self._capture(self.k)
        except Exception as e:  # noqa: BLE001 - the real code failed while building the relaxation
            try:
                self._capture(self.k)
                rec["notes"].append(f"exception while building the program did not reproduce: {type(e).__name__}: {e}")
            except Exception as e2:  # noqa: BLE001
                rec["status"] = "violation"
                rec["violation"] = {"source": "the real function raises before reaching the solver (reproduced)", "inputs": jsonable(self.cfg),
                                    "exception": f"{type(e2).__name__}: {str(e2)[:300]}"}
            return
        rec["programs"] = 1
        rec["program"] = prog.summary()["constraints"]
        Ms, Ri = self._vars(prog)
        words = _gen_words(self.k, A, X, B, Y)
        t0 = time.time()
        if self.kind == "classical_le_npa":
            f = [z3.Int(f"f{x}") for x in range(X)]
            g = [z3.Int(f"g{y}") for y in range(Y)]
            dom = [z3.And(v >= 0, v < A) for v in f] + [z3.And(v >= 0, v < B) for v in g]

            def ind(c):
                return z3.If(c, z3.RealVal(1), z3.RealVal(0))

            def wv(word):
                conds = []
                for s in word:
                    if s.player == "Alice":
                        conds.append(f[s.question] == s.answer)
                    elif s.player == "Bob":
                        conds.append(g[s.question] == s.answer)
                return z3.And(*conds) if conds else z3.BoolVal(True)
            coordvals = [None] * len(prog.vars)
            for (x, y), vi in Ms.items():
                mat = [[ind(z3.And(f[x] == a, g[y] == b)) for b in range(B)] for a in range(A)]
                coordvals[vi] = coord_values(prog.vars[vi], mat)
            n = len(words)
            Rm = [[ind(z3.And(wv(words[i]), wv(words[j]))) for j in range(n)] for i in range(n)]
            coordvals[Ri] = coord_values(prog.vars[Ri], Rm, [[z3.RealVal(0)] * n for _ in range(n)])
            conj, psd_list, _ = linear_constraints(prog, coordvals)
            # the only matrix PSD constraint is R >= 0 and R = v v^T by construction (checked: it is the variable itself)
            obj = objective_term(prog, coordvals)
            val = z3.Sum([rv(p[x, y] * V[a, b, x, y]) * ind(z3.And(f[x] == a, g[y] == b))
                          for a, b, x, y in itertools.product(range(A), range(B), range(X), range(Y))])
            goal = z3.And(z3.And(*conj), obj == val)
            r, m = prove(z3.Not(goal), dom)
            rec["queries"] = 1
            # negative control: a strategy-independent wrong value must be refuted
            r2, _ = prove(z3.Not(obj == val + 1), dom)
            rec["neg_control"] = r2 == "sat"
            r3, _ = prove(z3.BoolVal(True), dom)
            rec["reachable"] = r3 == "sat"
            rec["queries"] += 2
            ok_psd = len(psd_list) == 1
            if r == "unsat" and ok_psd and rec["neg_control"]:
                rec["status"] = "discharged"
            elif r == "sat":
                fv = [m.eval(v, model_completion=True).as_long() for v in f]
                gv = [m.eval(v, model_completion=True).as_long() for v in g]
                self._replay_strategy(rec, prog, p, V, fv, gv, words)
            else:
                rec["notes"].append(f"solver {r}; matrix PSD constraints: {len(psd_list)}")
        elif self.kind == "npa_implies_ns":
            coordvals = [[z3.Real(f"c{vi}_{k}") for k in range(len(v.basis))] for vi, v in enumerate(prog.vars)]
            conj, psd_list, _ = linear_constraints(prog, coordvals)
            Mv = {}
            for (x, y), vi in Ms.items():
                Mv[(x, y)] = [[coordvals[vi][a * B + b] for b in range(B)] for a in range(A)]
            ns = []
            for x, y in itertools.product(range(X), range(Y)):
                ns += [Mv[(x, y)][a][b] >= 0 for a in range(A) for b in range(B)]
                ns.append(z3.Sum([Mv[(x, y)][a][b] for a in range(A) for b in range(B)]) == 1)
            for x, a in itertools.product(range(X), range(A)):
                for y in range(1, Y):
                    ns.append(z3.Sum(Mv[(x, y)][a]) == z3.Sum(Mv[(x, 0)][a]))
            for y, b in itertools.product(range(Y), range(B)):
                for x in range(1, X):
                    ns.append(z3.Sum([Mv[(x, y)][a][b] for a in range(A)]) == z3.Sum([Mv[(0, y)][a][b] for a in range(A)]))
            r, m = prove(z3.Not(z3.And(*ns)), conj)
            r2, _ = prove(z3.Not(z3.And(*(ns + [Mv[(0, 0)][0][0] == 2]))), conj)   # negative control
            r3, _ = prove(z3.BoolVal(True), conj)
            rec["queries"] = 3
            rec["neg_control"], rec["reachable"] = r2 == "sat", r3 == "sat"
            if r == "unsat" and r2 == "sat" and r3 == "sat":
                rec["status"] = "discharged"
            else:
                rec["notes"].append(f"solver {r}")
                if r == "sat":
                    rec["status"] = "violation"
                    rec["violation"] = {"source": "solver model: a point satisfying every generated NPA equality that is not a non-signalling box",
                                        "inputs": {"shape": list(self.shape), "k": self.k}, "model": str(m)[:1500]}
        else:  # level_monotone: feasible_eq(k_hi)(M, R') => feasible_eq(k)(M, R'[idx, idx])
            prog_hi, _, _ = self._capture(self.k_hi)
            rec["programs"] = 2
            Ms_hi, Ri_hi = self._vars(prog_hi)
            words_hi = _gen_words(self.k_hi, A, X, B, Y)
            pos = {w: i for i, w in enumerate(words_hi)}
            if any(w not in pos for w in words):
                rec["notes"].append("lower-level words are not a subset of the higher level's words")
                return
            idx = [pos[w] for w in words]
            cv_hi = [[z3.Real(f"h{vi}_{k}") for k in range(len(v.basis))] for vi, v in enumerate(prog_hi.vars)]
            conj_hi, _, _ = linear_constraints(prog_hi, cv_hi)
            # matrices of the high level point
            nh = len(words_hi)
            Rre = [[None] * nh for _ in range(nh)]
            Rim = [[None] * nh for _ in range(nh)]
            for (kind, i, j), c in zip([b[0] for b in prog_hi.vars[Ri_hi].basis], cv_hi[Ri_hi]):
                if kind == "r":
                    Rre[i][j] = Rre[j][i] = c
                    if Rim[i][j] is None:
                        Rim[i][j] = Rim[j][i] = z3.RealVal(0)
                else:
                    Rim[i][j] = c
                    Rim[j][i] = -c
            sub_re = [[Rre[a][b] for b in idx] for a in idx]
            sub_im = [[Rim[a][b] for b in idx] for a in idx]
            cv_lo = [None] * len(prog.vars)
            for (x, y), vi in Ms.items():
                cv_lo[vi] = cv_hi[Ms_hi[(x, y)]]
            cv_lo[Ri] = coord_values(prog.vars[Ri], sub_re, sub_im)
            conj_lo, _, _ = linear_constraints(prog, cv_lo)
            r, m = prove(z3.Not(z3.And(*conj_lo)), conj_hi)
            r2, _ = prove(z3.Not(z3.And(*(conj_lo + [sub_re[0][0] == 2]))), conj_hi)
            r3, _ = prove(z3.BoolVal(True), conj_hi)
            rec["queries"] = 3
            rec["neg_control"], rec["reachable"] = r2 == "sat", r3 == "sat"
            if r == "unsat" and r2 == "sat" and r3 == "sat":
                rec["status"] = "discharged"
            else:
                rec["notes"].append(f"solver {r}")
        rec["solver_s"] = round(time.time() - t0, 3)

    def _replay_strategy(self, rec, prog, p, V, fv, gv, words):
        """numeric replay: is the deterministic strategy infeasible for the REAL constraint list / does the objective differ?"""
        import cvxpy
        A, B, X, Y = self.shape
        g = game_after(p, V, self.history)
        cap = capture_call(lambda: g.commuting_measurement_value_upper_bound(self.k))
        problem = cap.problem
        for v in problem.variables():
            if v.name() == "R":
                vec = np.array([all((fv[s.question] == s.answer) if s.player == "Alice" else (gv[s.question] == s.answer) for s in w if s.player) for w in words], dtype=float)
                v.value = np.outer(vec, vec).astype(complex)
            else:
                x, y = [int(t) for t in v.name()[len("M(a, b | "):-1].split(",")]
                m = np.zeros((A, B))
                m[fv[x], gv[y]] = 1
                v.value = m
        viol = max(float(np.max(np.abs(c.violation()))) for c in problem.constraints)
        val = sum(p[x, y] * V[fv[x], gv[y], x, y] for x in range(X) for y in range(Y))
        objv = float(np.real(problem.objective.expr.value))
        rec["disagreements_checked"] = 1
        if viol > 1e-9 or abs(objv - val) > 1e-9:
            rec["status"] = "violation"
            rec["violation"] = {"source": "solver model replayed on the real cvxpy constraint objects", "inputs": {"shape": list(self.shape), "k": self.k, "f": fv, "g": gv},
                                "actual": {"max_constraint_violation": viol, "objective": objv}, "expected": {"max_constraint_violation": 0, "objective": val}}
        else:
            rec["status"] = "error"
            rec["notes"].append("model did not reproduce on the real constraint objects")


class NsProgramTask(Task):
    """nonsignaling_value's program == LP over non-signalling boxes (both embeddings)"""
    engine = "E2-sdpcap (T3 certificates in z3)"
    weight = 10

    def __init__(self, shape, history=()):
        cfg = {"shape_A_B_X_Y": list(shape)}
        if history:
            cfg["earlier_calls_on_the_same_object"] = list(history)
        super().__init__("nonsignaling_value.program_is_lp_over_nonsignalling_boxes", cfg)
        self.shape, self.history = shape, tuple(history)

    def _run(self, rec, seed):
        A, B, X, Y = self.shape
        p, V = game_instance(A, B, X, Y)
        cap = capture_call(lambda: game_after(p, V, self.history).nonsignaling_value())
        prog = extract(cap)
        rec["programs"] = 1
        # variable order: K[a,b,x,y] (creation order a,b,x,y), sigma[a,x], rho[b,y], tau
        nK = A * B * X * Y
        vs = prog.vars
        if len(vs) != nK + A * X + B * Y + 1:
            rec["notes"].append(f"unexpected variable count {len(vs)}")
            return
        kidx = {}
        c = 0
        for a, b, x, y in itertools.product(range(A), range(B), range(X), range(Y)):
            kidx[(a, b, x, y)] = c
            c += 1
        sidx = {(a, x): nK + k for k, (a, x) in enumerate(itertools.product(range(A), range(X)))}
        ridx = {(b, y): nK + A * X + k for k, (b, y) in enumerate(itertools.product(range(B), range(Y)))}
        tidx = nK + A * X + B * Y
        t0 = time.time()
        # (i) every NS box q embeds: K = q * diag(1,0), sigma/rho marginals * diag(1,0), tau = diag(1,0)
        q = {k: z3.Real(f"q_{k[0]}{k[1]}{k[2]}{k[3]}") for k in kidx}
        ns = [v >= 0 for v in q.values()]
        for x, y in itertools.product(range(X), range(Y)):
            ns.append(z3.Sum([q[(a, b, x, y)] for a in range(A) for b in range(B)]) == 1)
        margA = {(a, x): z3.Sum([q[(a, b, x, 0)] for b in range(B)]) for a in range(A) for x in range(X)}
        margB = {(b, y): z3.Sum([q[(a, b, 0, y)] for a in range(A)]) for b in range(B) for y in range(Y)}
        for a, x in itertools.product(range(A), range(X)):
            for y in range(1, Y):
                ns.append(z3.Sum([q[(a, b, x, y)] for b in range(B)]) == margA[(a, x)])
        for b, y in itertools.product(range(B), range(Y)):
            for x in range(1, X):
                ns.append(z3.Sum([q[(a, b, x, y)] for a in range(A)]) == margB[(b, y)])

        def diag10(s):
            return [[s, z3.RealVal(0)], [z3.RealVal(0), z3.RealVal(0)]], [[z3.RealVal(0)] * 2, [z3.RealVal(0)] * 2]
        cv = [None] * len(vs)
        for k, vi in kidx.items():
            cv[vi] = coord_values(vs[vi], *diag10(q[k]))
        for k, vi in sidx.items():
            cv[vi] = coord_values(vs[vi], *diag10(margA[k]))
        for k, vi in ridx.items():
            cv[vi] = coord_values(vs[vi], *diag10(margB[k]))
        cv[tidx] = coord_values(vs[tidx], *diag10(z3.RealVal(1)))
        conj, psd_list, _ = linear_constraints(prog, cv)
        obj = objective_term(prog, cv)
        val = z3.Sum([rv(p[x, y] * V[a, b, x, y]) * q[(a, b, x, y)] for (a, b, x, y) in kidx])
        # PSD constraints at the embedded point are s*diag(1,0) with s >= 0: check each is of that form with a non-negative scalar
        psd_ok = []
        for re, im in psd_list:
            psd_ok += [re[0, 0] >= 0, re[0, 1] == 0, re[1, 0] == 0, re[1, 1] == 0] + [im[i, j] == 0 for i in range(2) for j in range(2)]
        r1, m1 = prove(z3.Not(z3.And(z3.And(*conj), z3.And(*psd_ok), obj == val)), ns)
        # (ii) every feasible point gives the NS box q' = tr K with the same objective (uses: diagonal of a PSD matrix >= 0)
        cv2 = [[z3.Real(f"u{vi}_{k}") for k in range(len(v.basis))] for vi, v in enumerate(vs)]
        conj2, psd2, lem2 = linear_constraints(prog, cv2, psd_diag_lemma=True)

        def trace_of(vi):
            vals = {b[0]: c for b, c in zip(vs[vi].basis, cv2[vi])}
            return vals[("r", 0, 0)] + vals[("r", 1, 1)]
        qq = {k: trace_of(vi) for k, vi in kidx.items()}
        ns2 = [v >= 0 for v in qq.values()]
        for x, y in itertools.product(range(X), range(Y)):
            ns2.append(z3.Sum([qq[(a, b, x, y)] for a in range(A) for b in range(B)]) == 1)
        for a, x in itertools.product(range(A), range(X)):
            for y in range(1, Y):
                ns2.append(z3.Sum([qq[(a, b, x, y)] for b in range(B)]) == z3.Sum([qq[(a, b, x, 0)] for b in range(B)]))
        for b, y in itertools.product(range(B), range(Y)):
            for x in range(1, X):
                ns2.append(z3.Sum([qq[(a, b, x, y)] for a in range(A)]) == z3.Sum([qq[(a, b, 0, y)] for a in range(A)]))
        obj2 = objective_term(prog, cv2)
        val2 = z3.Sum([rv(p[x, y] * V[a, b, x, y]) * qq[(a, b, x, y)] for (a, b, x, y) in kidx])
        r2, m2 = prove(z3.Not(z3.And(z3.And(*ns2), obj2 == val2)), conj2 + lem2)
        rn, _ = prove(z3.Not(obj2 == val2 + 1), conj2 + lem2)       # negative control
        rr, _ = prove(z3.BoolVal(True), conj2 + lem2)
        rec["queries"] = 4
        rec["neg_control"], rec["reachable"] = rn == "sat", rr == "sat"
        rec["solver_s"] = round(time.time() - t0, 3)
        if r1 == "unsat" and r2 == "unsat" and rn == "sat" and rr == "sat":
            rec["status"] = "discharged"
        else:
            rec["notes"].append(f"box->program: {r1}; program->box: {r2}")
            if "sat" in (r1, r2):
                # replay: solve the real program and the LP and compare
                import cvxpy
                got = float(game_after(p, V, self.history).nonsignaling_value())
                qv = cvxpy.Variable(len(kidx), nonneg=True)
                keys = list(kidx)
                pos = {k: i for i, k in enumerate(keys)}
                cons = []
                for x, y in itertools.product(range(X), range(Y)):
                    cons.append(sum(qv[pos[(a, b, x, y)]] for a in range(A) for b in range(B)) == 1)
                for a, x in itertools.product(range(A), range(X)):
                    for y in range(1, Y):
                        cons.append(sum(qv[pos[(a, b, x, y)]] for b in range(B)) == sum(qv[pos[(a, b, x, 0)]] for b in range(B)))
                for b, y in itertools.product(range(B), range(Y)):
                    for x in range(1, X):
                        cons.append(sum(qv[pos[(a, b, x, y)]] for a in range(A)) == sum(qv[pos[(a, b, 0, y)]] for a in range(A)))
                want = float(cvxpy.Problem(cvxpy.Maximize(sum(p[k[2], k[3]] * V[k] * qv[pos[k]] for k in keys)), cons).solve())
                rec["disagreements_checked"] = 1
                if abs(got - want) > 2e-4:
                    rec["status"] = "violation"
                    rec["violation"] = {"source": "certificate failed; reproduced numerically", "inputs": {"shape": list(self.shape)}, "actual": got, "expected": want}


# ---- see-saw programs -------------------------------------------------------------------------------
def dyadic_povm(dim, n_in, n_out):
    """dim x dim x inputs x outputs array of dyadic POVM elements (not projective, input dependent)"""
    out = np.zeros((dim, dim, n_in, n_out), dtype=complex)
    for y in range(n_in):
        rest = np.eye(dim, dtype=complex)
        for b in range(n_out - 1):
            E = np.zeros((dim, dim), dtype=complex)
            E[b % dim, b % dim] = 0.5 if y % 2 == 0 else 0.25
            if dim > 1 and y % 2 == 1:
                E[0, 1] += 0.125j
                E[1, 0] -= 0.125j
                E[1, 1] += 0.25
            out[:, :, y, b] = E
            rest = rest - E
        out[:, :, y, n_out - 1] = rest
    return out


def see_saw_task(shape, who):
    A, B, X, Y = shape
    p, V = game_instance(A, B, X, Y)
    dim = 2
    cfg = {"shape_A_B_X_Y": list(shape), "optimise": who, "local_dim": dim}
    import toqito.nonlocal_games.nonlocal_game as ngm  # noqa: F401  (module object is in sys.modules)
    import sys
    mod = sys.modules[NG]
    bob = dyadic_povm(dim, Y, B)
    alice = dyadic_povm(dim, X, A)

    def call():
        orig = mod.random_povm
        mod.random_povm = lambda d, ni, no: bob
        try:
            if who == "alice":
                return NonlocalGame(p, V).quantum_value_lower_bound(dim=dim, iters=1)
            # Bob's program is the second solve; the first one is replaced by assigning dyadic POVMs to Alice's variables
            import cvxpy
            o = cvxpy.Problem.solve
            state = {"n": 0}

            def first(self, *a, **k):
                state["n"] += 1
                if state["n"] == 1:
                    hv = sorted([v for v in self.variables()], key=lambda v: v.id)
                    # creation order: alice_povms[x, a] for x, a ... then tau
                    c = 0
                    for x in range(X):
                        for a_ in range(A):
                            hv[c].value = alice[:, :, x, a_]
                            c += 1
                    hv[c].value = np.eye(dim, dtype=complex)
                    return 0.0
                return cur_solve(self, *a, **k)
            cur_solve = cvxpy.Problem.solve
            cvxpy.Problem.solve = first
            try:
                return NonlocalGame(p, V).quantum_value_lower_bound(dim=dim, iters=1)
            finally:
                cvxpy.Problem.solve = cur_solve
        finally:
            mod.random_povm = orig

    def reference(Vm, inst):
        mats = [Vm.herm(i) for i in range(len(Vm))]      # textbook domain: complex Hermitian POVM elements
        cons = []
        obj = 0
        if who == "alice":
            Av = {}
            c = 0
            for x in range(X):
                for a_ in range(A):
                    Av[(x, a_)] = np.asarray(mats[c])
                    c += 1
            tau = np.asarray(mats[c])
            for x in range(X):
                tot = None
                for a_ in range(A):
                    cons.append(("psd", Av[(x, a_)]))
                    tot = Av[(x, a_)] if tot is None else tot + Av[(x, a_)]
                cons.append(("eq", tot - tau))
            cons.append(("eq", np.array([[tr(tau) - 1]], dtype=object)))
            cons.append(("psd", tau))
            for x, y, a_, b_ in itertools.product(range(X), range(Y), range(A), range(B)):
                obj = obj + float(p[x, y] * V[a_, b_, x, y]) * tr(bob[:, :, y, b_].conj().T @ Av[(x, a_)])
        else:
            Bv = {}
            c = 0
            for y in range(Y):
                for b_ in range(B):
                    Bv[(y, b_)] = np.asarray(mats[c])
                    c += 1
            for y in range(Y):
                tot = None
                for b_ in range(B):
                    cons.append(("psd", Bv[(y, b_)]))
                    tot = Bv[(y, b_)] if tot is None else tot + Bv[(y, b_)]
                cons.append(("eq", tot - np.identity(dim)))
            for x, y, a_, b_ in itertools.product(range(X), range(Y), range(A), range(B)):
                obj = obj + float(p[x, y] * V[a_, b_, x, y]) * tr(Bv[(y, b_)].conj().T @ alice[:, :, x, a_])
        return SymProgram("max", np.array([[lift(obj).real]], dtype=object), cons)
    t = SdpTask("see_saw.program_is_textbook_povm_optimisation", cfg, call, reference, instance=None,
                abort_after=1, value_of=lambda r: float(r))
    return t


class OdometerCrossHair(Task):
    """update_odometer (list form) is the mixed-radix successor: CrossHair (symbolic execution of the real function + z3)"""
    engine = "E3-crosshair"
    weight = 500

    def __init__(self, timeout):
        super().__init__("update_odometer.is_mixed_radix_successor_crosshair", {"contract_file": "contracts/c07_update_odometer.py",
                                                                               "bounds": "length 2 (radices 1..4) and length 3 (radices 1..3), all digit values", "per_condition_timeout_s": timeout})
        self.timeout = timeout
        self.wall_cap_s = 5 * timeout + 120

    def _run(self, rec, seed):
        import os
        import subprocess
        import sys as _sys
        from props.c18 import counterexample_args, parse_crosshair
        from props.runner import VERIF
        from toqito.helper import update_odometer
        path = os.path.join(VERIF, "contracts", "c07_update_odometer.py")
        py = os.path.join(VERIF, ".venv", "bin", "python")
        if not os.path.exists(py):
            py = _sys.executable
        t0 = time.time()
        pr = subprocess.run([py, "-m", "crosshair", "check", "--report_all", "--per_condition_timeout", str(self.timeout), path],
                            capture_output=True, text=True, cwd=VERIF, timeout=self.wall_cap_s)
        res = parse_crosshair(pr.stdout + "\n" + pr.stderr, path)
        rec["solver_s"] = round(time.time() - t0, 2)
        rec["queries"] = len(res)
        rec["crosshair"] = {k: f"{v[0]}: {v[1][:140]}" for k, v in res.items()}
        rec["reachable"] = res.get("reachability_twin", ("", ""))[0] == "counterexample"
        rec["neg_control"] = res.get("negative_control", ("", ""))[0] == "counterexample"
        mains = ["successor_len2", "successor_len3"]
        for nm in mains:
            kind, msg = res.get(nm, ("missing", ""))
            if kind == "counterexample":
                xs = counterexample_args(msg)
                rec["disagreements_checked"] = 1
                if xs:
                    k = len(xs) // 2
                    ind, lim = list(xs[:k]), list(xs[k:])
                    got = list(update_odometer(list(ind), list(lim)))
                    val = lambda v: sum(d * prod(lim[i + 1:]) for i, d in enumerate(v))   # noqa: E731
                    if val(got) != (val(ind) + 1) % prod(lim):
                        rec["status"] = "violation"
                        rec["violation"] = {"source": "CrossHair counterexample, replayed", "inputs": {"ind": ind, "lim": lim}, "actual": got,
                                            "expected": "mixed-radix successor"}
                        return
                rec["notes"].append(f"{nm}: counterexample did not reproduce / not parseable: {msg[:160]}")
                return
            if kind != "confirmed":
                rec["notes"].append(f"{nm}: {kind} {msg[:160]}")
                return
        if rec["reachable"] and rec["neg_control"]:
            rec["status"] = "discharged"
        else:
            rec["notes"].append("reachability twin / negative control not refuted")

    def replay(self, rp):
        from toqito.helper import update_odometer
        ind, lim = rp["violation"]["inputs"]["ind"], rp["violation"]["inputs"]["lim"]
        got = list(update_odometer(list(ind), list(lim)))
        val = lambda v: sum(d * prod(lim[i + 1:]) for i, d in enumerate(v))   # noqa: E731
        return val(got) == (val(ind) + 1) % prod(lim)


def obligations(tier):
    T = tier == "thorough"
    obs = [OdometerCrossHair(120 if T else 40)]
    # the enumerated side's strategies are compared with Python's max: 2^(n-1) feasible record patterns => n <= 9
    for A, B in itertools.product([2, 3] + ([4] if T else []), [2, 3] + ([4] if T else [])):
        for X, Y in itertools.product([1, 2, 3], [1, 2, 3]):
            if min(A ** X, B ** Y) <= 9 and A ** X * B ** Y <= (729 if T else 108) and X * Y <= 6:
                obs.append(ob_classical(A, B, X, Y))
    for sh in [(2, 2, 10, 10), (6, 6, 4, 4), (6, 3, 4, 7), (10, 10, 3, 3), (2, 2, 3, 9), (3, 2, 7, 11)] + ([(3, 6, 7, 4), (2, 2, 11, 11), (4, 5, 5, 5), (7, 2, 4, 12)] if T else []):
        obs.append(ob_classical_dispatch(*sh))
        obs.append(LargeGameValue(*sh, seed0=700 + sum(sh)))
    for sh in [(2, 2, 2, 2), (2, 3, 1, 2), (3, 2, 2, 1)] + ([(2, 3, 2, 2)] if T else []):
        obs.append(ob_product(*sh))
    obs.append(ob_product(2, 2, 2, 2, "int64"))
    obs.append(BcsEnumeration(2, 2))
    if T:
        obs.append(BcsEnumeration(3, 2))
        obs.append(BcsEnumeration(1, 3))
    # explicit QUANTUM strategies (non-commuting Gaussian-rational qubit measurements, symbolic shared state) are feasible for
    # the captured NPA program with their own value: quantum value <= NPA_k on CHSH (0.8535 achieved > 3/4 classical)
    for variant in ("chsh-real", "chsh-complex"):
        for k in (1, "1+ab", 2):
            obs.append(NpaQuantumTask(variant, k))
    shapes = [(2, 2, 2, 2), (2, 3, 2, 2), (3, 2, 1, 2), (2, 2, 3, 2), (2, 2, 2, 3), (2, 2, 2, 1)] + ([(2, 2, 3, 3), (2, 3, 1, 4)] if T else [])
    for sh in shapes:
        ks = [1, "1+ab"] + ([2] if (T or sh in [(2, 2, 2, 2), (3, 2, 1, 2)]) else [])
        for k in ks:
            obs.append(NpaTask(sh, k, "classical_le_npa"))
            obs.append(NpaTask(sh, k, "npa_implies_ns"))
        obs.append(NpaTask(sh, 1, "level_monotone", "1+ab"))
        if 2 in ks:
            obs.append(NpaTask(sh, "1+ab", "level_monotone", 2))
            obs.append(NpaTask(sh, 1, "level_monotone", 2))
        obs.append(NsProgramTask(sh))
    for sh in [(2, 2, 2, 2), (2, 3, 2, 2)] + ([(3, 2, 1, 2), (2, 2, 3, 2)] if T else []):
        obs.append(NsProgramTask(sh, history=("classical_value",)))
        obs.append(NpaTask(sh, 1, "classical_le_npa", history=("classical_value",)))
        obs.append(NpaTask(sh, 1, "npa_implies_ns", history=("classical_value", "classical_value")))
    for sh in [(2, 2, 2, 2), (3, 2, 2, 2)]:
        obs.append(see_saw_task(sh, "alice"))
        obs.append(see_saw_task(sh, "bob"))
    return obs
