"""C15 PPT and separability verdicts are sound."""
from __future__ import annotations

import math
from fractions import Fraction

import numpy as np

from symnp.array import SymArray, has_sym
from symnp.core import And, Or, SymBool
from symnp.harness import Obligation, eq, implies, is_symbolic
from toqito.state_props import in_separable_ball, is_npt, is_ppt

META = {
    "id": "C15",
    "level": "other",
    "files": ["toqito/state_props/is_ppt.py", "toqito/state_props/is_npt.py", "toqito/state_props/is_separable.py",
              "toqito/state_props/has_symmetric_extension.py", "toqito/state_props/in_separable_ball.py",
              "toqito/matrix_props/is_positive_semidefinite.py", "toqito/matrix_props/is_hermitian.py",
              "toqito/channels/partial_transpose.py", "toqito/channels/partial_trace.py", "toqito/channels/realignment.py",
              "toqito/perms/permute_systems.py", "toqito/matrix_props/trace_norm.py"],
    "functions": ["toqito.state_props.is_ppt", "toqito.state_props.is_npt", "toqito.state_props.in_separable_ball"],
    "explanation": "",
    "bounds": {"quick": "", "thorough": ""},
    "trusted_base": [],
    "outside_claim": [],
    "assumptions": ["floats modelled as reals"],
}

SQRT_EPS = float(np.sqrt(np.finfo(float).eps))   # the documented default tolerance of is_ppt
PSD_ATOL = 1e-8                                   # the documented default absolute tolerance of is_positive_semidefinite


# ---- polymorphic helpers (symbolic and numeric) ---------------------------------------------------
def conj_all(conds):
    conds = list(conds)
    if any(isinstance(c, SymBool) for c in conds):
        return And(*conds)
    return all(bool(c) for c in conds)


def disj_any(conds):
    conds = list(conds)
    if any(isinstance(c, SymBool) for c in conds):
        return Or(*conds)
    return any(bool(c) for c in conds)


def neg(c):
    return ~c if isinstance(c, SymBool) else (not bool(c))


def as_num(a):
    """object array without symbolic content -> float/complex ndarray (numeric replay); symbolic -> SymArray"""
    a = np.asarray(a)
    if a.dtype != object:
        return a
    if has_sym(a):
        return a.view(SymArray)
    try:
        return a.astype(float)
    except (TypeError, ValueError):
        return a.astype(complex)


def pt_explicit(rho, dA, dB, sys):
    """partial transpose on party `sys` (1 or 2) by the index map <ij|PT|kl> = <kj|rho|il> (sys 1), <il|rho|kj> (sys 2)"""
    rho = np.asarray(rho)
    n = dA * dB
    out = np.empty((n, n), dtype=object)
    for i in range(dA):
        for j in range(dB):
            for k in range(dA):
                for l in range(dB):
                    if sys == 1:
                        out[i * dB + j, k * dB + l] = rho[k * dB + j, i * dB + l]
                    else:
                        out[i * dB + j, k * dB + l] = rho[i * dB + l, k * dB + j]
    return as_num(out)


def eigs_h(m):
    """the Hermitian eigenvalue kernel (is_positive_semidefinite calls np.linalg.eigh: same uninterpreted eigenvalue symbols)"""
    return list(np.asarray(np.linalg.eigvalsh(m)).ravel())


def min_eig_at_least(m, thr):
    return conj_all([x >= thr for x in eigs_h(m)])


def dim_argument(form, dA, dB):
    return {"list": [dA, dB], "int": dA, "omitted": None}[form]


# ---- is_ppt / is_npt ------------------------------------------------------------------------------
def ob_ppt_general(dA, dB, sys, dim_form, tol_mode):
    """symbolic Hermitian rho; verdict == (min eigenvalue kernel of PT_sys(rho) >= -tol)"""
    cfg = {"dims": [dA, dB], "sys": sys, "dim_arg": dim_form, "tol": tol_mode}
    n = dA * dB
    consistent = not (dim_form == "omitted" and dA != dB)

    def build(b):
        d = {"rho": b.array("rho", (n, n), "h")}
        if tol_mode == "given":
            d["tol"] = b.real("tol")
        return d

    def tol_of(i):
        return i["tol"] if tol_mode == "given" else SQRT_EPS

    def call(i):
        dim = dim_argument(dim_form, dA, dB)
        if tol_mode == "given":
            return [is_ppt(i["rho"], sys, dim, i["tol"]), is_npt(i["rho"], sys, dim, i["tol"])]
        return [is_ppt(i["rho"], sys, dim), is_npt(i["rho"], sys, dim)]

    def oracle(i):
        e = min_eig_at_least(pt_explicit(i["rho"], dA, dB, sys), -tol_of(i))
        return [e, neg(e)]

    def exc_post(e, i):
        # only an omitted dim on unequal local dimensions may be rejected (documented: equal dimensions are assumed)
        return isinstance(e, ValueError) and not consistent

    def assume(i):
        return [i["tol"] > 0, i["tol"] <= 1] if tol_mode == "given" else []

    def valid(ni):
        return tol_mode != "given" or 0 < ni["tol"] <= 1
    return Obligation("is_ppt.verdict_is_min_eigenvalue_of_partial_transpose_above_minus_tol", cfg, build, call, oracle,
                      exc_post=exc_post, assume=assume, valid=valid, tv=False,
                      neg=lambda exp: [neg(exp[0]), exp[1]])


def householder(n):
    """rational orthogonal matrix I - 2 vv^T/(v^T v), v = (1,...,1)"""
    q = np.empty((n, n), dtype=object)
    for a in range(n):
        for c in range(n):
            q[a, c] = Fraction(int(a == c)) - Fraction(2, n)
    return q


def ob_ppt_spectral(dA, dB, sys, basis, tol_mode):
    """rho = PT_sys(Q diag(lam) Q^T) with a fixed rational orthogonal Q and symbolic lam: the spectrum of the partial transpose
    is lam (kernel contract stated for this matrix), so the verdict must be (min lam >= -tol)."""
    cfg = {"dims": [dA, dB], "sys": sys, "family": f"PT_sys(rho) = Q diag(lam) Q^T, Q = {basis}", "tol": tol_mode}
    n = dA * dB
    Q = householder(n) if basis == "householder(1..1)" else np.array([[Fraction(int(a == c)) for c in range(n)] for a in range(n)], dtype=object)

    def build(b):
        d = {"lam": [b.real(f"lam{k}") for k in range(n)]}
        if tol_mode == "given":
            d["tol"] = b.real("tol")
        return d

    def tol_of(i):
        return i["tol"] if tol_mode == "given" else SQRT_EPS

    def M_of(i):
        M = np.empty((n, n), dtype=object)
        for a in range(n):
            for c in range(n):
                tot = 0
                for k in range(n):
                    tot = tot + (Q[a, k] * Q[c, k]) * i["lam"][k]
                M[a, c] = tot
        return as_num(M)

    def rho_of(i):
        return pt_explicit(M_of(i), dA, dB, sys)    # the partial transpose is an involution

    def call(i):
        rho = rho_of(i)
        if tol_mode == "given":
            return [is_ppt(rho, sys, [dA, dB], i["tol"]), is_npt(rho, sys, [dA, dB], i["tol"])]
        return [is_ppt(rho, sys, [dA, dB]), is_npt(rho, sys, [dA, dB])]

    def oracle(i):
        e = conj_all([x >= -tol_of(i) for x in i["lam"]])
        return [e, neg(e)]

    def assume(i):
        # spectral theorem for this matrix: the Hermitian eigenvalue kernel returns lam in ascending order
        w = eigs_h(M_of(i))
        lam = i["lam"]
        facts = [w[k] <= w[k + 1] for k in range(n - 1)]
        facts += [Or(*[w[k].eq_solver(x) for x in lam]) for k in range(n)]
        facts += [Or(*[x.eq_solver(w[k]) for k in range(n)]) for x in lam]
        tot_w, tot_l = 0, 0
        for k in range(n):
            tot_w, tot_l = tot_w + w[k], tot_l + lam[k]
        facts.append(tot_w.eq_solver(tot_l))
        facts += [x <= 4 for x in lam] + [x >= -4 for x in lam]
        if tol_mode == "given":
            facts += [i["tol"] > 0, i["tol"] <= 1]
        return facts

    def valid(ni):
        return (tol_mode != "given" or 0 < ni["tol"] <= 1) and all(abs(x) <= 4 for x in ni["lam"])
    return Obligation("is_ppt.known_spectrum_family_threshold_is_tol", cfg, build, call, oracle, assume=assume, valid=valid,
                      tv=False, neg=lambda exp: [neg(exp[0]), exp[1]])


def obligations(tier):
    T = tier == "thorough"
    obs = []
    dims = [(2, 2), (2, 3), (3, 2)] + ([(3, 3), (2, 4)] if T else [])
    for dA, dB in dims:
        for sys in (1, 2):
            for form in ("list", "int", "omitted"):
                if form == "omitted" and dA != dB and (dA, dB) != (2, 3):
                    continue
                for tol_mode in ("default", "given"):
                    obs.append(ob_ppt_general(dA, dB, sys, form, tol_mode))
    for dA, dB in [(2, 2), (2, 3)] + ([(3, 3)] if T else []):
        for sys in (1, 2):
            for basis in ("identity", "householder(1..1)"):
                for tol_mode in ("default", "given"):
                    obs.append(ob_ppt_spectral(dA, dB, sys, basis, tol_mode))
    return obs
