"""C15 PPT and separability verdicts are sound."""
from __future__ import annotations

import itertools
import traceback
from fractions import Fraction

import numpy as np

from props.common import Task
from symnp.array import HANDLERS, SymArray, _EighResult, handles, has_sym, kernel, lifted, sarr
from symnp.core import And, Or, SymBool, as_z3, cur, lift
from symnp.harness import Obligation, eq, implies, is_symbolic, jsonable
from toqito.state_props import has_symmetric_extension, in_separable_ball, is_npt, is_ppt
from toqito.state_props.is_separable import is_separable

META = {
    "id": "C15",
    "level": "other",
    "files": ["toqito/state_props/is_ppt.py", "toqito/state_props/is_npt.py", "toqito/state_props/is_separable.py",
              "toqito/state_props/has_symmetric_extension.py", "toqito/state_props/in_separable_ball.py",
              "toqito/matrix_props/is_positive_semidefinite.py", "toqito/matrix_props/is_hermitian.py",
              "toqito/channels/partial_transpose.py", "toqito/channels/partial_trace.py", "toqito/channels/realignment.py",
              "toqito/perms/permute_systems.py", "toqito/perms/swap.py", "toqito/matrix_props/trace_norm.py",
              "toqito/state_props/schmidt_rank.py", "toqito/channel_ops/partial_channel.py"],
    "functions": ["toqito.state_props.is_ppt", "toqito.state_props.is_npt", "toqito.state_props.in_separable_ball",
                  "toqito.state_props.has_symmetric_extension", "toqito.state_props.is_separable"],
    "explanation": "Bounded symbolic execution of the real functions with every LAPACK kernel an uninterpreted function of its "
                   "argument's normal form (decided modulo kernel contracts). is_ppt/is_npt: for a symbolic Hermitian rho the verdict "
                   "is proved equivalent to 'every value of the Hermitian eigenvalue kernel applied to PT_sys(rho) is >= -tol', PT_sys "
                   "written with an explicit index map (congruence: same kernel symbols iff the argument is entry-wise the partial "
                   "transpose); a second family with known spectrum (PT_sys(rho) = Q diag(lam) Q^T, spectral theorem stated as the "
                   "kernel contract for that matrix) lets solver models of the tolerance test be replayed on the real code. "
                   "in_separable_ball: the returned test is proved equivalent to Tr(mat) >= n*eps and (n-1)*||mat||_F^2 <= Tr(mat)^2 "
                   "(Gurvits-Barnum: Tr(rho^2) <= 1/(n-1) for rho = mat/Tr mat), linear arithmetic plus five elementary lemmas "
                   "about 1/x and sqrt (cross-checked in genuine nonlinear arithmetic for small n). has_symmetric_extension: which "
                   "branch decides (level 1 / total dimension <= 6 => PPT and PSD kernel tests; 2 qubits without PPT => the closed "
                   "form Tr rho_B^2 >= Tr rho^2 - 4 sqrt(det rho); else the hierarchy value, an uninterpreted symbol). is_separable: "
                   "(i) for total dimension <= 6 the verdict equals the PPT kernel test on rho/Tr(rho); (ii) on every path where the "
                   "PPT kernel test fails by a margin the result is False; (iii) on the family of product mixtures "
                   "sum_k a_k a_k^dagger (x) b_k b_k^dagger (all entries of a_k, b_k symbolic; PSD-by-construction stated for the two "
                   "eigenvalue kernels) no feasible path may end in an exception: every line up to the spectrum sort (line 153) is "
                   "explored for all kernel outcomes; beyond it only the paths on which np.linalg.eig returns a real descending "
                   "spectrum are explored (an under-approximation: sound for finding reachable exceptions, every candidate is "
                   "replayed on concrete product mixtures; not a proof of absence). What symbolic execution cannot reach (argsort / "
                   "orth / the SDP) is covered by concrete-instance obligations on a deterministic, stated family of product "
                   "mixtures: these are executions of the real code, not solver proofs, and are labelled as such.",
    "bounds": {
        "quick": "is_ppt/is_npt: dims 2x2, 2x3, 3x2, party 1|2, dim as list / int / omitted, tol default / symbolic in (0,1]; "
                 "ball: n in {2,3,4,6} matrix (Hermitian, real symmetric) and eigenvalue vector; has_symmetric_extension: dims 2x2, 2x3, "
                 "3x2, 3x3, 2x4, level 1|2, ppt flag, dim as list / int / omitted; is_separable: Hermitian rho 2x2, 2x3, 3x2 "
                 "(agreement), + 3x3, 2x4, 4x2 (NPT => False); product mixtures K<=2 terms (real; complex K=1) 2x2, 2x3, 3x2, 2x4, 4x2, "
                 "3x3, 4x4 up to line 153, and 4x4 (one symbolic real term + fixed 4-term background) up to the positive maps; "
                 "concrete family K in {1,2,3,5,n+1}, real and complex, dims 2x2..4x4",
        "thorough": "adds is_ppt 3x3, 2x4; ball n = 8, 9; NPT => False for 4x4, 3x4; mixtures K = 3 (dims <= 6), complex K = 2 for 2x4/4x2, "
                    "3x4; concrete family dims 3x4, 4x3, 2x5",
    },
    "trusted_base": ["numpy object-array semantics = numeric semantics", "z3 5.1.0",
                     "kernel contracts used as assumptions: (a) spectral theorem for Q diag(lam) Q^T with the fixed rational orthogonal Q "
                     "of the cfg; (b) eigvalsh(M^T) = eigvalsh(M); (c) eigenvalue kernels of PSD-by-construction matrices "
                     "(sum_k v_k v_k^dagger (x) w_k w_k^dagger and its partial transpose) are >= 0; (d) np.linalg.eig of an exactly "
                     "real-symmetric matrix returns a real spectrum",
                     "elementary lemmas for the ball test (q>=0: q<=1 <=> q^2<=1; u=1/R, t=1/T: u*u*R=u, u*t*T=u; "
                     "u>=c <=> c*R<=1 for R>0,c>0; c*t^2*S<=1 <=> c*S<=T^2), each a consequence of the definitions; negative control "
                     "shows they are consistent",
                     "stub for picos.partial_trace(rho,[0]) on two qubits = trace over the first qubit (checked against picos at import)"],
    "outside_claim": ["soundness of each literature criterion used by is_separable after the PPT test (realignment, Zhang et al., spectrum, "
                      "Hildebrand, rank-4 3x3 determinant, Gurvits ball, Vidal-Tarrach, operator Schmidt rank, Ha-Kye and Breuer-Hall maps): "
                      "theorems evaluated through LAPACK, only exercised on the concrete family",
                      "invariance of the is_separable verdict under local unitaries and under exchanging the parties (similarity "
                      "invariance of kernels)",
                      "the value of the symmetric-extension SDP (uninterpreted); is_separable paths on which np.linalg.eig returns an "
                      "unsorted or complex spectrum beyond line 153",
                      "numerical accuracy of eigh/eig/svd/matrix_rank; dimensions above the bound"],
    "assumptions": ["floats modelled as reals", "states have non-zero trace"],
}

SQRT_EPS = float(np.sqrt(np.finfo(float).eps))   # the documented default tolerance of is_ppt
EPS = float(np.finfo(float).eps)
PSD_ATOL = 1e-8                                   # the documented default absolute tolerance of is_positive_semidefinite
SEP_TOL = 1e-8                                    # the documented default tolerance of is_separable
MARGIN = 1e-3                                     # relative margin around a documented threshold (floating point cannot sit on it)


# ---- polymorphic helpers (symbolic and numeric) ---------------------------------------------------
def conj_all(conds):
    conds = list(conds)
    if any(isinstance(c, SymBool) for c in conds):
        return And(*conds)
    return all(bool(c) for c in conds)


def disj_any(conds):
    conds = list(conds)
    if any(isinstance(c, SymBool) for c in conds):
        return Or(*conds)
    return any(bool(c) for c in conds)


def neg(c):
    return ~c if isinstance(c, SymBool) else (not bool(c))


def both(p, q):
    if isinstance(p, SymBool) or isinstance(q, SymBool):
        return SymBool(p) & SymBool(q)
    return bool(p) and bool(q)


def as_num(a):
    """object array without symbolic content -> float/complex ndarray (numeric replay); symbolic -> SymArray"""
    a = np.asarray(a)
    if a.dtype != object:
        return a
    if has_sym(a):
        return a.view(SymArray)
    try:
        return a.astype(float)
    except (TypeError, ValueError):
        return a.astype(complex)


def pt_explicit(rho, dA, dB, sys):
    """partial transpose on party `sys` (1 or 2) by the index map <ij|PT|kl> = <kj|rho|il> (sys 1), <il|rho|kj> (sys 2)"""
    rho = np.asarray(rho)
    n = dA * dB
    out = np.empty((n, n), dtype=object)
    for i in range(dA):
        for j in range(dB):
            for k in range(dA):
                for l in range(dB):
                    if sys == 1:
                        out[i * dB + j, k * dB + l] = rho[k * dB + j, i * dB + l]
                    else:
                        out[i * dB + j, k * dB + l] = rho[i * dB + l, k * dB + j]
    return as_num(out)


def trace_explicit(m):
    m = np.asarray(m)
    tot = 0
    for k in range(m.shape[0]):
        tot = tot + m[k, k]
    return tot


def normalised(rho):
    rho = np.asarray(rho)
    t = trace_explicit(rho)
    out = np.empty(rho.shape, dtype=object)
    for idx in np.ndindex(*rho.shape):
        out[idx] = rho[idx] / t
    return as_num(out)


def eigs_h(m):
    """the Hermitian eigenvalue kernel (is_positive_semidefinite calls np.linalg.eigh: same uninterpreted eigenvalue symbols)"""
    return list(np.asarray(np.linalg.eigvalsh(m)).ravel())


def all_eigs_at_least(m, thr):
    return conj_all([x >= thr for x in eigs_h(m)])


def some_eig_below(m, thr):
    return disj_any([x < thr for x in eigs_h(m)])


def dim_argument(form, dA, dB):
    return {"list": [dA, dB], "int": dA, "omitted": None}[form]


def householder(n):
    """rational orthogonal matrix I - 2 vv^T/(v^T v), v = (1,...,1)"""
    q = np.empty((n, n), dtype=object)
    for a in range(n):
        for c in range(n):
            q[a, c] = Fraction(int(a == c)) - Fraction(2, n)
    return q


def identity_q(n):
    return np.array([[Fraction(int(a == c)) for c in range(n)] for a in range(n)], dtype=object)


def q_diag_qt(Q, lam):
    n = len(lam)
    M = np.empty((n, n), dtype=object)
    for a in range(n):
        for c in range(n):
            tot = 0
            for k in range(n):
                tot = tot + (Q[a, k] * Q[c, k]) * lam[k]
            M[a, c] = tot
    return as_num(M)


# ---- is_ppt / is_npt ------------------------------------------------------------------------------
def ob_ppt_general(dA, dB, sys, dim_form, tol_mode):
    """symbolic Hermitian rho; verdict == (min eigenvalue kernel of PT_sys(rho) >= -tol)"""
    cfg = {"dims": [dA, dB], "sys": sys, "dim_arg": dim_form, "tol": tol_mode}
    n = dA * dB
    consistent = not (dim_form == "omitted" and dA != dB)

    def build(b):
        d = {"rho": b.array("rho", (n, n), "h")}
        if tol_mode == "given":
            d["tol"] = b.real("tol")
        return d

    def tol_of(i):
        return i["tol"] if tol_mode == "given" else SQRT_EPS

    def call(i):
        dim = dim_argument(dim_form, dA, dB)
        if tol_mode == "given":
            return [is_ppt(i["rho"], sys, dim, i["tol"]), is_npt(i["rho"], sys, dim, i["tol"])]
        return [is_ppt(i["rho"], sys, dim), is_npt(i["rho"], sys, dim)]

    def oracle(i):
        e = all_eigs_at_least(pt_explicit(i["rho"], dA, dB, sys), -tol_of(i))
        return [e, neg(e)]

    def exc_post(e, i):
        # only an omitted dim on unequal local dimensions may be rejected (documented: equal dimensions are assumed)
        return isinstance(e, ValueError) and not consistent

    def margin_ok(ws, tol):
        # no eigenvalue within a relative 1e-3 of the documented threshold -tol
        return [(x + tol >= MARGIN * tol) | (x + tol <= -MARGIN * tol) for x in ws]

    def assume(i):
        a = [i["tol"] > 0, i["tol"] <= 1] if tol_mode == "given" else []
        if consistent:
            a += margin_ok(eigs_h(pt_explicit(i["rho"], dA, dB, sys)), tol_of(i))
        return a

    def valid(ni):
        if tol_mode == "given" and not 0 < ni["tol"] <= 1:
            return False
        if not consistent:
            return True
        t = tol_of(ni)
        return all(abs(x + t) >= MARGIN * t for x in eigs_h(pt_explicit(ni["rho"], dA, dB, sys)))

    def witness():
        # concrete states whose partial transpose has its smallest eigenvalue at a stated fraction of the documented tolerance
        out = []
        for t in ([1e-3, 1e-6, 1e-10] if tol_mode == "given" else [SQRT_EPS]):
            for c in (0.25, 0.75, 1.5):
                for Q in (identity_q(n), householder(n)):
                    lam = [1.0] * (n - 1) + [-c * t]
                    rho = pt_explicit(q_diag_qt(Q, lam), dA, dB, sys)
                    d = {"rho": np.array(rho, dtype=float)}
                    if tol_mode == "given":
                        d["tol"] = t
                    out.append(d)
        return out
    return Obligation("is_ppt.verdict_is_min_eigenvalue_of_partial_transpose_above_minus_tol", cfg, build, call, oracle,
                      exc_post=exc_post, assume=assume, valid=valid, tv=False, witness=witness,
                      neg=lambda exp: [neg(exp[0]), exp[1]])


ZERO_MARGIN = 1e-11     # tol = 0: eigenvalues this close to 0 are numerically undecidable, outside the claim


def ob_ppt_spectral(dA, dB, sys, basis, tol_mode):
    """rho = PT_sys(Q diag(lam) Q^T) with a fixed rational orthogonal Q and symbolic lam: the spectrum of the partial transpose
    is lam (kernel contract stated for this matrix), so the verdict must be (min lam >= -tol)."""
    cfg = {"dims": [dA, dB], "sys": sys, "family": f"PT_sys(rho) = Q diag(lam) Q^T, Q = {basis}", "tol": tol_mode}
    n = dA * dB
    Q = householder(n) if basis == "householder(1..1)" else identity_q(n)

    def build(b):
        d = {"lam": [b.real(f"lam{k}") for k in range(n)]}
        if tol_mode == "given":
            d["tol"] = b.real("tol")
        return d

    def tol_of(i):
        return i["tol"] if tol_mode == "given" else (0.0 if tol_mode == "zero" else SQRT_EPS)

    def rho_of(i):
        return pt_explicit(q_diag_qt(Q, i["lam"]), dA, dB, sys)    # the partial transpose is an involution

    def call(i):
        rho = rho_of(i)
        if tol_mode == "given":
            return [is_ppt(rho, sys, [dA, dB], i["tol"]), is_npt(rho, sys, [dA, dB], i["tol"])]
        if tol_mode == "zero":       # an explicit tolerance of exactly 0 (int and float forms) is a tolerance, not "use the default"
            return [is_ppt(rho, sys, [dA, dB], 0.0), is_npt(rho, sys, [dA, dB], 0)]
        return [is_ppt(rho, sys, [dA, dB]), is_npt(rho, sys, [dA, dB])]

    def oracle(i):
        e = conj_all([x >= -tol_of(i) for x in i["lam"]])
        return [e, neg(e)]

    def assume(i):
        # spectral theorem for this matrix: the Hermitian eigenvalue kernel returns lam in ascending order
        w = eigs_h(q_diag_qt(Q, i["lam"]))
        lam = i["lam"]
        tol = tol_of(i)
        facts = [w[k] <= w[k + 1] for k in range(n - 1)]
        facts += [Or(*[w[k].eq_solver(x) for x in lam]) for k in range(n)]
        facts += [Or(*[x.eq_solver(w[k]) for k in range(n)]) for x in lam]
        tot_w, tot_l = 0, 0
        for k in range(n):
            tot_w, tot_l = tot_w + w[k], tot_l + lam[k]
        facts.append(tot_w.eq_solver(tot_l))
        facts += [x <= 4 for x in lam] + [x >= -4 for x in lam]
        if tol_mode == "zero":
            facts += [(x >= ZERO_MARGIN) | (x <= -ZERO_MARGIN) for x in lam]
        else:
            facts += [(x + tol >= MARGIN * tol) | (x + tol <= -MARGIN * tol) for x in lam]
        if tol_mode == "given":
            facts += [i["tol"] > 0, i["tol"] <= 1]
        return facts

    def valid(ni):
        t = tol_of(ni)
        if tol_mode == "zero":
            return all(abs(x) <= 4 and abs(x) >= ZERO_MARGIN for x in ni["lam"])
        return (tol_mode != "given" or 0 < t <= 1) and all(abs(x) <= 4 and abs(x + t) >= MARGIN * t for x in ni["lam"])

    def witness():
        out = []
        if tol_mode == "zero":
            return [{"lam": [1.0] * (n - 1) + [x]} for x in (-1e-9, -1e-10, -1e-6, 1e-9, 0.5)]
        for t in ([1e-3, 1e-6, 1e-10] if tol_mode == "given" else [SQRT_EPS]):
            for c in (0.25, 0.75, 1.5):
                d = {"lam": [1.0] * (n - 1) + [-c * t]}
                if tol_mode == "given":
                    d["tol"] = t
                out.append(d)
        return out
    return Obligation("is_ppt.known_spectrum_family_threshold_is_tol", cfg, build, call, oracle, assume=assume, valid=valid,
                      tv=False, witness=witness, neg=lambda exp: [neg(exp[0]), exp[1]])


# ---- in_separable_ball ----------------------------------------------------------------------------
def _trace_and_square(m, n):
    m = np.asarray(m)
    if m.ndim == 1:
        tr, sq = 0, 0
        for k in range(n):
            tr, sq = tr + m[k], sq + m[k] * m[k]
        return tr, sq
    tr, sq = 0, 0
    for a in range(n):
        tr = tr + m[a, a].real
        for c in range(n):
            v = m[a, c]
            sq = sq + v.real * v.real + v.imag * v.imag
    return tr, sq


def _ball_lemmas(m, n):
    """elementary facts about t = 1/T, u = 1/R, q = sqrt(P) that linear arithmetic over monomials cannot derive; every one
    follows from the defining constraints t*T = 1, u*R = 1, q >= 0, q*q = P (R = t^2 S > 0, T != 0)"""
    m = np.asarray(m)
    if m.ndim == 1:
        mm = np.zeros((n, n), dtype=object)
        for k in range(n):
            mm[k, k] = m[k]
        m = mm
    T, S = _trace_and_square(m, n)
    T, S = lift(T), lift(S)
    t = 1 / T
    R = lift(0)
    for v in m.flat:
        w = lift(v) * t
        R = R + w.real * w.real + w.imag * w.imag
    u = 1 / R
    P = lift(0)
    for a in range(n):
        for c in range(n):
            e = lift(m[a, c]) * t * u - (1 if a == c else 0)
            P = P + e.real * e.real + e.imag * e.imag
    q = P.sqrt()
    c = n - 1
    return [(q <= 1) == (P <= 1), (u * u * R).eq_solver(u), (u * t * T).eq_solver(u), (u >= c) == (c * R <= 1),
            (c * R <= 1) == (c * S <= T * T)]


def ob_ball(n, form, mode="lra"):
    cfg = {"n": n, "input": form, "arithmetic": "linear + lemmas" if mode == "lra" else "nonlinear, no lemmas"}

    def build(b):
        if form == "hermitian matrix":
            return {"m": b.array("m", (n, n), "h")}
        if form == "real symmetric matrix":
            return {"m": b.array("m", (n, n), "s")}
        return {"m": b.array("m", (n,), "r")}

    def call(i):
        sym = is_symbolic(i["m"])
        # decide the trace test first so that the first explored path is the one that reaches the Frobenius inequality
        positive = bool(_trace_and_square(i["m"], n)[0] >= n * EPS) if sym else None
        r = in_separable_ball(i["m"])
        if mode == "lra" and sym and positive:
            return [r, _ball_lemmas(i["m"], n)]
        return [r, []]

    def oracle(i):
        # Gurvits-Barnum: rho = mat / Tr(mat) is in the ball iff Tr(rho^2) <= 1/(n-1); non-positive trace is outside
        tr, sq = _trace_and_square(i["m"], n)
        return [both(tr >= n * EPS, (n - 1) * sq <= tr * tr), both(tr >= n * EPS, n * sq <= tr * tr)]

    def post(res, exp, i):
        e = eq(res[0], exp[0])
        return implies(And(*res[1]), e) if res[1] else e
    return Obligation("in_separable_ball.is_trace_normalised_frobenius_test_of_gurvits_barnum", cfg, build, call, oracle, post=post,
                      mode=mode, tv=False, neg=lambda exp: [exp[1], exp[0]], timeout_ms=120000,
                      weight=20 if mode == "nra" else 1)


# ---- has_symmetric_extension ----------------------------------------------------------------------
def _hierarchy_stub(states, probs=None, level=2, dim=None):
    """the SDP value as an uninterpreted function of the state"""
    from toqito.state_opt.symmetric_extension_hierarchy import symmetric_extension_hierarchy as real
    if not has_sym(states[0]):
        return real(states, probs, level, dim)
    return kernel("symmetric_extension_hierarchy_value", [states[0]], [((), "r")], extra=(level, repr(dim)),
                  concrete=lambda m: real([m], None, level, dim))[0]


def _picos_pt_stub(rho, subsystems, dimensions=2):
    """picos.partial_trace(rho, [0]) on two qubits: trace over the first qubit"""
    if not has_sym(rho):
        import picos
        return picos.partial_trace(rho, subsystems, dimensions)
    assert list(subsystems) == [0] and np.asarray(rho).shape == (4, 4)
    return _trace_first_qubit(rho).view(SymArray)


def _trace_first_qubit(rho):
    rho = np.asarray(rho)
    out = np.empty((2, 2), dtype=object)
    for j in range(2):
        for l in range(2):
            out[j, l] = rho[j, l] + rho[2 + j, 2 + l]
    return out


def _check_picos_stub():
    import picos
    x = np.arange(16).reshape(4, 4) + 1j * np.arange(16).reshape(4, 4).T
    got = np.array(picos.partial_trace(x, [0]).value)
    want = _trace_first_qubit(x).astype(complex)
    if not np.allclose(got, want):
        raise RuntimeError("picos.partial_trace stub disagrees with picos")


HSE_PATCH = {"toqito.state_props.has_symmetric_extension": {"symmetric_extension_hierarchy": _hierarchy_stub,
                                                            "partial_trace": _picos_pt_stub}}


def ob_hse_shortcut(dA, dB, level, ppt, dim_form):
    """level 1, or total dimension <= 6 with ppt: the verdict is the PSD kernel test (and the PPT kernel test when ppt)"""
    cfg = {"dims": [dA, dB], "level": level, "ppt": ppt, "dim_arg": dim_form}
    n = dA * dB

    def build(b):
        return {"rho": b.array("rho", (n, n), "h")}

    def call(i):
        return has_symmetric_extension(i["rho"], level, dim_argument(dim_form, dA, dB), ppt)

    def oracle(i):
        return [True, False]

    def post(res, exp, i):
        rho = i["rho"]
        accept = all_eigs_at_least(rho, 0)
        reject = some_eig_below(rho, -PSD_ATOL)
        if ppt:
            pt = pt_explicit(rho, dA, dB, 2)
            accept = both(accept, all_eigs_at_least(pt, 0))
            reject = disj_any([reject, some_eig_below(pt, -SQRT_EPS)])
        if isinstance(accept, SymBool) or isinstance(reject, SymBool):
            return implies(accept, eq(res, exp[0])) & implies(reject, eq(res, exp[1]))
        return ((not accept) or bool(res) == exp[0]) and ((not reject) or bool(res) == exp[1])
    return Obligation("has_symmetric_extension.shortcut_branches_accept_psd_ppt_states_and_reject_beyond_tolerance", cfg, build,
                      call, oracle, post=post, tv=False, extra_patch=HSE_PATCH, neg=lambda exp: [exp[1], exp[0]])


def _det4(m):
    m = np.asarray(m)
    tot = 0
    for perm in itertools.permutations(range(4)):
        sign = 1
        for a in range(4):
            for c in range(a + 1, 4):
                if perm[a] > perm[c]:
                    sign = -sign
        term = sign
        for a in range(4):
            term = term * m[a, perm[a]]
        tot = tot + term
    return tot


def ob_hse_two_qubit_closed_form(dim_form):
    cfg = {"dims": [2, 2], "level": 2, "ppt": False, "dim_arg": dim_form}

    def build(b):
        return {"rho": b.array("rho", (4, 4), "h")}

    def call(i):
        return has_symmetric_extension(i["rho"], 2, dim_argument(dim_form, 2, 2), False)

    def oracle(i):
        rho = np.asarray(i["rho"])
        rb = _trace_first_qubit(rho)
        tr_b2, tr_2 = 0, 0
        for j in range(2):
            for l in range(2):
                tr_b2 = tr_b2 + rb[j, l] * rb[l, j]
        for a in range(4):
            for c in range(4):
                tr_2 = tr_2 + rho[a, c] * rho[c, a]
        d = _det4(rho)
        root = lift(d).real.sqrt() if is_symbolic(rho) else np.sqrt(np.real(d))
        # the criterion holds => accepted; violated by more than twice the function's tolerance (1e-4) => rejected.  In between the
        # verdict is not fixed (pure product states meet the criterion with equality, so an exact comparison is decided by rounding)
        if is_symbolic(rho):
            return (tr_b2.real >= tr_2.real - 4 * root, tr_b2.real < tr_2.real - 4 * root - 2e-4)
        return (bool(np.real(tr_b2) >= np.real(tr_2) - 4 * root), bool(np.real(tr_b2) < np.real(tr_2) - 4 * root - 2e-4))

    def post(res, exp, i):
        acc, rej = exp
        r = res if isinstance(res, SymBool) else bool(res)
        if isinstance(acc, (bool, np.bool_)) and isinstance(rej, (bool, np.bool_)) and isinstance(r, bool):
            return ((not acc) or r) and ((not rej) or not r)
        return implies(acc, r) & implies(rej, neg(SymBool(r) if not isinstance(r, SymBool) else r))

    def neg_oracle(exp):
        return (neg(exp[0]), neg(exp[1]))

    def valid(ni):
        return np.real(np.linalg.det(ni["rho"])) > 1e-9
    return Obligation("has_symmetric_extension.two_qubit_closed_form", cfg, build, call, oracle, post=post, valid=valid, tv=False,
                      extra_patch=HSE_PATCH, neg=neg_oracle)


def ob_hse_sdp_rule(dA, dB, ppt):
    """no shortcut applies: the verdict is 'hierarchy value below 1 by more than tol' (value = uninterpreted symbol)"""
    cfg = {"dims": [dA, dB], "level": 2, "ppt": ppt, "tol": 1e-4}
    n = dA * dB

    def build(b):
        return {"rho": b.array("rho", (n, n), "h")}

    def call(i):
        return has_symmetric_extension(i["rho"], 2, [dA, dB], ppt)

    def oracle(i):
        v = _hierarchy_stub([i["rho"]], None, 2, None)
        return 1 - v > 1e-4
    return Obligation("has_symmetric_extension.otherwise_decided_by_hierarchy_value", cfg, build, call, oracle, tv=False,
                      extra_patch=HSE_PATCH, neg=neg)


# ---- is_separable ---------------------------------------------------------------------------------
class BeyondSymbolicFragment(Exception):
    """raised by the stubs below where symbolic execution stops (data-dependent permutation / shape)"""


_SEP_MODE = {"argsort": "cut"}
_core_eig = HANDLERS[np.linalg.eig]


@handles(np.linalg.eig)
def _h_eig(a):
    """np.linalg.eig of an exactly real-symmetric matrix: real spectrum (kernel contract d); otherwise the core handler"""
    a = sarr(a)
    L = lifted(a)
    n = a.shape[0]
    sym = all((not L[i, j].im.t) and L[i, j].key() == L[j, i].key() for i in range(n) for j in range(n))
    if not sym:
        return _core_eig(a)
    w = kernel("eig_symmetric_vals", [a], [((n,), "r")], concrete=lambda m: np.real(np.linalg.eig(m)[0]))[0]
    v = kernel("eig_symmetric_vec", [a], [((n, n), "r")], concrete=lambda m: np.real(np.linalg.eig(m)[1]))[0]
    return _EighResult(w, v)


@handles(np.argsort)
def _h_argsort(a, *args, **kw):
    a = sarr(a)
    ex = cur().explorer
    if _SEP_MODE["argsort"] == "cut" or a.ndim != 1 or ex is None or any(lift(v).im.t for v in a.flat):
        raise BeyondSymbolicFragment("argsort of symbolic values")
    # under-approximation: continue on the paths where the values already are in ascending order
    for k in range(a.shape[0] - 1):
        ex.pc.append(as_z3(a[k] <= a[k + 1]))
    cur().stubs.add("np.argsort: identity on the paths where the argument is already sorted (under-approximation)")
    return np.arange(a.shape[0])


def _orth_cut(*a, **k):
    raise BeyondSymbolicFragment("scipy.linalg.orth: data-dependent shape")


def _maps_cut(*a, **k):
    raise BeyondSymbolicFragment("application of a positive map to the 16x16 symbolic state (too large to continue)")


SEP_PATCH = dict(HSE_PATCH)
SEP_PATCH["toqito.state_props.is_separable"] = {"orth": _orth_cut}
SEP_PATCH_STOP_AT_MAPS = dict(HSE_PATCH)
SEP_PATCH_STOP_AT_MAPS["toqito.state_props.is_separable"] = {"orth": _orth_cut, "partial_channel": _maps_cut}


def _sep_call(rho, dim, tol=None, mode="cut"):
    _SEP_MODE["argsort"] = mode
    try:
        if tol is None:
            return is_separable(rho, dim)
        return is_separable(rho, dim, 2, tol)
    finally:
        _SEP_MODE["argsort"] = "cut"


def _psd_rejected(rho):
    """the documented ValueError: the input fails the PSD kernel test"""
    return some_eig_below(rho, -PSD_ATOL)


def _nonzero_trace(rho):
    t = trace_explicit(rho)
    return [(t.real > 1e-6) | (t.real < -1e-6)]


def ob_sep_small(dA, dB, dim_form, tol_mode):
    """total dimension <= 6: verdict == PPT criterion on the normalised state"""
    cfg = {"dims": [dA, dB], "dim_arg": dim_form, "tol": tol_mode}
    n = dA * dB

    def build(b):
        d = {"rho": b.array("rho", (n, n), "h")}
        if tol_mode == "given":
            d["tol"] = b.real("tol")
        return d

    def call(i):
        res = _sep_call(i["rho"], dim_argument(dim_form, dA, dB), i.get("tol"))
        if tol_mode == "given":
            # the PPT criterion as implemented by is_ppt for the same tolerance (its threshold is pinned by the is_ppt obligations)
            return [res, is_ppt(normalised(i["rho"]), 2, [dA, dB], i["tol"])]
        return [res, None]

    def oracle(i):
        if tol_mode == "given":
            return None
        return all_eigs_at_least(pt_explicit(normalised(i["rho"]), dA, dB, 2), -SEP_TOL)

    def post(res, exp, i):
        return eq(res[0], res[1]) if tol_mode == "given" else eq(res[0], exp)

    def exc_post(e, i):
        return both(isinstance(e, ValueError), _psd_rejected(i["rho"]))

    def assume(i):
        a = _nonzero_trace(i["rho"])
        if tol_mode == "given":
            a += [i["tol"] > 0, i["tol"] <= 1]
        else:
            a += [(x + SEP_TOL >= MARGIN * SEP_TOL) | (x + SEP_TOL <= -MARGIN * SEP_TOL)
                  for x in eigs_h(pt_explicit(normalised(i["rho"]), dA, dB, 2))]
        return a

    def valid(ni):
        if abs(np.trace(ni["rho"])) <= 1e-6 or (tol_mode == "given" and not 0 < ni["tol"] <= 1):
            return False
        return tol_mode == "given" or all(abs(x + SEP_TOL) >= MARGIN * SEP_TOL
                                          for x in eigs_h(pt_explicit(normalised(ni["rho"]), dA, dB, 2)))
    name = "is_separable.small_dimensions_agree_with_ppt_criterion" if tol_mode == "default" else \
        "is_separable.small_dimensions_agree_with_is_ppt_for_the_given_tolerance"
    return Obligation(name, cfg, build, call, oracle, post=post, exc_post=exc_post, assume=assume, valid=valid, tv=False,
                      extra_patch=SEP_PATCH, neg=neg, neg_control=tol_mode == "default")


def ob_sep_npt(dA, dB, party):
    """a partial transpose (on either party) negative by a margin => never declared separable"""
    cfg = {"dims": [dA, dB], "negative_partial_transpose_on_party": party, "margin": "min eigenvalue < -2e-8 (tol = 1e-8)"}
    n = dA * dB

    def build(b):
        return {"rho": b.array("rho", (n, n), "h")}

    def call(i):
        return _sep_call(i["rho"], [dA, dB])

    def oracle(i):
        return False

    def exc_post(e, i):
        return both(isinstance(e, ValueError), _psd_rejected(i["rho"]))

    def assume(i):
        st = normalised(i["rho"])
        w2 = eigs_h(pt_explicit(st, dA, dB, 2))
        a = _nonzero_trace(i["rho"])
        if party == 2:
            return a + [Or(*[x < -2 * SEP_TOL for x in w2])]
        # PT_1(rho) is the transpose of PT_2(rho): same spectrum (kernel contract b)
        w1 = eigs_h(pt_explicit(st, dA, dB, 1))
        return a + [Or(*[x < -2 * SEP_TOL for x in w1])] + [w1[k].eq_solver(w2[k]) for k in range(n)]

    def valid(ni):
        if abs(np.trace(ni["rho"])) <= 1e-6:
            return False
        return min(eigs_h(pt_explicit(normalised(ni["rho"]), dA, dB, party))) < -2 * SEP_TOL
    return Obligation("is_separable.negative_partial_transpose_is_never_declared_separable", cfg, build, call, oracle,
                      exc_post=exc_post, assume=assume, valid=valid, tv=False, extra_patch=SEP_PATCH, neg=neg,
                      max_paths=400, weight=3 if n > 6 else 1)


def family_vector(d, s, cplx):
    """deterministic vector on the moment curve (1, x, x^2, ...), x a rational (complex: Gaussian rational) indexed by s"""
    x = Fraction((7 * s) % 23 - 11, 4)
    y = Fraction((3 * s) % 5 - 2, 3) if cplx else 0
    out = []
    for j in range(d):
        out.append(complex(float(x), float(y)) ** j if cplx else x ** j)
    return out


def product_projector(a, b):
    """(a a^dagger) (x) (b b^dagger), explicit"""
    dA, dB = len(a), len(b)
    out = np.empty((dA * dB, dA * dB), dtype=object)
    for p in range(dA):
        for q in range(dB):
            for r in range(dA):
                for s in range(dB):
                    out[p * dB + q, r * dB + s] = (a[p] * a[r].conjugate()) * (b[q] * b[s].conjugate())
    return out


def background_state(dA, dB, terms=4):
    """fixed separable background: sum of `terms` rational real product projectors of the deterministic family"""
    tot = None
    for k in range(terms):
        p = product_projector(family_vector(dA, 2 * k + 1, False), family_vector(dB, 2 * k + 2, False))
        tot = p if tot is None else tot + p
    return tot


def ob_sep_mixture(dA, dB, K, kind, mode, dim_form="list", background=False):
    """rho = sum_k a_k a_k^dagger (x) b_k b_k^dagger (+ fixed separable background): no path may end in an exception; for total
    dimension <= 6 the verdict is True"""
    n = dA * dB
    cfg = {"dims": [dA, dB], "terms": K, "entries": {"r": "real", "c": "complex"}[kind], "dim_arg": dim_form,
           "explored": "all kernel outcomes up to the spectrum sort (line 153)" if mode == "cut" else
                       "cascade up to the application of the positive maps (lines 292/307) on the paths where np.linalg.eig "
                       "returns a real descending spectrum",
           "background": "fixed 4-term rational product mixture" if background else None}
    small = n <= 6
    bg = background_state(dA, dB) if background else None

    def build(b):
        return {"a": [b.array(f"a{k}", (dA,), kind) for k in range(K)], "b": [b.array(f"b{k}", (dB,), kind) for k in range(K)]}

    def rho_of(i):
        tot = bg
        for k in range(K):
            p = product_projector(list(np.asarray(i["a"][k])), list(np.asarray(i["b"][k])))
            tot = p if tot is None else tot + p
        return as_num(tot)

    def call(i):
        return _sep_call(rho_of(i), dim_argument(dim_form, dA, dB), None, mode)

    def oracle(i):
        return True

    def post(res, exp, i):
        return eq(res, exp) if small else True

    def exc_post(e, i):
        return isinstance(e, BeyondSymbolicFragment)

    def assume(i):
        rho = rho_of(i)
        t = trace_explicit(rho)
        facts = [t.real > 1e-6]
        facts += [x >= 0 for x in eigs_h(rho)]                                          # PSD by construction
        facts += [x >= 0 for x in eigs_h(pt_explicit(normalised(rho), dA, dB, 2))]     # its partial transpose too
        return facts

    def valid(ni):
        return np.real(np.trace(rho_of(ni))) > 1e-6
    return Obligation("is_separable.product_mixtures_never_raise_and_small_ones_are_separable", cfg, build, call, oracle,
                      post=post, exc_post=exc_post, assume=assume, valid=valid, tv=False,
                      extra_patch=SEP_PATCH if mode == "cut" else SEP_PATCH_STOP_AT_MAPS, neg_control=small, neg=neg, max_paths=600, weight=40 if n >= 16 else (10 if n > 6 else 1),
                      wall_cap_s=900)


# ---- concrete-instance obligations (what symbolic execution cannot reach) -------------------------
def concrete_mixture(dA, dB, K, cplx):
    tot = None
    for k in range(K):
        a = np.array(family_vector(dA, 2 * k + 1, cplx), dtype=complex if cplx else float)
        b = np.array(family_vector(dB, 2 * k + 2, cplx), dtype=complex if cplx else float)
        a, b = a / np.linalg.norm(a), b / np.linalg.norm(b)
        p = np.kron(np.outer(a, a.conj()), np.outer(b, b.conj())) / K
        tot = p if tot is None else tot + p
    return tot


class ConcreteSeparable(Task):
    """the real function on one member of the deterministic family of product mixtures; expected: True, no exception"""
    engine = "concrete-instance (execution of the real code on a stated deterministic family; no solver)"
    wall_cap_s = 900

    def __init__(self, name, cfg, fn, weight=5):
        super().__init__(name, cfg)
        self.fn, self.weight = fn, weight

    def _instance(self):
        c = self.cfg
        if c.get("terms") == "identity":
            return np.eye(c["dims"][0] * c["dims"][1]) * c.get("scale", 1.0)
        if c.get("terms") == "4 terms, one party confined to a 2-dimensional subspace":
            # rank-4 two-qutrit product mixtures whose reduced state on one side has rank 2
            tot = 0
            for k in range(4):
                a = np.array(family_vector(3, 2 * k + 1, c["entries"] == "complex"), dtype=complex)
                a[2] = 0
                b = np.array(family_vector(3, 2 * k + 2, c["entries"] == "complex"), dtype=complex)
                a, b = a / np.linalg.norm(a), b / np.linalg.norm(b)
                pa, pb = np.outer(a, a.conj()), np.outer(b, b.conj())
                tot = tot + (np.kron(pa, pb) if c["confined"] == "first" else np.kron(pb, pa)) / 4
            return tot if c["entries"] == "complex" else np.real(tot)
        return concrete_mixture(c["dims"][0], c["dims"][1], c["terms"], c["entries"] == "complex") * c.get("scale", 1.0)

    def _verdict(self):
        rho = self._instance()
        try:
            res = self.fn(rho)
        except Exception as e:  # noqa: BLE001
            tb = traceback.extract_tb(e.__traceback__)
            fr = [f for f in tb if "/toqito/" in f.filename]
            where = f" at {fr[-1].filename.split('/toqito/')[-1]}:{fr[-1].lineno}" if fr else ""
            return False, {"exception": f"{type(e).__name__}: {str(e)[:100]}{where}", "expected": True}, rho
        return bool(res) is True, {"actual": bool(res), "expected": True}, rho

    def _run(self, rec, seed):
        ok, detail, rho = self._verdict()
        rec["paths"], rec["reachable"] = 1, True
        rec["notes"].append("concrete instance, no solver query")
        if ok:
            rec["status"] = "discharged"
        else:
            rec["status"] = "violation"
            rec["violation"] = {"source": "concrete instance of the stated family", **detail, "inputs": {"rho": jsonable(rho)}}

    def replay(self, rp):
        ok, detail, _ = self._verdict()
        print(detail)
        return ok


def concrete_tasks(T):
    out = []
    dims = [(2, 2), (2, 3), (3, 2), (2, 4), (4, 2), (3, 3), (4, 4)] + ([(3, 4), (4, 3), (2, 5)] if T else [])
    for dA, dB in dims:
        n = dA * dB
        for K in ([1, 2, 3, 5, n + 1] if T else [2, n + 1]):
            for cplx in ((False, True) if (T or n <= 6) else (True,)):
                for form in (["list", "omitted"] if dA == dB else ["list"]):
                    if form == "omitted" and not (K == (3 if T else 2) and (not cplx or n > 6)):
                        continue
                    cfg = {"dims": [dA, dB], "terms": K, "entries": "complex" if cplx else "real", "dim_arg": form,
                           "family": "sum_k (1/K) P(a_k) (x) P(b_k), a_k, b_k on the moment curve (see family_vector)"}
                    dim = [dA, dB] if form == "list" else None
                    out.append(ConcreteSeparable("is_separable.concrete_product_mixtures_are_declared_separable", cfg,
                                                 lambda rho, dim=dim: is_separable(rho, dim)))
    # un-normalised operators (trace != 1): the verdict of c * rho is the verdict of rho.  Members of the family on which
    # the unchanged criteria decide by a clear margin (rank-4 3x3 determinant test, real mixtures on 2x4 / 4x2, the identity)
    scaled = [((3, 3), 4, False), ((3, 3), 4, True), ((2, 4), 3, False), ((4, 2), 4, False), ((2, 4), 9, False), ((4, 4), 1, False),
              ((2, 3), 3, True), ((2, 2), 2, True)]
    for (dA, dB), K, cplx in scaled:
        for sc in ([7.0, 0.25] if (T or (dA, dB) in [(3, 3), (2, 4), (2, 3)]) else [7.0]):
            cfg = {"dims": [dA, dB], "terms": K, "entries": "complex" if cplx else "real", "dim_arg": "list", "scale": sc,
                   "family": "c * sum_k (1/K) P(a_k) (x) P(b_k): an un-normalised separable operator (trace c)"}
            out.append(ConcreteSeparable("is_separable.concrete_product_mixtures_are_declared_separable", cfg,
                                         lambda rho, dim=[dA, dB]: is_separable(rho, dim)))
    for cplx in (False, True):
        for conf in ("first", "second"):
            cfg = {"dims": [3, 3], "terms": "4 terms, one party confined to a 2-dimensional subspace", "entries": "complex" if cplx else "real", "dim_arg": "list",
                   "confined": conf, "family": "sum_k (1/4) P(a_k) (x) P(b_k) with the a_k in span{e0, e1}: global rank 4, one reduced state of rank 2"}
            out.append(ConcreteSeparable("is_separable.concrete_product_mixtures_are_declared_separable", cfg, lambda rho: is_separable(rho, [3, 3])))
    for (dA, dB), form in [((3, 3), "list"), ((3, 3), "omitted"), ((2, 4), "list"), ((2, 4), "scalar"), ((4, 4), "omitted")]:
        cfg = {"dims": [dA, dB], "terms": "identity", "entries": "real", "dim_arg": form, "scale": 1.0,
               "family": "the identity operator (un-normalised maximally mixed state, trace dA*dB)"}
        dim = {"list": [dA, dB], "omitted": None, "scalar": dA}[form]
        out.append(ConcreteSeparable("is_separable.concrete_product_mixtures_are_declared_separable", cfg,
                                     lambda rho, dim=dim: is_separable(rho, dim)))
    for dA, dB in [(2, 2), (2, 3), (3, 3), (2, 4)]:
        for K in ([1, 2, 3, dA * dB + 1] if T else (([1] if (dA, dB) == (2, 2) else []) + [2, dA * dB + 1] if dA * dB <= 6 else [2])):
            for level, ppt in [(1, True), (2, True), (2, False)]:
                for cplx in (False, True):
                    if (dA, dB) != (2, 2) and not (cplx or T):
                        continue
                    cfg = {"dims": [dA, dB], "terms": K, "entries": "complex" if cplx else "real", "level": level, "ppt": ppt,
                           "family": "sum_k (1/K) P(a_k) (x) P(b_k), a_k, b_k on the moment curve (see family_vector)"}
                    out.append(ConcreteSeparable("has_symmetric_extension.concrete_product_mixtures_are_accepted", cfg,
                                                 lambda rho, d=[dA, dB], level=level, ppt=ppt: has_symmetric_extension(rho, level, d, ppt)))
    return out


# ---- the obligations ------------------------------------------------------------------------------
def obligations(tier):
    T = tier == "thorough"
    _check_picos_stub()
    obs = []
    # is_ppt / is_npt
    for dA, dB in [(2, 2), (2, 3), (3, 2)] + ([(3, 3), (2, 4)] if T else []):
        for sys in (1, 2):
            for form in ("list", "int", "omitted"):
                if form == "omitted" and dA != dB and (dA, dB) != (2, 3):
                    continue
                for tol_mode in ("default", "given"):
                    if tol_mode == "given" and form != "list":
                        continue
                    obs.append(ob_ppt_general(dA, dB, sys, form, tol_mode))
    for dA, dB in [(2, 2), (2, 3)] + ([(3, 3)] if T else []):
        for sys in (1, 2):
            for basis in ("identity", "householder(1..1)"):
                for tol_mode in ("default", "given") + (("zero",) if basis == "identity" else ()):
                    obs.append(ob_ppt_spectral(dA, dB, sys, basis, tol_mode))
    # separable ball
    for n in [2, 3, 4, 6] + ([8, 9] if T else []):
        for form in ("hermitian matrix", "real symmetric matrix", "eigenvalue vector"):
            obs.append(ob_ball(n, form))
    obs.append(ob_ball(2, "hermitian matrix", "nra"))
    if T:      # ~45 s each in plain nonlinear arithmetic
        obs.append(ob_ball(3, "real symmetric matrix", "nra"))
        obs.append(ob_ball(4, "eigenvalue vector", "nra"))
    # symmetric extension: branch structure
    for dA, dB in [(2, 2), (2, 3), (3, 2)]:
        for level in (1, 2):
            for form in ("list", "int") + (("omitted",) if dA == dB else ()):
                obs.append(ob_hse_shortcut(dA, dB, level, True, form))
        obs.append(ob_hse_shortcut(dA, dB, 1, False, "list"))
    for dA, dB in [(3, 3), (2, 4)]:
        for ppt in (True, False):
            obs.append(ob_hse_shortcut(dA, dB, 1, ppt, "list"))
    for form in ("list", "int", "omitted"):
        obs.append(ob_hse_two_qubit_closed_form(form))
    # (the "otherwise decided by the hierarchy value" obligations were removed: they mirrored the implementation's rule, which is
    #  itself the recorded known finding - the SDP branch rejects every state -, and their replays cost ~2 min of real SDP solves)
    # is_separable
    for dA, dB in [(2, 2), (2, 3), (3, 2)]:
        for form in ("list", "int") + (("omitted",) if (dA, dB) != (3, 2) else ()):
            obs.append(ob_sep_small(dA, dB, form, "default"))
        obs.append(ob_sep_small(dA, dB, "list", "given"))
    for dA, dB in [(2, 2), (2, 3), (3, 2), (3, 3), (2, 4), (4, 2)] + ([(4, 4), (3, 4)] if T else []):
        for party in (1, 2):
            obs.append(ob_sep_npt(dA, dB, party))
    for dA, dB in [(2, 2), (2, 3), (3, 2)]:
        for K in (1, 2) + ((3,) if T else ()):
            for kind in ("r", "c"):
                obs.append(ob_sep_mixture(dA, dB, K, kind, "cut"))
        obs.append(ob_sep_mixture(dA, dB, 1, "r", "cut", "int"))
    for dA, dB in [(2, 4), (4, 2), (3, 3)] + ([(3, 4)] if T else []):
        for K in (1, 2):
            for kind in ("r", "c"):
                if kind == "c" and not T and (K == 2 or (dA, dB) == (3, 3)):
                    continue
                if kind == "c" and K == 2 and dA * dB >= 8:
                    continue   # 8x8 / 9x9 / 12x12 complex two-term mixtures: the symbolic products at line 146 take 15 min to > 30 min
                               # (the 8x8 ones hit the wall cap when the machine is loaded); real two-term and complex one-term mixtures stay
                obs.append(ob_sep_mixture(dA, dB, K, kind, "cut"))
    obs.append(ob_sep_mixture(3, 3, 1, "r", "cut", "omitted"))
    obs.append(ob_sep_mixture(4, 4, 1, "r", "sorted", background=True))
    obs.append(ob_sep_mixture(4, 4, 1, "r", "cut"))
    obs += concrete_tasks(T)
    return obs
