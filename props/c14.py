"""C14 Entanglement / entropy quantities: the glue around the SVD, nuclear-norm, rank and eigenvalue kernels computes the
documented quantities (decided modulo kernel contracts)."""
from __future__ import annotations

import itertools

import numpy as np
import scipy.linalg

from symnp.array import (HANDLERS, NP_OVERRIDES, SCIPY_LINALG_OVERRIDES, SymArray, _EighResult, _map, _sym_sqrt, _wrap, as0d,
                         handles, has_sym, h_eigvals, h_norm, h_rank, h_svd, kernel, lifted, sarr, symmax)
from symnp.core import And, Not, Or, Sym, SymBool, SymError, cur, lift
from symnp.harness import Obligation, eq, jsonable
from props.common import Task
from toqito.matrix_props import sk_operator_norm
from props.c13 import density_exact, k_eigvalsh, k_nuc, psqrt, tr
from toqito.state_ops import schmidt_decomposition
from toqito.state_props import (concurrence, entanglement_of_formation, is_product, l1_norm_coherence, log_negativity, negativity,
                                purity, schmidt_rank, sk_vector_norm, von_neumann_entropy)

META = {
    "id": "C14",
    "level": "other",
    "files": ["toqito/state_props/negativity.py", "toqito/state_props/log_negativity.py", "toqito/state_props/entanglement_of_formation.py",
              "toqito/state_props/concurrence.py", "toqito/state_props/schmidt_rank.py", "toqito/state_ops/schmidt_decomposition.py",
              "toqito/state_props/sk_vec_norm.py", "toqito/matrix_props/sk_norm.py", "toqito/state_props/is_product.py", "toqito/state_props/purity.py",
              "toqito/state_props/von_neumann_entropy.py", "toqito/state_props/l1_norm_coherence.py",
              "toqito/matrix_ops/to_density_matrix.py", "toqito/matrix_props/is_density.py", "toqito/channels/partial_trace.py",
              "toqito/perms/swap.py", "toqito/perms/permute_systems.py"],
    "functions": ["toqito.state_props.negativity", "toqito.state_props.log_negativity", "toqito.state_props.entanglement_of_formation",
                  "toqito.state_props.concurrence", "toqito.state_props.schmidt_rank", "toqito.state_ops.schmidt_decomposition",
                  "toqito.state_props.sk_vector_norm", "toqito.state_props.is_product", "toqito.state_props.purity",
                  "toqito.state_props.von_neumann_entropy", "toqito.state_props.l1_norm_coherence",
                  "toqito.matrix_props.sk_operator_norm (return value against QF_NRA Rayleigh-quotient queries)"],
    "explanation": "Bounded symbolic execution of the real functions with every amplitude / matrix entry a solver variable. LAPACK "
                   "kernels (svd, nuclear norm, matrix_rank, eig, eigvals, eigh) are uninterpreted functions of the normal form of "
                   "their argument, so 'value = documented formula' is decided as: same kernel, argument entry-wise equal to the "
                   "oracle's own explicitly indexed argument (partial transpose on the second subsystem, amplitude matrix "
                   "M[j,i] = psi[(i,j)], reduced state, rho (sy x sy) conj(rho) (sy x sy)), for vector and matrix input and the "
                   "dimension argument as list / ndarray / int / omitted. Under the SVD contract (U diag(s) V^H = M) the returned "
                   "Schmidt factors rebuild the state exactly, up to the terms the rank threshold removed (every threshold path is "
                   "explored). Polynomial formulas (purity, l1-norm of coherence) are exact; the entropy is decided as "
                   "-sum over the positive eigenvalue symbols of lambda log2 lambda for each sign pattern; the concurrence as "
                   "max(0, 2 max_k a_k - sum_k a_k), a_k = |sqrt(lambda_k)|, over every ordering path of np.sort. "
                   "S(k) operator norm: (lower, upper) returned by the real sk_operator_norm for 15 (thorough 19) operators (scaled rank-one, near rank-one, "
                   "projector, generic PSD, indefinite; dims (2,2), (2,3), (3,2), (3,3); k = 1, 2); for explicit product frames (Schmidt bases of leading "
                   "eigenvectors, of the harness' own local maximisers, computational basis) z3 decides over all coefficient vectors c in C^k that no "
                   "sum_i c_i a_i (x) b_i exceeds the upper bound and that some such vector reaches the lower bound (witness).",
    "bounds": {
        "quick": "local dims (2,2), (2,3), (3,2), (3,3) (negativity, Schmidt data, S(k) norm k=1..min d, product test), (2,4) for the "
                 "rank; operator Schmidt decomposition / rank on 2x2; entropy, purity d<=3; l1 coherence N<=6; concurrence 4x4",
        "thorough": "adds (2,4), (4,2), (3,4), (4,3), (4,4); operators on 2x3 / 3x2; entropy, purity d<=4",
    },
    "trusted_base": ["numpy object-array semantics = numeric semantics (translator validation per obligation)",
                     "congruence of kernels: the same LAPACK routine on entry-wise equal arguments returns equal values",
                     "picos.partial_transpose is linear: on symbolic input it is lifted from its values on the matrix units "
                     "(the real picos function is called with the subsystem / dimension arguments toqito passes)",
                     "SVD contract U diag(s) V^H = M, s >= 0 descending (only where named); orthonormality of LAPACK's singular "
                     "vectors (the returned factors are proved to be those vectors)", "z3 5.1.0"],
    "outside_claim": [
        "closed forms in the Schmidt coefficients (negativity ((sum s)^2-1)/2, log-negativity, entanglement of formation = entropy "
        "of s^2, two-qubit concurrence 2 s0 s1, S(k) norm = root of the k largest squares as a statement about the state): "
        "spectral consequences of the definitions, they rest on the numerical kernels' outputs",
        "invariance under local unitaries (all quantities, operator Schmidt rank), additivity of the entropy on products",
        "the product test accepting exactly product vectors / operators: decided is that the verdict is the threshold test on the "
        "second singular value of the amplitude matrix and that the returned factors rebuild the state",
        "sk_operator_norm: that the returned bounds bracket the supremum over ALL Schmidt-rank-k vectors (NP-hard; decided is the bracket on "
        "explicit families of Schmidt-rank-<=k vectors, per instance); is_block_positive",
        "entanglement_of_formation on density matrices (scipy.linalg.orth: data-dependent shape; two-qubit mixed branch)",
        "equality of the spectral norm of a column vector and its Euclidean norm (sk_vector_norm with k >= min dim on (n,1) input "
        "calls the ord-2 kernel)", "numerical accuracy of the kernels, rank tolerances, np.spacing values",
        "dimensions above the bound",
    ],
    "assumptions": ["floats modelled as reals",
                    "np.linalg.eig of an exactly Hermitian argument returns real eigenvalues (registered handler)",
                    "l1_norm_coherence on matrix input: non-negative real diagonal (density operator)",
                    "scipy.linalg.orth of a non-zero column vector has shape (n,1) (its value is unused on that branch)"],
}


# =====================================================================================================================
# engine extensions registered from this module (symnp/*.py is not edited)
# =====================================================================================================================
def _csqrt(x):
    """principal square root of a scalar: real -> symnp's sqrt symbol; complex -> uninterpreted complex function"""
    if isinstance(x, Sym):
        if x.im.t:
            return kernel("csqrt", [as0d(x)], [((), "c")], concrete=lambda v: np.sqrt(complex(v)))[0]
        return x.sqrt()
    return np.sqrt(complex(x))


def _sqrt_override(x, *a, **k):
    if isinstance(x, Sym):
        return _csqrt(x)
    if has_sym(x):
        return _map(sarr(x), lambda v: _csqrt(lift(v)))
    return np.sqrt(x, *a, **k)


NP_OVERRIDES["sqrt"] = _sqrt_override


def _spacing_scalar(v):
    v = lift(v)
    if v.is_const():
        return lift(float(np.spacing(float(v.cval()))))
    c = cur()
    a = c.new_atom("spacing", "uf", key=("spacing", v.key()))
    if a.info is None:
        a.info = v
        p = v.re
        a.evalf = lambda vals, p=p: float(np.spacing(float(p.evalf(vals))))
        c.stubs.add("np.spacing(x): uninterpreted function of the normal form of x")
    from symnp.core import Poly
    return Sym(Poly.atom(a.id))


@handles(np.spacing)
def h_spacing(x, *a, **k):
    if isinstance(x, Sym):
        return _spacing_scalar(x)
    return _map(sarr(x), _spacing_scalar)


_plain_sum = _wrap(np.sum)


def _sum_override(a, *args, **kw):
    """np.sum over an array of symbolic truth values (a count): each comparison forks the path"""
    if isinstance(a, np.ndarray) and a.dtype == object and a.size and not args and not kw \
            and all(isinstance(v, (SymBool, bool, np.bool_)) for v in a.flat) and any(isinstance(v, SymBool) for v in a.flat):
        cur().stubs.add("np.sum over symbolic truth values: forks on each")
        return int(sum(1 for v in a.flat if bool(v)))
    return _plain_sum(a, *args, **kw)


NP_OVERRIDES["sum"] = _sum_override

_orig_h_eig = HANDLERS[np.linalg.eig]


@handles(np.linalg.eig)
def h_eig_real_if_hermitian(a):
    a = sarr(a)
    L = lifted(a)
    n = L.shape[0]
    herm = all((L[i, j] - L[j, i].conjugate()).is_const() and (L[i, j] - L[j, i].conjugate()).cval() == 0
               for i in range(n) for j in range(i, n))
    if not herm:
        return _orig_h_eig(a)
    w = kernel("eig_w_hermitian", [a], [((n,), "r")], concrete=lambda m: np.real(np.linalg.eig(m)[0]))[0]
    v = kernel("eig_vec", [a], [((n, n), "c")], concrete=lambda m: np.linalg.eig(m)[1])[0]
    cur().stubs.add("np.linalg.eig of an exactly Hermitian argument: real eigenvalue symbols")
    return _EighResult(w, v)


def _orth_override(a, rcond=None):
    if not has_sym(a):
        return scipy.linalg.orth(a, rcond)
    a = sarr(a)
    if a.ndim == 2 and a.shape[1] == 1:
        cur().stubs.add("scipy.linalg.orth of a column vector: shape (n,1), uninterpreted")
        return kernel("orth_column", [a], [(a.shape, "c")], concrete=lambda m: scipy.linalg.orth(np.asarray(m).reshape(-1, 1)))[0]
    raise SymError("scipy.linalg.orth on a symbolic matrix: output shape is data dependent")


SCIPY_LINALG_OVERRIDES["orth"] = _orth_override

_PT_IMG = {}


def _picos_pt_lifted(x, subsystems=0, dimensions=2, *a, **k):
    """picos.partial_transpose on symbolic data, by linearity from the real function's values on the matrix units"""
    import picos
    if not has_sym(x):
        return picos.partial_transpose(x, subsystems, dimensions, *a, **k)
    X = lifted(np.asarray(x, dtype=object))
    n, m = X.shape
    key = (n, m, repr(subsystems), repr(dimensions))
    if key not in _PT_IMG:
        img = []
        shape = None
        for i in range(n):
            for j in range(m):
                E = np.zeros((n, m))
                E[i, j] = 1
                P = np.asarray(picos.partial_transpose(E, subsystems, dimensions, *a, **k))
                shape = P.shape
                for (r, c) in np.argwhere(P != 0):
                    img.append((i, j, int(r), int(c), complex(P[r, c])))
        _PT_IMG[key] = (shape, img)
    shape, img = _PT_IMG[key]
    out = np.empty(shape, dtype=object)
    for idx in np.ndindex(*shape):
        out[idx] = lift(0)
    for (i, j, r, c, v) in img:
        out[r, c] = out[r, c] + (X[i, j] if v == 1 else X[i, j] * v)
    cur().stubs.add("picos.partial_transpose: lifted by linearity from its values on the matrix units")
    return out.view(SymArray)


PT_PATCH = {"toqito.state_props.negativity": {"partial_transpose": _picos_pt_lifted},
            "toqito.state_props.log_negativity": {"partial_transpose": _picos_pt_lifted}}


# =====================================================================================================================
# polymorphic helpers
# =====================================================================================================================
def k_svd(M):
    M = np.asarray(M)
    if has_sym(M):
        u, s, vh = h_svd(sarr(M))
    else:
        u, s, vh = np.linalg.svd(M)
    return np.asarray(u), np.asarray(s), np.asarray(vh)


def k_rank(M):
    M = np.asarray(M)
    return h_rank(sarr(M)) if has_sym(M) else np.linalg.matrix_rank(M)


def k_eig(M):
    M = np.asarray(M)
    if has_sym(M):
        return np.asarray(h_eig_real_if_hermitian(sarr(M))[0])
    return np.linalg.eig(M)[0]


def k_eigvals(M):
    M = np.asarray(M)
    return np.asarray(h_eigvals(sarr(M))) if has_sym(M) else np.linalg.eigvals(M)


def k_norm2(x):
    x = np.asarray(x)
    return h_norm(sarr(x), 2) if has_sym(x) else np.linalg.norm(x, 2)


def pspacing(x):
    return _spacing_scalar(x) if isinstance(x, Sym) else np.spacing(x)


def plog2(x):
    return x.log2() if isinstance(x, Sym) else np.log2(x)


def pmax(vals):
    if any(isinstance(v, Sym) for v in vals):
        return symmax(list(vals))
    return max(vals)


def flat(psi):
    return np.asarray(psi).reshape(-1)


def amplitude(psi, d1, d2):
    """M[i, j] = psi[(i, j)]"""
    p = flat(psi)
    M = np.empty((d1, d2), dtype=object)
    for i in range(d1):
        for j in range(d2):
            M[i, j] = p[i * d2 + j]
    return M if has_sym(M) else M.astype(complex)


def transpose(M):
    M = np.asarray(M)
    out = np.empty((M.shape[1], M.shape[0]), dtype=object)
    for i in range(M.shape[0]):
        for j in range(M.shape[1]):
            out[j, i] = M[i, j]
    return out if has_sym(out) else out.astype(complex)


def outer_density(psi):
    p = flat(psi)
    n = len(p)
    out = np.empty((n, n), dtype=object)
    for a in range(n):
        for c in range(n):
            out[a, c] = p[a] * p[c].conjugate()
    return out if has_sym(out) else out.astype(complex)


def pt_second(rho, d1, d2):
    """partial transpose on the second subsystem: out[(i,j),(k,l)] = rho[(i,l),(k,j)]"""
    rho = np.asarray(rho)
    n = d1 * d2
    out = np.empty((n, n), dtype=object)
    for i in range(d1):
        for j in range(d2):
            for k in range(d1):
                for l in range(d2):
                    out[i * d2 + j, k * d2 + l] = rho[i * d2 + l, k * d2 + j]
    return out if has_sym(out) else out.astype(complex)


def dimarg(d1, d2, form):
    if form == "list":
        return [d1, d2]
    if form == "ndarray":
        return np.array([d1, d2])
    if form == "int":
        return int(d1)
    if form == "float":
        return float(d1)
    if form == "omitted":
        return None
    raise ValueError(form)


def dim_forms(d1, d2):
    return ["list", "ndarray", "int"] + (["omitted"] if d1 == d2 else [])


def state_input(b, n, shape, name="psi"):
    """shape: '1d' (n,), 'col' (n,1)"""
    v = b.array(name, (n,), "c")
    return v if shape == "1d" else v.reshape(n, 1)


def schmidt_family(b, d1, d2, r, shape):
    """psi = sum_{k<r} a_k (x) b_k: every vector of Schmidt rank <= r, and a generic member has Schmidt rank exactly r"""
    A = [np.asarray(b.array(f"a{k}", (d1,), "c")) for k in range(r)]
    B = [np.asarray(b.array(f"b{k}", (d2,), "c")) for k in range(r)]
    out = np.empty((d1 * d2,), dtype=object)
    for i in range(d1):
        for j in range(d2):
            t = 0
            for k in range(r):
                t = t + A[k][i] * B[k][j]
            out[i * d2 + j] = t
    out = out.view(SymArray)
    return out if shape == "1d" else out.reshape(d1 * d2, 1)


# =====================================================================================================================
# negativity / log-negativity
# =====================================================================================================================
def ob_negativity(which, d1, d2, inp, dform):
    f = negativity if which == "negativity" else log_negativity
    n = d1 * d2
    cfg = {"dims": [d1, d2], "input": inp, "dim_arg": dform}

    def build(b):
        if inp == "matrix":
            return {"x": b.array("rho", (n, n), "c")}
        return {"x": state_input(b, n, inp)}

    def call(i):
        return f(i["x"], dimarg(d1, d2, dform))

    def oracle(i):
        rho = np.asarray(i["x"]) if inp == "matrix" else outer_density(i["x"])
        nn = k_nuc(pt_second(rho, d1, d2))
        return (nn - 1) / 2 if which == "negativity" else plog2(nn)
    name = {"negativity": "negativity.is_half_of_nuclear_norm_of_PT2_minus_one",
            "log_negativity": "log_negativity.is_log2_of_nuclear_norm_of_PT2"}[which]
    return Obligation(name, cfg, build, call, oracle, extra_patch=PT_PATCH, weight=n)


def ob_negativity_bad_dim(which, n, dim):
    f = negativity if which == "negativity" else log_negativity
    cfg = {"size": n, "dim_arg": dim}

    def build(b):
        return {"x": b.array("rho", (n, n), "c")}

    def call(i):
        f(i["x"], dim)
        return [True]

    def exc_post(e, i):
        return isinstance(e, ValueError)
    return Obligation(f"{which}.rejects_dimensions_that_do_not_match", cfg, build, call, lambda i: [True], post=lambda r, e, i: False,
                      exc_post=exc_post, neg_control=False, extra_patch=PT_PATCH)


# =====================================================================================================================
# Schmidt decomposition
# =====================================================================================================================
def _count_above(S, thr, r):
    """#{k : S[k] > thr} == r"""
    flags = [S[k] > thr for k in range(len(S))]
    if all(isinstance(f, (bool, np.bool_)) for f in flags):
        return sum(bool(f) for f in flags) == r
    t = lift(0)
    for f in flags:
        t = t + lift(SymBool(f))
    return t.eq(r)


def ob_sd_factors(d1, d2, dform, k_param, shape):
    """the returned triple is (s, rows of V^H, columns of U) of the SVD of the amplitude matrix M[j,i] = psi[(i,j)], truncated to
    k_param terms, or (k_param = 0) to the number of singular values above max(dim) * spacing(s_0)"""
    n = d1 * d2
    K = min(d1, d2)
    cfg = {"dims": [d1, d2], "dim_arg": dform, "k_param": k_param, "input": shape}

    def build(b):
        return {"psi": state_input(b, n, shape)}

    def call(i):
        s, A, B = schmidt_decomposition(i["psi"], dimarg(d1, d2, dform), k_param)
        return [np.asarray(s).reshape(-1), np.asarray(A), np.asarray(B)]

    def oracle(i):
        U, S, Vh = k_svd(transpose(amplitude(i["psi"], d1, d2)))
        return [S, Vh, U]

    def post(res, exp, i):
        S, Vh, U = exp
        r = len(res[0])
        if r > K or np.asarray(res[1]).shape != (d1, r) or np.asarray(res[2]).shape != (d2, r):
            return False
        c = And(eq(res[0], S[:r]), eq(res[1], transpose(Vh)[:, :r]), eq(res[2], U[:, :r]))
        if k_param > 0:
            return c if r == min(k_param, K) else False
        return And(c, _count_above(S, max(d1, d2) * pspacing(S[0]), r))
    return Obligation("schmidt_decomposition.factors_are_the_svd_of_the_amplitude_matrix", cfg, build, call, oracle, post=post,
                      weight=n, max_paths=64)


def ob_sd_rebuild(d1, d2, dform, k_param, shape):
    """sum_k s_k a_k (x) b_k = psi under the SVD contract (plus the terms that the truncation / rank threshold removed)"""
    n = d1 * d2
    K = min(d1, d2)
    cfg = {"dims": [d1, d2], "dim_arg": dform, "k_param": k_param, "input": shape}

    def build(b):
        return {"psi": state_input(b, n, shape)}

    def call(i):
        s, A, B = schmidt_decomposition(i["psi"], dimarg(d1, d2, dform), k_param)
        s, A, B = np.asarray(s).reshape(-1), np.asarray(A), np.asarray(B)
        r = len(s)
        U, S, Vh = k_svd(transpose(amplitude(i["psi"], d1, d2)))
        tot = np.empty((n,), dtype=object)
        small = []
        for a in range(d1):
            for c in range(d2):
                t = 0
                for k in range(r):
                    t = t + s[k] * A[a, k] * B[c, k]
                for k in range(r, K):
                    t = t + S[k] * Vh[k, a] * U[c, k]
                tot[a * d2 + c] = t
        if k_param == 0:
            thr = max(d1, d2) * pspacing(S[0])
            small = [Not(SymBool(S[k] > thr)) for k in range(r, K)]
        ok = And(*small) if small else SymBool(True)
        return [tot if has_sym(tot) else tot.astype(complex), ok]

    def oracle(i):
        return [flat(i["psi"]), True]

    def post(res, exp, i):
        ok = res[1]
        ok = SymBool(ok) if not isinstance(ok, SymBool) else ok
        return And(eq(res[0], exp[0]), ok)

    def neg(exp):
        return [np.roll(np.asarray(exp[0], dtype=object if has_sym(exp[0]) else None), 1), True]
    return Obligation("schmidt_decomposition.factors_rebuild_the_state_under_the_svd_contract", cfg, build, call, oracle, post=post,
                      neg=neg, contracts=("svd",), weight=2 * n, max_paths=64)


def op_amplitude_T(X, d1, d2):
    """the matrix handed to the SVD for an operator: MT[(j,l),(i,k)] = X[(i,j),(k,l)]"""
    X = np.asarray(X)
    out = np.empty((d2 * d2, d1 * d1), dtype=object)
    for i in range(d1):
        for j in range(d2):
            for k in range(d1):
                for l in range(d2):
                    out[j * d2 + l, i * d1 + k] = X[i * d2 + j, k * d2 + l]
    return out if has_sym(out) else out.astype(complex)


def ob_sd_operator(d1, d2, dform):
    n = d1 * d2
    K = min(d1 * d1, d2 * d2)
    cfg = {"dims": [d1, d2], "dim_arg": dform, "k_param": 0}

    def build(b):
        return {"X": b.array("X", (n, n), "c")}

    def call(i):
        s, A, B = schmidt_decomposition(i["X"], dimarg(d1, d2, dform))
        s, A, B = np.asarray(s).reshape(-1), np.asarray(A), np.asarray(B)
        r = len(s)
        if A.shape != (d1, d1, r) or B.shape != (d2, d2, r):
            raise AssertionError(f"factor shapes {A.shape} {B.shape}")
        U, S, Vh = k_svd(op_amplitude_T(i["X"], d1, d2))
        tot = np.empty((n, n), dtype=object)
        for a in range(d1):
            for c in range(d2):
                for k in range(d1):
                    for l in range(d2):
                        t = 0
                        for q in range(r):
                            t = t + s[q] * A[a, k, q] * B[c, l, q]
                        for q in range(r, K):
                            t = t + S[q] * Vh[q, a * d1 + k] * U[c * d2 + l, q]
                        tot[a * d2 + c, k * d2 + l] = t
        thr = max(d1 * d1, d2 * d2) * pspacing(S[0])
        small = [Not(SymBool(S[q] > thr)) for q in range(r, K)]
        return [tot if has_sym(tot) else tot.astype(complex), And(*small) if small else SymBool(True)]

    def oracle(i):
        return [np.asarray(i["X"]), True]

    def post(res, exp, i):
        ok = res[1]
        ok = SymBool(ok) if not isinstance(ok, SymBool) else ok
        return And(eq(res[0], exp[0]), ok)

    def neg(exp):
        return [np.asarray(exp[0]).T, True]
    return Obligation("schmidt_decomposition.operator_factors_rebuild_the_operator_under_the_svd_contract", cfg, build, call, oracle,
                      post=post, neg=neg, contracts=("svd",), weight=4 * n, max_paths=64)


# =====================================================================================================================
# Schmidt rank, S(k) vector norm
# =====================================================================================================================
def ob_schmidt_rank(d1, d2, r, dform, shape):
    cfg = {"dims": [d1, d2], "family": f"sum of {r} product vectors", "dim_arg": dform, "input": shape}

    def build(b):
        return {"psi": schmidt_family(b, d1, d2, r, shape)}

    def call(i):
        return schmidt_rank(i["psi"], dimarg(d1, d2, dform))

    def oracle(i):
        M = amplitude(i["psi"], d1, d2)
        return [k_rank(M), k_rank(transpose(M))]

    def post(res, exp, i):
        a, c = eq(res, exp[0]), eq(res, exp[1])
        if isinstance(a, (bool, np.bool_)) and isinstance(c, (bool, np.bool_)):
            return bool(a) or bool(c)
        return Or(a, c)

    def neg(exp):
        return [exp[0] + 1, exp[1] + 1]
    return Obligation("schmidt_rank.is_the_rank_of_the_amplitude_matrix", cfg, build, call, oracle, post=post, neg=neg,
                      weight=d1 * d2)


def operator_family(b, d1, d2, r):
    """X = sum_{k<r} A_k (x) B_k"""
    A = [np.asarray(b.array(f"A{k}", (d1, d1), "c")) for k in range(r)]
    B = [np.asarray(b.array(f"B{k}", (d2, d2), "c")) for k in range(r)]
    n = d1 * d2
    out = np.empty((n, n), dtype=object)
    for i in range(d1):
        for j in range(d2):
            for k in range(d1):
                for l in range(d2):
                    t = 0
                    for q in range(r):
                        t = t + A[q][i, k] * B[q][j, l]
                    out[i * d2 + j, k * d2 + l] = t
    return out.view(SymArray)


def ob_operator_schmidt_rank(d1, d2, r, dform):
    cfg = {"dims": [d1, d2], "family": f"sum of {r} product operators", "dim_arg": dform}

    def build(b):
        return {"X": operator_family(b, d1, d2, r)}

    def call(i):
        return schmidt_rank(i["X"], dimarg(d1, d2, dform))

    def oracle(i):
        MT = op_amplitude_T(i["X"], d1, d2)
        return [k_rank(MT), k_rank(transpose(MT))]

    def post(res, exp, i):
        a, c = eq(res, exp[0]), eq(res, exp[1])
        if isinstance(a, (bool, np.bool_)) and isinstance(c, (bool, np.bool_)):
            return bool(a) or bool(c)
        return Or(a, c)

    def neg(exp):
        return [exp[0] + 1, exp[1] + 1]
    return Obligation("schmidt_rank.operator_rank_is_the_rank_of_the_realigned_matrix", cfg, build, call, oracle, post=post, neg=neg,
                      weight=d1 * d2 * 2)


def rect_family(b, r1, c1, r2, c2, r):
    """X = sum_{q<r} A_q (x) B_q with A_q of shape r1 x c1 and B_q of shape r2 x c2 (local factors need not be square)"""
    A = [np.asarray(b.array(f"A{q}", (r1, c1), "c")) for q in range(r)]
    B = [np.asarray(b.array(f"B{q}", (r2, c2), "c")) for q in range(r)]
    out = np.empty((r1 * r2, c1 * c2), dtype=object)
    for i, j, k, l in itertools.product(range(r1), range(r2), range(c1), range(c2)):
        t = 0
        for q in range(r):
            t = t + A[q][i, k] * B[q][j, l]
        out[i * r2 + j, k * c2 + l] = t
    return out.view(SymArray)


def rect_realigned(X, r1, c1, r2, c2):
    """M[(i,k),(j,l)] = X[(i,j),(k,l)]: rank of M = operator Schmidt rank of X across (r1 x c1) | (r2 x c2)"""
    X = np.asarray(X)
    out = np.empty((r1 * c1, r2 * c2), dtype=object)
    for i, j, k, l in itertools.product(range(r1), range(r2), range(c1), range(c2)):
        out[i * c1 + k, j * c2 + l] = X[i * r2 + j, k * c2 + l]
    return out if has_sym(out) else out.astype(complex)


def ob_operator_schmidt_rank_rect(r1, c1, r2, c2, r):
    """dim given as the 2 x 2 matrix [[row dims], [column dims]] that the operator branch indexes (dim[0, :], dim[1, :])"""
    cfg = {"local_shapes": [[r1, c1], [r2, c2]], "family": f"sum of {r} product operators", "dim_arg": "[[rows], [cols]]"}

    def build(b):
        return {"X": rect_family(b, r1, c1, r2, c2, r)}

    def call(i):
        return schmidt_rank(i["X"], [[r1, r2], [c1, c2]])

    def oracle(i):
        M = rect_realigned(i["X"], r1, c1, r2, c2)
        return [k_rank(M), k_rank(transpose(M))]

    def post(res, exp, i):
        a, c = eq(res, exp[0]), eq(res, exp[1])
        if isinstance(a, (bool, np.bool_)) and isinstance(c, (bool, np.bool_)):
            return bool(a) or bool(c)
        return Or(a, c)

    def neg(exp):
        return [exp[0] + 1, exp[1] + 1]

    def witness():
        rng = np.random.default_rng(r1 * 1000 + c1 * 100 + r2 * 10 + c2)
        out = []
        for _ in range(2):
            X = sum(np.kron(rng.integers(-3, 4, (r1, c1)) + 1j * rng.integers(-3, 4, (r1, c1)), rng.integers(-3, 4, (r2, c2)) + 0j) for _ in range(r))
            out.append({"X": X})
        return out
    return Obligation("schmidt_rank.operator_rank_is_the_rank_of_the_realigned_matrix", cfg, build, call, oracle, post=post, neg=neg,
                      weight=r1 * r2 * c1 * c2, witness=witness)


def ob_is_product_operator_rect(r1, c1, r2, c2):
    """product operators with non-square local factors: the verdict on A (x) B is the threshold test on the singular values of
    the realigned matrix (rank one by construction, so s_1 is what rounding leaves) - decided under the svd kernel"""
    cfg = {"local_shapes": [[r1, c1], [r2, c2]], "dim_arg": "[[rows], [cols]]", "input": "matrix"}
    n = r1 * r2 * c1 * c2

    def build(b):
        return {"X": b.array("X", (r1 * r2, c1 * c2), "c")}

    def call(i):
        ipv, dec = is_product(i["X"], [[r1, r2], [c1, c2]])
        return bool(np.asarray(ipv).reshape(-1)[0])

    def oracle(i):
        U, S, Vh = k_svd(transpose(rect_realigned(i["X"], r1, c1, r2, c2)))
        U2, S2, Vh2 = k_svd(rect_realigned(i["X"], r1, c1, r2, c2))
        return [S[1] <= n * pspacing(S[0]), S2[1] <= n * pspacing(S2[0])]

    def post(res, exp, i):
        alts = []
        for e in exp:
            e = e if isinstance(e, SymBool) else SymBool(bool(e))
            alts.append(e == SymBool(bool(res)))
        return Or(*alts)

    def witness():
        rng = np.random.default_rng(r1 * 1000 + c1 * 100 + r2 * 10 + c2 + 7)
        out = []
        for rr in (1, 2):
            X = sum(np.kron(rng.integers(-3, 4, (r1, c1)) + 1j * rng.integers(-3, 4, (r1, c1)), rng.integers(-3, 4, (r2, c2)) + 0j) for _ in range(rr))
            out.append({"X": X})
        return out
    return Obligation("is_product.operator_verdict_is_the_threshold_test_on_the_realigned_vector_and_factors_rebuild", cfg, build,
                      call, oracle, post=post, neg_control=False, contracts=("svd",), weight=2 * n, witness=witness)


def ob_sk_norm(d1, d2, k, dform, shape):
    n = d1 * d2
    cfg = {"dims": [d1, d2], "k": k, "dim_arg": dform, "input": shape}

    def build(b):
        return {"psi": state_input(b, n, shape)}

    def call(i):
        return sk_vector_norm(i["psi"], k, dimarg(d1, d2, dform))

    def oracle(i):
        if k >= min(d1, d2):
            # the whole vector: its Euclidean norm (1-D input: exact; (n,1) input: the ord-2 kernel of the column)
            if shape == "1d":
                t = 0
                for v in flat(i["psi"]):
                    t = t + v.real * v.real + v.imag * v.imag
                return psqrt(t)
            return k_norm2(np.asarray(i["psi"]))
        U, S, Vh = k_svd(transpose(amplitude(i["psi"], d1, d2)))
        t = 0
        for q in range(k):
            t = t + S[q] * S[q]
        return psqrt(t)
    return Obligation("sk_vector_norm.is_the_norm_of_the_k_largest_schmidt_coefficients", cfg, build, call, oracle, weight=n)


# =====================================================================================================================
# product test
# =====================================================================================================================
def ob_is_product(d1, d2, dform, shape):
    n = d1 * d2
    K = min(d1, d2)
    cfg = {"dims": [d1, d2], "dim_arg": dform, "input": shape}

    def build(b):
        return {"psi": state_input(b, n, shape)}

    def call(i):
        ipv, dec = is_product(i["psi"], dimarg(d1, d2, dform))
        verdict = bool(np.asarray(ipv).reshape(-1)[0])
        U, S, Vh = k_svd(transpose(amplitude(i["psi"], d1, d2)))
        agrees = SymBool(S[1] <= n * pspacing(S[0])) == SymBool(verdict)
        if not verdict:
            return [flat(i["psi"]), agrees, dec is None]
        f1, f2 = flat(dec[0]), flat(dec[1])
        tot = np.empty((n,), dtype=object)
        for a in range(d1):
            for c in range(d2):
                t = f1[a] * f2[c]
                for k in range(1, K):
                    t = t + S[k] * Vh[k, a] * U[c, k]
                tot[a * d2 + c] = t
        return [tot if has_sym(tot) else tot.astype(complex), agrees, len(f1) == d1 and len(f2) == d2]

    def oracle(i):
        return [flat(i["psi"]), True, True]

    def post(res, exp, i):
        ok = res[1] if isinstance(res[1], SymBool) else SymBool(res[1])
        return And(eq(res[0], exp[0]), ok, SymBool(bool(res[2])))

    def neg(exp):
        return [np.roll(np.asarray(exp[0], dtype=object if has_sym(exp[0]) else None), 1), True, True]
    return Obligation("is_product.verdict_is_the_threshold_test_on_the_second_schmidt_coefficient_and_factors_rebuild", cfg, build,
                      call, oracle, post=post, neg=neg, contracts=("svd",), weight=2 * n)


def ob_is_product_operator(d1, d2, dform):
    """operators: the same test on the vector v[(i,k),(j,l)] = X[(i,j),(k,l)]; the returned factors rebuild X"""
    n = d1 * d2
    K = min(d1 * d1, d2 * d2)
    cfg = {"dims": [d1, d2], "dim_arg": dform, "input": "matrix"}

    def build(b):
        return {"X": b.array("X", (n, n), "c")}

    def call(i):
        ipv, dec = is_product(i["X"], dimarg(d1, d2, dform))
        verdict = bool(np.asarray(ipv).reshape(-1)[0])
        U, S, Vh = k_svd(op_amplitude_T(i["X"], d1, d2))
        agrees = SymBool(S[1] <= (n * n) * pspacing(S[0])) == SymBool(verdict)
        if not verdict:
            return [np.asarray(i["X"]), agrees, dec is None]
        f1, f2 = flat(dec[0]), flat(dec[1])
        if len(f1) != d1 * d1 or len(f2) != d2 * d2:
            return [np.asarray(i["X"]), agrees, False]
        tot = np.empty((n, n), dtype=object)
        for a in range(d1):
            for c in range(d2):
                for k in range(d1):
                    for l in range(d2):
                        t = f1[a * d1 + k] * f2[c * d2 + l]
                        for q in range(1, K):
                            t = t + S[q] * Vh[q, a * d1 + k] * U[c * d2 + l, q]
                        tot[a * d2 + c, k * d2 + l] = t
        return [tot if has_sym(tot) else tot.astype(complex), agrees, True]

    def oracle(i):
        return [np.asarray(i["X"]), True, True]

    def post(res, exp, i):
        ok = res[1] if isinstance(res[1], SymBool) else SymBool(res[1])
        return And(eq(res[0], exp[0]), ok, SymBool(bool(res[2])))

    def neg(exp):
        return [np.asarray(exp[0]).T, True, True]
    return Obligation("is_product.operator_verdict_is_the_threshold_test_on_the_realigned_vector_and_factors_rebuild", cfg, build,
                      call, oracle, post=post, neg=neg, contracts=("svd",), weight=4 * n)


# =====================================================================================================================
# l1-norm of coherence, purity, entropy
# =====================================================================================================================
def ob_l1(n, inp):
    cfg = {"size": n, "input": inp}

    def build(b):
        if inp == "matrix":
            return {"x": b.array("rho", (n, n), "h")}
        return {"x": state_input(b, n, inp)}

    def call(i):
        return l1_norm_coherence(i["x"])

    def oracle(i):
        rho = np.asarray(i["x"]) if inp == "matrix" else outer_density(i["x"])
        t = 0
        for a in range(n):
            for c in range(n):
                if a != c:
                    t = t + abs(rho[a, c])
        return t

    def assume(i):
        if inp != "matrix":
            return []
        return [np.asarray(i["x"])[a, a] >= 0 for a in range(n)]

    def valid(ni):
        return inp != "matrix" or bool(np.all(np.real(np.diag(ni["x"])) >= 0))
    return Obligation("l1_norm_coherence.is_the_sum_of_moduli_of_the_off_diagonal_entries", cfg, build, call, oracle, assume=assume,
                      valid=valid, weight=n)


def _exc_not_density(key):
    def exc_post(e, i):
        if not isinstance(e, ValueError):
            return False
        return Not(density_exact(i[key]))
    return exc_post


def ob_purity(d):
    cfg = {"d": d, "inputs": "arbitrary Hermitian, every path of the density test"}

    def build(b):
        return {"rho": b.array("R", (d, d), "h")}

    def call(i):
        return purity(i["rho"])

    def oracle(i):
        rho = np.asarray(i["rho"])
        t = 0
        for a in range(d):
            for c in range(d):
                t = t + rho[a, c] * rho[c, a]
        return t.real
    return Obligation("purity.is_trace_of_rho_squared", cfg, build, call, oracle, exc_post=_exc_not_density("rho"), tv=False, weight=d)


def entropy_matches(res, rho):
    """res = - sum_{lambda_k > 0} lambda_k log2 lambda_k over the eigenvalue kernel of rho, for whichever sign pattern holds"""
    lam = k_eig(rho)
    n = len(lam)
    if not any(isinstance(v, Sym) for v in lam) and not isinstance(res, Sym):
        t = 0.0
        for v in lam:
            if v > 0:
                t = t - np.real(v * np.log2(v))
        return eq(res, t)
    alts = []
    for pattern in itertools.product([True, False], repeat=n):
        conds = []
        t = lift(0)
        for k in range(n):
            pos = lam[k] > 0
            conds.append(pos if pattern[k] else Not(pos))
            if pattern[k]:
                t = t - lam[k] * plog2(lam[k])
        alts.append(And(*conds, eq(res, t)))
    return Or(*alts)


def ob_entropy(d):
    cfg = {"d": d, "inputs": "arbitrary Hermitian, every path of the density test and every sign pattern of the eigenvalues"}

    def build(b):
        return {"rho": b.array("R", (d, d), "h")}

    def call(i):
        return von_neumann_entropy(i["rho"])

    def post(res, exp, i):
        return entropy_matches(res, i["rho"])
    return Obligation("von_neumann_entropy.is_minus_sum_of_lambda_log2_lambda_over_positive_eigenvalues", cfg, build, call,
                      lambda i: None, post=post, exc_post=_exc_not_density("rho"), tv=False, neg_control=False, weight=2 ** d)


def reduced_first(psi, d1, d2):
    p = flat(psi)
    out = np.empty((d1, d1), dtype=object)
    for a in range(d1):
        for c in range(d1):
            t = 0
            for j in range(d2):
                t = t + p[a * d2 + j] * p[c * d2 + j].conjugate()
            out[a, c] = t
    return out if has_sym(out) else out.astype(complex)


def ob_eof_pure(d1, d2, dform):
    n = d1 * d2
    cfg = {"dims": [d1, d2], "dim_arg": dform, "input": "col"}

    def build(b):
        return {"psi": state_input(b, n, "col")}

    def call(i):
        return entanglement_of_formation(i["psi"], dimarg(d1, d2, dform))

    def post(res, exp, i):
        return entropy_matches(res, reduced_first(i["psi"], d1, d2))

    def exc_post(e, i):
        if not isinstance(e, ValueError):
            return False
        return Not(density_exact(reduced_first(i["psi"], d1, d2)))
    return Obligation("entanglement_of_formation.pure_branch_is_the_entropy_of_the_reduced_state", cfg, build, call, lambda i: None,
                      post=post, exc_post=exc_post, tv=False, neg_control=False, weight=n * 2 ** d1)


# =====================================================================================================================
# concurrence
# =====================================================================================================================
def ob_concurrence(kind):
    cfg = {"input": {"c": "arbitrary complex 4x4", "h": "arbitrary Hermitian 4x4"}[kind]}
    sgn = [-1, 1, 1, -1]     # sigma_y (x) sigma_y = antidiag(-1, 1, 1, -1)

    def build(b):
        return {"rho": b.array("R", (4, 4), kind)}

    def call(i):
        return concurrence(i["rho"])

    def argument(rho):
        rho = np.asarray(rho)
        til = np.empty((4, 4), dtype=object)
        for a in range(4):
            for c in range(4):
                til[a, c] = sgn[a] * sgn[c] * rho[3 - a, 3 - c].conjugate()
        R = np.empty((4, 4), dtype=object)
        for a in range(4):
            for c in range(4):
                t = 0
                for k in range(4):
                    t = t + rho[a, k] * til[k, c]
                R[a, c] = t
        return R if has_sym(R) else R.astype(complex)

    def oracle(i):
        lam = k_eigvals(argument(i["rho"]))
        a = [abs(_csqrt(v)) for v in lam]
        tot = 0
        for v in a:
            tot = tot + v
        return pmax([0, 2 * pmax(a) - tot])
    def witness():
        # rank-deficient two-qubit states stored with a REAL dtype (pure states and rank-2 mixtures with real amplitudes): zero
        # eigenvalues of rho rho~ come out as +-1e-17, whose square roots must not poison the result; closed form for the pure ones
        rng = np.random.default_rng(31)
        out = []
        for _ in range(8):
            v = rng.normal(size=(4, 1))
            v = v / np.linalg.norm(v)
            out.append({"rho": (v @ v.T).astype(float)})
        for _ in range(4):
            v, w = rng.normal(size=(4, 1)), rng.normal(size=(4, 1))
            r2 = v @ v.T + w @ w.T
            out.append({"rho": (r2 / np.trace(r2)).astype(float)})
        return out

    def post(res, exp, i):
        rho = i["rho"]
        if isinstance(rho, np.ndarray) and rho.dtype != object:
            # numeric: compare with the closed form 2 s0 s1 for pure states, else with the oracle (tolerance for the square roots of rounding noise)
            ev = np.linalg.eigvalsh((rho + rho.conj().T) / 2) if np.allclose(rho, rho.conj().T) else np.array([0.0])
            if abs(ev[-1] - 1) < 1e-9 and np.all(np.abs(ev[:-1]) < 1e-9):      # a pure state
                sv = np.linalg.svd(np.linalg.eigh((rho + rho.conj().T) / 2)[1][:, -1].reshape(2, 2), compute_uv=False)
                return abs(float(np.real(res)) - 2 * sv[0] * sv[1]) < 1e-6
            return abs(complex(res) - complex(exp)) < 1e-6
        return eq(res, exp)
    return Obligation("concurrence.is_max_0_of_sorted_roots_of_eigenvalues_of_rho_rho_tilde", cfg, build, call, oracle, post=post, tv=False,
                      max_paths=400, weight=60, witness=witness if kind == "h" else None)


# =====================================================================================================================
# ---- S(k) operator norm: the returned bounds against the values attained on explicit families of Schmidt-rank-<=k vectors -----
def _unit(v):
    v = np.asarray(v, dtype=complex)
    return v / np.linalg.norm(v)


def sk_instances(T):
    """(name, X, dims, k, complete): `complete` = the family below contains a maximiser (rank-one X), so an unmet lower bound
    is a violation and not merely uncertified"""
    psi23 = np.kron([1, 0], [1, 0, 0]) * 0.8 + np.kron([0, 1], [0, 1, 0]) * 0.6
    psi33 = (2 * np.kron([1, 0, 0], [1, 0, 0]) + 2j * np.kron([0, 1, 0], [0, 1, 0]) + np.kron([0, 0, 1], [0, 0, 1])) / 3
    me3 = sum(np.kron(np.eye(3)[i], np.eye(3)[i]) for i in range(3)) / np.sqrt(3)
    P = lambda v: np.outer(v, np.conj(v))      # noqa: E731
    asym = (np.eye(9) - sum(np.kron(np.outer(np.eye(3)[i], np.eye(3)[j]), np.outer(np.eye(3)[j], np.eye(3)[i])) for i in range(3) for j in range(3))) / 2
    rng = np.random.default_rng(3)
    A = (rng.integers(-2, 3, size=(6, 6)) + 1j * rng.integers(-2, 3, size=(6, 6))) / 4
    G4 = (rng.integers(-2, 3, size=(4, 4)) + 1j * rng.integers(-2, 3, size=(4, 4))) / 4
    H9 = rng.integers(-2, 3, size=(9, 9)) / 4
    out = [
        ("2.5 * rank-one projector, Schmidt coefficients (0.8, 0.6), dims (2,3)", 2.5 * P(psi23), (2, 3), 1, True),
        ("0.5 * rank-one projector, Schmidt coefficients (2/3, 2/3, 1/3) with a phase, dims (3,3)", 0.5 * P(psi33), (3, 3), 1, True),
        ("0.5 * rank-one projector, Schmidt coefficients (2/3, 2/3, 1/3) with a phase, dims (3,3)", 0.5 * P(psi33), (3, 3), 2, True),
        ("0.9 * maximally entangled projector + 0.1 * I/9, dims (3,3)", 0.9 * P(me3) + 0.1 * np.eye(9) / 9, (3, 3), 2, False),
        ("0.9 * maximally entangled projector + 0.1 * I/9, dims (3,3)", 0.9 * P(me3) + 0.1 * np.eye(9) / 9, (3, 3), 1, False),
        ("antisymmetric projector, dims (3,3)", asym, (3, 3), 1, False),
        ("generic complex PSD (A A^dagger), dims (2,3)", A @ A.conj().T, (2, 3), 1, False),
        ("generic complex PSD (G G^dagger), dims (2,2)", 3 * G4 @ G4.conj().T, (2, 2), 1, False),
        ("real symmetric indefinite, dims (3,3)", (H9 + H9.T) / 2, (3, 3), 2, False),
    ]
    # unequal local dimensions beyond 2x3 (the analytic bounds of the Hermitian branch run, the transpose-map SDP is not exact):
    # two large eigenvalues on orthogonal maximally entangled vectors plus a flat part, in locally rotated bases
    e2, e4 = np.eye(2), np.eye(4)
    phi1 = (np.kron(e2[0], e4[0]) + np.kron(e2[1], e4[1])) / np.sqrt(2)
    phi2 = (np.kron(e2[0], e4[2]) + np.kron(e2[1], e4[3])) / np.sqrt(2)
    Ua = np.linalg.qr(rng.normal(size=(2, 2)) + 1j * rng.normal(size=(2, 2)))[0]
    Ub = np.linalg.qr(rng.normal(size=(4, 4)) + 1j * rng.normal(size=(4, 4)))[0]
    X24 = np.kron(Ua, Ub) @ (P(phi1) + 0.9 * P(phi2) + 0.05 * np.eye(8)) @ np.kron(Ua, Ub).conj().T
    SW = np.zeros((8, 8))
    for i_ in range(2):
        for j_ in range(4):
            SW[j_ * 2 + i_, i_ * 4 + j_] = 1
    def ces_projection(dA, dB):
        """projection onto the orthogonal complement of span{sum_{i+j=k} |i,j>}: a completely entangled subspace of the maximal
        dimension (dA-1)(dB-1) (no product vector in its range)"""
        Pm = np.eye(dA * dB)
        for kk in range(dA + dB - 1):
            e = np.zeros(dA * dB)
            for i_ in range(dA):
                if 0 <= kk - i_ < dB:
                    e[i_ * dB + (kk - i_)] = 1
            Pm = Pm - np.outer(e, e) / e.sum()
        return Pm
    out += [("projection onto a completely entangled subspace of maximal dimension 4, dims (3,3)", ces_projection(3, 3), (3, 3), 1, False),
            ("1.5 * projection onto a completely entangled subspace of maximal dimension 3, dims (2,4)", 1.5 * ces_projection(2, 4), (2, 4), 1, False)]
    out += [("two entangled eigenvectors + 0.05 I, locally rotated, dims (2,4)", X24, (2, 4), 1, False),
            ("two entangled eigenvectors + 0.05 I, locally rotated, dims (4,2)", SW @ X24 @ SW.T, (4, 2), 1, False)]
    # operators whose optimum over Schmidt rank <= k is attained at a LOWER Schmidt rank (the iteration restarts from the vector found)
    e4_ = np.eye(4)
    b2 = (np.kron(e4_[0], e4_[0]) + np.kron(e4_[1], e4_[1])) / np.sqrt(2)
    out += [("|00><00| + 0.5 |11><11|, dims (3,3): optimum at Schmidt rank 1", P(np.kron(np.eye(3)[0], np.eye(3)[0])) + 0.5 * P(np.kron(np.eye(3)[1], np.eye(3)[1])), (3, 3), 2, False),
            ("projector on (|00>+|11>)/sqrt2 + 0.3 |23><23|, dims (4,4): optimum at Schmidt rank 2", P(b2) + 0.3 * P(np.kron(e4_[2], e4_[3])), (4, 4), 3, False)]
    if T:
        out += [("antisymmetric projector, dims (3,3)", asym, (3, 3), 2, False),
                ("generic complex PSD (A A^dagger), dims (3,2)", A @ A.conj().T, (3, 2), 1, False),
                ("real symmetric indefinite, dims (3,3)", (H9 + H9.T) / 2, (3, 3), 1, False),
                ("7 * rank-one projector, Schmidt coefficients (0.8, 0.6), dims (3,2) via swap", 7 * P(np.kron([1, 0, 0], [1, 0]) * 0.6 + np.kron([0, 0, 1], [0, 1]) * 0.8), (3, 2), 1, True)]
    return out


class SkNormBracketTask(Task):
    """(lower, upper) = sk_operator_norm(X, k, dims) from the real code.  For explicit product frames {a_i (x) b_i} (Schmidt
    bases of the leading eigenvectors of X, and the computational basis) every vector sum_{i in I} c_i a_i (x) b_i with |I| = k
    has Schmidt rank <= k, and its value <v|X|v>/<v|v> is the Rayleigh quotient of the k x k compression M of X.
    z3 (QF_NRA, c in C^k symbolic) decides
      upper:  no c with  c^dagger M c > (upper + tol) c^dagger c        (unsat required; a model is a Schmidt-rank-<=k vector above
              the returned upper bound, replayed numerically against the real return value)
      lower:  some c != 0 with c^dagger M c >= (lower - tol) c^dagger c  (a model certifies the lower bound by a witness vector)
    and lower <= upper.  Per instance X; for all c.  The general supremum over ALL Schmidt-rank-k vectors is outside reach
    (NP-hard; nlsat does not finish on the unrestricted quartic)."""
    engine = "E1-symnp/z3 (QF_NRA Rayleigh-quotient queries against the real return value)"
    weight = 60

    def __init__(self, name, X, dims, k, complete, scale_form="list"):
        super().__init__("sk_operator_norm.bounds_bracket_values_on_schmidt_rank_k_families", {"instance": name, "dims": list(dims), "k": k})
        self.X, self.dims, self.k, self.complete = np.asarray(X, dtype=complex), tuple(dims), k, complete

    def _frames(self):
        dA, dB = self.dims
        X = self.X
        H = (X + X.conj().T) / 2
        w, V = np.linalg.eigh(H)
        frames = [("computational basis", np.eye(dA), np.eye(dB))]
        for idx in ([-1, -2] if len(w) > 1 else [-1]):
            Mv = V[:, idx].reshape(dA, dB)
            U, sv, Wh = np.linalg.svd(Mv)
            frames.append((f"Schmidt bases of eigenvector #{len(w) + idx}", U, Wh.T))
        # frames found by the harness' own local search (power iteration on X + shift with truncation to the k leading Schmidt
        # terms).  Any frame is sound - it only has to be a pair of orthonormal bases; a better one makes both queries sharper.
        shift = max(0.0, -float(w[0])) + 1e-3
        rng = np.random.default_rng(11)
        best = []
        for start in range(6):
            v = V[:, -1] if start == 0 else _unit(rng.normal(size=dA * dB) + 1j * rng.normal(size=dA * dB))
            for _ in range(200):
                U, sv, Wh = np.linalg.svd((H @ v + shift * v).reshape(dA, dB))
                sv[self.k:] = 0
                v = _unit(((U[:, :len(sv)] * sv) @ Wh[:len(sv), :]).reshape(-1))
            val = float(np.real(np.vdot(v, H @ v)))
            U, sv, Wh = np.linalg.svd(v.reshape(dA, dB))
            best.append((val, U, Wh.T))
        best.sort(key=lambda t: -t[0])
        for j, (val, U, W) in enumerate(best[:2]):
            frames.append((f"Schmidt bases of the local maximiser #{j} of the harness' truncated power iteration", U, W))
        return frames

    def _independent_upper(self, k):
        import cvxpy
        dA, dB = self.dims
        N = dA * dB
        H = (self.X + self.X.conj().T) / 2
        rho = cvxpy.Variable((N, N), hermitian=True)
        cons = [rho >> 0, cvxpy.real(cvxpy.trace(rho)) == 1]
        if k == 1:
            cons.append(cvxpy.bmat([[rho[(r // dB) * dB + (c % dB), (c // dB) * dB + (r % dB)] for c in range(N)] for r in range(N)]) >> 0)
        else:
            rhoA = cvxpy.bmat([[sum(rho[a * dB + b, c * dB + b] for b in range(dB)) for c in range(dA)] for a in range(dA)])
            cons.append(k * cvxpy.kron(rhoA, np.eye(dB)) - rho >> 0)
        val = cvxpy.Problem(cvxpy.Maximize(cvxpy.real(cvxpy.trace(H @ rho))), cons).solve()
        # for indefinite X the norm is max |<v|X|v>|: also bound -X
        val2 = cvxpy.Problem(cvxpy.Maximize(cvxpy.real(cvxpy.trace(-H @ rho))), cons).solve()
        return float(max(val, val2))

    def _run(self, rec, seed):
        import z3
        from fractions import Fraction
        from sdpcap.embed import prove

        def rv(x):      # the float rounded to a multiple of 2^-40 (error 1e-12, far inside tol): keeps nlsat's rationals small
            return z3.RealVal(str(Fraction(round(float(x) * 2 ** 40), 2 ** 40)))
        dA, dB = self.dims
        k, X = self.k, self.X
        try:
            lo, hi = sk_operator_norm(X.copy(), k, list(self.dims))
        except Exception as e:  # noqa: BLE001 - the routine must return bounds for every Hermitian operator and 1 <= k <= min(dims)
            try:
                sk_operator_norm(X.copy(), k, list(self.dims))
                rec["notes"].append(f"exception did not reproduce: {type(e).__name__}: {e}")
            except Exception as e2:  # noqa: BLE001
                rec["status"] = "violation"
                rec["violation"] = {"source": "the real function raises instead of returning bounds (reproduced)", "inputs": jsonable(self.cfg),
                                    "exception": f"{type(e2).__name__}: {str(e2)[:300]}"}
            return
        lo, hi = float(np.real(lo)), float(np.real(hi))
        rec["bounds_returned"] = [lo, hi]
        tol = 1e-4 * max(1.0, abs(hi))      # accuracy of the conic solver behind the SDP bounds (observed 1.3e-6 relative), not of the glue
        m = min(dA, dB)
        queries = 0
        certified = False
        if lo > hi + tol:
            rec["status"] = "violation"
            rec["violation"] = {"source": "the real return value: lower bound above upper bound", "inputs": jsonable(self.cfg), "actual": [lo, hi]}
            return
        # independent upper bound on the S(k) norm (conic relaxation solved by the harness, own index maps): rho >= 0, Tr rho = 1 and,
        # for k = 1, rho^{T_B} >= 0; for k >= 2, k (rho_A (x) I) - rho >= 0.  Every Schmidt-rank-<=k projector satisfies these, so
        # the optimum bounds the norm from above; a returned LOWER bound above it is wrong whatever the families below find.
        try:
            ub_ind = self._independent_upper(k)
        except Exception as e:  # noqa: BLE001
            ub_ind = None
            rec["notes"].append(f"independent relaxation not solved: {type(e).__name__}")
        if ub_ind is not None:
            rec["independent_upper_bound"] = ub_ind
            if lo > ub_ind + 10 * tol:
                rec["status"] = "violation"
                rec["violation"] = {"source": "the returned lower bound exceeds an independent upper bound on the S(k) norm (PPT / reduction relaxation solved by the harness)",
                                    "inputs": jsonable(self.cfg), "actual": {"returned_bounds": [lo, hi], "independent_upper_bound": ub_ind}}
                return
        cs = [(z3.Real(f"cr{i}"), z3.Real(f"ci{i}")) for i in range(k)]
        nrm = z3.Sum([a * a + b * b for a, b in cs])
        for fname, UA, UB in self._frames():
            for I in itertools.combinations(range(m), k):
                vecs = [np.kron(UA[:, i], UB[:, i]) for i in I]
                M = np.array([[np.vdot(vecs[p], X @ vecs[q]) for q in range(k)] for p in range(k)])
                M = (M + M.conj().T) / 2
                # c^dagger M c for c_p = cr_p + i ci_p
                quad = []
                for p in range(k):
                    for q in range(k):
                        (a, b), (c, d) = cs[p], cs[q]
                        re, im = rv(M[p, q].real), rv(M[p, q].imag)
                        # conj(c_p) M_pq c_q, real part: re*(a c + b d) - im*(a d - b c)
                        quad.append(re * (a * c + b * d) - im * (a * d - b * c))
                val = z3.Sum(quad)
                r, model = prove(z3.And(nrm <= 1, val > rv(hi + tol) * nrm), timeout_ms=60000)
                queries += 1
                if r == "sat":
                    cv = np.array([float(model.eval(a, model_completion=True).as_fraction()) + 1j * float(model.eval(b, model_completion=True).as_fraction()) for a, b in cs])
                    v = sum(c * vec for c, vec in zip(cv, vecs))
                    attained = float(np.real(np.vdot(v, X @ v) / np.vdot(v, v)))
                    rk = int(np.linalg.matrix_rank(v.reshape(dA, dB), tol=1e-9))
                    rec["queries"] = queries
                    if attained > hi + tol / 2 and rk <= k and abs(np.vdot(v, v)) > 1e-12:        # replay: plain numpy on the solver's vector against the real return value
                        rec["status"] = "violation"
                        rec["violation"] = {"source": "solver model replayed: a vector of Schmidt rank <= k attains a value above the returned upper bound",
                                            "inputs": jsonable(self.cfg), "frame": fname, "support": list(I), "vector": jsonable(v),
                                            "schmidt_rank": rk, "actual": {"returned_bounds": [lo, hi], "value_attained": attained}}
                    else:
                        rec["notes"].append("solver model did not reproduce numerically")
                    return
                if r != "unsat":
                    rec["notes"].append(f"upper query {r} ({fname}, {I})")
                    rec["queries"] = queries
                    return
                if not certified:
                    r2, _ = prove(z3.And(nrm <= 1, nrm > 0, val >= rv(lo - tol) * nrm), timeout_ms=60000)
                    queries += 1
                    certified = r2 == "sat"
        # negative control / reachability: an upper bound just below an attained value must be refuted
        fname, UA, UB = self._frames()[1]
        vecs = [np.kron(UA[:, i], UB[:, i]) for i in range(k)]
        top = max(float(np.real(np.vdot(v, X @ v))) for v in vecs)
        a0, b0 = cs[0]
        r3, _ = prove(z3.And(a0 == 1, b0 == 0, *[z3.And(a == 0, b == 0) for a, b in cs[1:]], rv(float(np.real(np.vdot(vecs[0], X @ vecs[0])))) > rv(top + 1)))
        rec["neg_control"], rec["reachable"] = r3 == "unsat", True
        rec["queries"] = queries + 1
        if certified:
            rec["status"] = "discharged"
        elif self.complete:
            rec["status"] = "violation"
            rec["violation"] = {"source": "rank-one operator: the family contains a maximiser, yet no vector in it reaches the returned lower bound",
                                "inputs": jsonable(self.cfg), "actual": {"returned_bounds": [lo, hi]}}
        else:
            rec["notes"].append(f"upper bound holds on every family; the lower bound {lo:.6f} is not certified by a witness from the families")

    def replay(self, rp):
        try:
            lo, hi = sk_operator_norm(self.X.copy(), self.k, list(self.dims))
        except Exception as e:  # noqa: BLE001
            print({"exception": f"{type(e).__name__}: {e}"})
            return False
        att = rp["violation"].get("actual", {}).get("value_attained")
        print({"returned_bounds": [float(np.real(lo)), float(np.real(hi))], "value_attained_by_recorded_vector": att})
        return not (att is not None and att > float(np.real(hi)) + 1e-6) and float(np.real(lo)) <= float(np.real(hi)) + 1e-6


def obligations(tier):
    T = tier == "thorough"
    obs = []
    dims_q = [(2, 2), (2, 3), (3, 2), (3, 3)]
    dims = dims_q + ([(2, 4), (4, 2), (3, 4), (4, 3), (4, 4)] if T else [])

    # negativity family
    for which in ["negativity", "log_negativity"]:
        for (d1, d2) in [(2, 2), (2, 3), (3, 2)] + ([(3, 3), (2, 4), (4, 2)] if T else []):
            for dform in dim_forms(d1, d2):
                for inp in ["matrix", "1d", "col"]:
                    if not T and inp == "col" and dform != "list":
                        continue
                    obs.append(ob_negativity(which, d1, d2, inp, dform))
        obs.append(ob_negativity_bad_dim(which, 6, 4))
        obs.append(ob_negativity_bad_dim(which, 6, [2, 2]))
        obs.append(ob_negativity_bad_dim(which, 6, None))

    # Schmidt decomposition
    for (d1, d2) in dims:
        if d1 * d2 > 12 and not T:
            continue
        K = min(d1, d2)
        for dform in dim_forms(d1, d2) + ["float"]:   # a float scalar is the form the code itself builds when dim is omitted
            for k_param in ([0, 1] + ([K] if K > 1 else [])):
                for shape in ["col", "1d"]:
                    if dform != "list" and (shape == "1d" or k_param not in (0,)):
                        continue
                    if d1 * d2 > 12 and (k_param != 0 or shape != "col"):
                        continue
                    obs.append(ob_sd_factors(d1, d2, dform, k_param, shape))
                    obs.append(ob_sd_rebuild(d1, d2, dform, k_param, shape))
    for (d1, d2) in [(2, 2)] + ([(2, 3), (3, 2)] if T else []):
        for dform in ["list", "omitted"] if d1 == d2 else ["list"]:
            obs.append(ob_sd_operator(d1, d2, dform))

    # Schmidt rank
    # families of Schmidt rank <= r.  The family r = 1 already determines the index map (the entries a_i*b_j are pairwise distinct
    # monomials).  For unequal local dimensions the family r = min(d1, d2) (all vectors) is left out: a kernel-argument mismatch
    # there cannot be replayed, a generic vector has full rank under every reshape; the rank-deficient families expose it.
    for (d1, d2) in dims + ([(2, 4)] if not T else []):
        for r in range(1, min(d1, d2) + (1 if d1 == d2 else 0)):
            for dform in dim_forms(d1, d2):
                for shape in ["1d", "col"]:
                    if shape == "col" and dform != "list":
                        continue
                    obs.append(ob_schmidt_rank(d1, d2, r, dform, shape))
    for (d1, d2) in [(2, 2), (2, 3), (3, 2)]:      # unequal local dimensions are where an index slip shows
        for r in ([1, 2] if (T or d1 == d2) else [1]):
            for dform in (["list", "omitted", "int"] if d1 == d2 else ["list", "int"]):
                obs.append(ob_operator_schmidt_rank(d1, d2, r, dform))

    # local factors that are not square: dim = [[row dims], [column dims]]
    for (r1, c1, r2, c2) in [(2, 3, 3, 2), (1, 2, 2, 1), (2, 1, 2, 2)] + ([(2, 3, 2, 3), (3, 2, 1, 2)] if T else []):
        for r in (1, 2):
            if r <= min(r1 * c1, r2 * c2) - 1:
                obs.append(ob_operator_schmidt_rank_rect(r1, c1, r2, c2, r))
        obs.append(ob_is_product_operator_rect(r1, c1, r2, c2))

    # S(k) vector norm
    for (d1, d2) in dims:
        if d1 * d2 > 12 and not T:
            continue
        for k in range(1, min(d1, d2) + 1):
            for dform in dim_forms(d1, d2):
                for shape in ["col", "1d"]:
                    if shape == "1d" and dform != "list":
                        continue
                    obs.append(ob_sk_norm(d1, d2, k, dform, shape))

    for name, X, dims_, k, complete in sk_instances(T):
        obs.append(SkNormBracketTask(name, X, dims_, k, complete))

    # product test
    for (d1, d2) in dims_q + ([(2, 4), (4, 2)] if T else []):
        for dform in dim_forms(d1, d2) + ["float"]:
            for shape in ["col", "1d"]:
                if shape == "1d" and dform != "list":
                    continue
                obs.append(ob_is_product(d1, d2, dform, shape))

    for (d1, d2) in [(2, 2)] + ([(2, 3), (3, 2)] if T else []):
        for dform in (["list", "omitted", "int"] if d1 == d2 else ["list", "int"]):
            obs.append(ob_is_product_operator(d1, d2, dform))

    # coherence, purity, entropy, entanglement of formation, concurrence
    for n in [2, 3, 4] + ([6] if T else []):
        for inp in ["matrix", "1d", "col"]:
            obs.append(ob_l1(n, inp))
    for d in [2, 3] + ([4] if T else []):
        obs.append(ob_purity(d))
        obs.append(ob_entropy(d))
    for (d1, d2) in [(2, 2), (2, 3), (3, 2)] + ([(3, 3)] if T else []):
        for dform in dim_forms(d1, d2):
            obs.append(ob_eof_pure(d1, d2, dform))
    obs.append(ob_concurrence("h"))
    obs.append(ob_concurrence("c"))
    return obs
