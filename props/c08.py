"""C08 XOR game values are the Tsirelson optimum and agree across formulations."""
from __future__ import annotations

import itertools
import sys

import numpy as np

from sdpcap.affine import snap
from sdpcap.capture import SymProgram
from sdpcap.task import SdpTask
from symnp.core import And, Or, SymBool, lift
from symnp.harness import Obligation, eq
from props.c01 import oracle_matrix, perm_index
from props.c03 import oracle_pt
from props.c10 import tr
from toqito.nonlocal_games.nonlocal_game import NonlocalGame
from toqito.nonlocal_games.xor_game import XORGame
from toqito.state_opt import bell_inequality_max

XG = "toqito.nonlocal_games.xor_game"
NG = "toqito.nonlocal_games.nonlocal_game"

META = {
    "id": "C08",
    "level": "other",
    "files": ["toqito/nonlocal_games/xor_game.py", "toqito/nonlocal_games/nonlocal_game.py", "toqito/helper/npa_hierarchy.py",
              "toqito/state_opt/bell_inequality_max.py", "toqito/perms/swap.py", "toqito/perms/permutation_operator.py", "toqito/channels/partial_transpose.py"],
    "functions": ["XORGame.__init__", "XORGame.quantum_value", "XORGame.classical_value", "XORGame.nonsignaling_value", "XORGame.to_nonlocal_game",
                  "toqito.state_opt.bell_inequality_max"],
    "explanation": "E1: to_nonlocal_game with a symbolic 0/1 predicate matrix gives V(a,b|x,y) = [f(x,y) = a xor b]; for every 0/1 predicate matrix of the shape and a "
                   "SYMBOLIC distribution pi, XORGame.classical_value equals max over +-1 assignments of 1/2 + 1/2 sum pi (-1)^f s_x t_y (z3, per path); the constructor "
                   "rejects exactly the negative / non-normalised distributions (beyond tol); quantum_value returns (value/4 + 1/2)^reps of the SDP optimum (solve stubbed "
                   "by a symbol). E2: the captured quantum_value program equals Tsirelson's dual min sum u + sum v s.t. [[diag u, -D],[-D^T, diag v]] >= 0 with "
                   "D = pi (-1)^f for all decision-variable values; the captured bell_inequality_max program has Tr W = 1, W >= 0, the PPT constraints on exactly the "
                   "listed cuts (oracle's own partial transpose) and the objective Tr(Z(W) * sum coeff M_a^x (x) N_b^y) rebuilt from the oracle's own index maps, for "
                   "+-1- and 0/1-valued outcomes with marginal terms.",
    "bounds": {"quick": "XOR games: shapes up to 3x3 (classical value: all 0/1 predicates of shapes 2x2, 2x3, 3x2; 3x3: 16 predicates), dyadic instances CHSH, odd cycle n=3, "
                        "rectangular 2x3, biased, zero row; reps 1..3; bell_inequality_max: m = 2, four coefficient instances",
               "thorough": "adds all 512 predicates of 3x3 and 4x2 / 2x4 shapes"},
    "trusted_base": ["numpy object-array semantics (translator validation)", "cvxpy evaluates its own affine expressions (extraction)", "the conic solver", "z3 5.1.0"],
    "outside_claim": ["'equals the level-1 NPA bound', Grothendieck's bound, 'the PPT-constrained optimum is the Tsirelson optimum', 'at least the classical value' for the "
                      "Bell maximiser: statements about SDP optima, decided by no glue", "bell_inequality_max for m = 3 settings (64x64 variable)"],
    "assumptions": ["floats modelled as reals", "instance data dyadic"],
}


# ---- E1 -----------------------------------------------------------------------------------------------
def ob_conversion(q0, q1):
    cfg = {"alice_in": q0, "bob_in": q1}

    def build(b):
        return {"f": b.array("f", (q0, q1), "r"), "p": b.array("p", (q0, q1), "r")}

    def call(i):
        g = XORGame.__new__(XORGame)          # the constructor's validation is a separate obligation
        g.prob_mat, g.pred_mat, g.reps, g.tol = i["p"], i["f"], 1, 1e-12
        ng = g.to_nonlocal_game()
        return [np.asarray(ng.pred_mat), np.asarray(ng.prob_mat)]

    def oracle(i):
        f = np.asarray(i["f"])
        V = np.empty((2, 2, q0, q1), dtype=object)
        for a, b_, x, y in itertools.product(range(2), range(2), range(q0), range(q1)):
            c = (f[x, y] == (a ^ b_))
            V[a, b_, x, y] = lift(c) if isinstance(c, SymBool) else float(c)
        return [V, np.asarray(i["p"])]

    def post(res, exp, i):
        Vr = np.asarray(res[0], dtype=object)
        Ve = np.asarray(exp[0], dtype=object)
        if not isinstance(Ve.flat[0], (float, int)) or not isinstance(Vr.flat[0], (float, int, bool, np.bool_, np.floating)):
            conj = [lift(x).eq_solver(y) for x, y in zip(Vr.flat, Ve.flat)]
            return And(*conj) & eq(res[1], exp[1])
        return bool(np.allclose(Vr.astype(float), Ve.astype(float))) and eq(res[1], exp[1])

    def assume(i):
        return [Or(v.eq_solver(0), v.eq_solver(1)) for v in np.asarray(i["f"]).flat]

    def valid(ni):
        return bool(np.all((ni["f"] == 0) | (ni["f"] == 1)))

    def witness():
        rng = np.random.default_rng(3)
        return [{"f": rng.integers(0, 2, size=(q0, q1)).astype(float), "p": rng.random((q0, q1))} for _ in range(3)]
    return Obligation("to_nonlocal_game.predicate_is_f_equals_a_xor_b", cfg, build, call, oracle, post=post, assume=assume, valid=valid,
                      witness=witness, objzeros=(XG,), tv=False, neg_control=False)


def ob_classical(f):
    f = np.asarray(f)
    q0, q1 = f.shape
    cfg = {"pred": f.astype(int).tolist()}

    def build(b):
        return {"p": b.array("p", (q0, q1), "r")}

    def call(i):
        g = XORGame(i["p"], f.astype(float), tol=1e-12)
        ng = g.to_nonlocal_game()
        # the converted object is queried twice: a value method may not alter the game it is asked about
        return [g.classical_value(), ng.classical_value(), ng.classical_value(), np.asarray(ng.pred_mat), np.asarray(ng.prob_mat)]

    def oracle(i):
        return None

    Vx = np.zeros((2, 2, q0, q1))
    for a_, b_, x_, y_ in itertools.product(range(2), range(2), range(q0), range(q1)):
        Vx[a_, b_, x_, y_] = 1.0 if (a_ ^ b_) == int(f[x_, y_]) else 0.0

    def values(i):
        p = np.asarray(i["p"])
        vals = []
        for s in itertools.product([1, -1], repeat=q0):
            for t in itertools.product([1, -1], repeat=q1):
                tot = 0
                for x in range(q0):
                    for y in range(q1):
                        tot = tot + p[x, y] * ((-1) ** int(f[x, y]) * s[x] * t[y])
                vals.append(lift(1) / 2 + tot / 2 if not isinstance(tot, (float, int, np.floating)) else 0.5 + tot / 2)
        return vals

    def post(res, exp, i):
        vals = values(i)
        v, w, w2, pm, qm = res
        if isinstance(v, (float, int, np.floating)):
            return abs(v - max(vals)) < 1e-9 and abs(v - w) < 1e-12 and abs(w2 - w) < 1e-12 and np.array_equal(pm, Vx) and np.array_equal(qm, i["p"])
        return And(*[lift(v) >= u for u in vals]) & Or(*[lift(v).eq_solver(u) for u in vals]) & lift(v).eq_solver(w) & lift(w2).eq_solver(w) \
            & eq(pm, Vx) & eq(qm, i["p"])

    def assume(i):
        p = np.asarray(i["p"])
        return [v >= 0 for v in p.flat] + [sum(p.flat).eq_solver(1)]

    def valid(ni):
        return bool(np.all(ni["p"] >= 0) and abs(ni["p"].sum() - 1) < 1e-12)

    def witness():
        rng = np.random.default_rng(11)
        out = []
        for _ in range(3):
            p = rng.random((q0, q1))
            out.append({"p": p / p.sum()})
        return out
    return Obligation("classical_value.is_max_over_plus_minus_one_assignments_and_equals_converted_game", cfg, build, call, oracle, post=post, assume=assume,
                      valid=valid, witness=witness, objzeros=(XG, NG), tv=False, neg_control=False, max_paths=1024)


def ob_constructor(q0, q1):
    """rejects exactly: shape mismatch (separately), a negative entry beyond tol, a sum off by more than tol"""
    cfg = {"alice_in": q0, "bob_in": q1, "tol": "1/1024 (given)"}
    tol = 1.0 / 1024

    def build(b):
        return {"p": b.array("p", (q0, q1), "r")}

    def call(i):
        XORGame(i["p"], np.zeros((q0, q1)), tol=tol)
        return [True]

    def oracle(i):
        return [True]

    def bad(i):
        p = np.asarray(i["p"])
        s = sum(p.flat)
        if isinstance(s, (float, np.floating)):
            return bool(np.min(p) < -tol or abs(s - 1) > tol)
        return Or(*[v < -tol for v in p.flat]) | (s - 1 > tol) | (1 - s > tol)

    def post(res, exp, i):
        b_ = bad(i)
        return (not b_) if isinstance(b_, bool) else ~b_

    def exc_post(e, i):
        return isinstance(e, ValueError) and bad(i) if isinstance(bad(i), bool) else (bad(i) if isinstance(e, ValueError) else False)
    return Obligation("constructor.rejects_exactly_invalid_distributions", cfg, build, call, oracle, post=post, exc_post=exc_post,
                      neg_control=False, tv=True)


def ob_default_tol_and_shape():
    cfg = {"case": "default tol = eps*q0^2*q1^2 ; shape mismatch"}

    def build(b):
        return {}

    def call(i):
        g = XORGame(np.full((2, 3), 1 / 6), np.zeros((2, 3)))
        ok_tol = g.tol == np.finfo(float).eps * 4 * 9
        try:
            XORGame(np.full((2, 3), 1 / 6), np.zeros((3, 2)))
            raised = False
        except ValueError:
            raised = True
        return [bool(ok_tol), raised]

    def oracle(i):
        return [True, True]
    return Obligation("constructor.default_tolerance_and_shape_check", cfg, build, call, oracle, neg_control=False, tv=False)


def ob_value_formula(reps):
    cfg = {"reps": reps}

    def build(b):
        return {"v": b.real("sdp_value")}

    def call(i):
        import cvxpy
        mod = sys.modules[XG]
        o = cvxpy.Problem.solve

        ov = cvxpy.Problem.value

        def stub(self, *a, **k):
            return i["v"]
        cvxpy.Problem.solve = stub
        cvxpy.Problem.value = property(lambda self: i["v"])     # the optimum, whatever the solver returns
        try:
            g = XORGame(np.array([[0.25, 0.25], [0.25, 0.25]]), np.array([[0, 0], [0, 1]]), reps=reps)
            return g.quantum_value()
        finally:
            cvxpy.Problem.solve = o
            cvxpy.Problem.value = ov

    def oracle(i):
        v = i["v"]
        return (v / 4 + lift(1) / 2) ** reps if not isinstance(v, float) else (v / 4 + 0.5) ** reps
    return Obligation("quantum_value.returns_half_plus_quarter_of_dual_optimum_to_the_power_reps", cfg, build, call, oracle, tv=False)


# ---- E2: quantum value program ----------------------------------------------------------------------
def xor_instances():
    h, q, e = 0.5, 0.25, 0.125
    return [
        ("CHSH", np.full((2, 2), q), np.array([[0, 0], [0, 1]])),
        ("odd-cycle-like 3x3, dyadic weights", np.array([[q, e, 0], [0, e, e], [e, 0, q]]),
         np.array([[0, 1, 0], [0, 0, 1], [1, 0, 0]])),
        # rectangular games whose optimum is NOT 1 and changes under any re-ordering of the entries of D
        ("rectangular 2x3, CHSH-like block", np.array([[e, e, q], [e, e, q]]), np.array([[0, 0, 0], [0, 1, 1]])),
        ("rectangular 3x2, transpose of the former", np.array([[e, e], [e, e], [q, q]]), np.array([[0, 0], [0, 1], [0, 1]])),
        ("3x2 with a zero row, biased", np.array([[q, e], [0, 0], [e, h]]), np.array([[0, 0], [0, 0], [0, 1]])),
        ("2x3 biased", np.array([[q, e, e], [e, q, e]]), np.array([[0, 0, 0], [0, 1, 0]])),
        # the support of the distribution splits into connected components (round-6 seed: a consistency shortcut that explores
        # only the component of the first asked question): a consistent 1x1 block next to a frustrated CHSH block, either order,
        # and two frustrated blocks
        ("3x3, support = consistent 1x1 block + CHSH block", np.array([[q, 0, 0], [0, 3 * e / 2, 3 * e / 2], [0, 3 * e / 2, 3 * e / 2]]),
         np.array([[0, 0, 0], [0, 0, 0], [0, 0, 1]])),
        ("3x3, support = CHSH block + consistent 1x1 block", np.array([[3 * e / 2, 3 * e / 2, 0], [3 * e / 2, 3 * e / 2, 0], [0, 0, q]]),
         np.array([[0, 0, 0], [0, 1, 0], [0, 0, 1]])),
        ("4x4, support = consistent 2x2 block + CHSH block", np.array([[e, e, 0, 0], [e, e, 0, 0], [0, 0, e, e], [0, 0, e, e]]),
         np.array([[0, 1, 0, 0], [1, 0, 0, 0], [0, 0, 0, 0], [0, 0, 0, 1]])),
    ]


def xor_oracle(inst):
    """independent Tsirelson optimum (in the units of the dual objective, 2 x bias): primal Gram-matrix program
    max sum_xy D_xy <a_x, b_y> over unit vectors, written entry by entry"""
    import cvxpy
    p, f = inst
    q0, q1 = p.shape
    D = p * (-1.0) ** f
    G = cvxpy.Variable((q0 + q1, q0 + q1), symmetric=True)
    obj = sum(float(D[x, y]) * G[x, q0 + y] for x in range(q0) for y in range(q1))
    prob = cvxpy.Problem(cvxpy.Maximize(obj), [G >> 0, cvxpy.diag(G) == 1])
    return 2 * float(prob.solve())


def ref_xor(V, inst):
    p, f = inst
    q0, q1 = p.shape
    u = np.asarray(V[0]).reshape(-1)
    v = np.asarray(V[1]).reshape(-1)
    D = snap(p * (-1.0) ** f)
    n = q0 + q1
    blk = np.empty((n, n), dtype=object)
    for a in range(n):
        for b_ in range(n):
            blk[a, b_] = lift(0)
    for x in range(q0):
        blk[x, x] = u[x]
    for y in range(q1):
        blk[q0 + y, q0 + y] = v[y]
    for x in range(q0):
        for y in range(q1):
            blk[x, q0 + y] = -D[x, y]
            blk[q0 + y, x] = -D[x, y].conjugate()
    return SymProgram("min", np.array([[sum(u) + sum(v)]], dtype=object), [("psd", blk)])


# ---- E2: Bell inequality maximiser ------------------------------------------------------------------
def perm_matrix(perm, dims):
    idx = perm_index(list(perm), dims)
    N = len(idx)
    P = np.zeros((N, N))
    for a, r in enumerate(idx):
        P[a, r] = 1
    return P


def swap_sym(X, i, j, n):
    """oracle's own swap of qubits i, j (1-indexed) of an n-qubit operator (rows and columns)"""
    perm = list(range(n))
    perm[i - 1], perm[j - 1] = perm[j - 1], perm[i - 1]
    return oracle_matrix(X, perm, [2] * n, [2] * n, False, False)


def ref_bell(V, inst):
    joint, ac, bc, av, bv = inst
    m = joint.shape[0]
    W = np.asarray(V[0])
    n1 = m + 1
    obj = np.zeros((2 ** (2 * m + 2), 2 ** (2 * m + 2)))
    for a, b_ in itertools.product(range(2), range(2)):
        for x in range(1, m + 1):
            for y in range(1, m + 1):
                coeff = joint[x - 1, y - 1] * av[a] * bv[b_]
                if y == 1:
                    coeff += ac[x - 1] * av[a]
                if x == 1:
                    coeff += bc[y - 1] * bv[b_]
                px = [x if i == 0 else (0 if i == x else i) for i in range(n1)]
                py = [y if i == 0 else (0 if i == y else i) for i in range(n1)]
                M = a * np.eye(2 ** n1) + ((-1) ** a) * perm_matrix(px, [2] * n1)
                N = b_ * np.eye(2 ** n1) + ((-1) ** b_) * perm_matrix(py, [2] * n1)
                obj += coeff * np.kron(M, N)
    obj = (obj + obj.T) / 2
    aux = np.zeros((4, 4))
    aux[0, 0] = 1
    Mw = swap_sym(W, 2, m + 1, 2 * m)
    X = swap_sym(np.kron(Mw, aux), m + 1, 2 * m + 1, 2 * m + 2)
    Z = swap_sym(X, m + 2, 2 * m + 1, 2 * m + 2)
    objective = tr(np.asarray(Z) @ snap(obj))
    cons = [("eq", np.array([[tr(W) - 1]], dtype=object)), ("psd", W)]
    dims = [4] + [2] * (2 * (m - 1))
    for sz in range(1, m + 1):
        for part in itertools.combinations(range(1, 2 * m - 1), sz):
            cons.append(("psd", oracle_pt(W, dims, dims, [x - 1 for x in part])))
    return SymProgram("max", np.array([[objective]], dtype=object), cons)


def bell_instances():
    return [
        ("CHSH, +-1 outcomes", np.array([[1.0, 1], [1, -1]]), np.zeros(2), np.zeros(2), np.array([1.0, -1]), np.array([1.0, -1])),
        ("generic correlator with marginals, +-1 outcomes", np.array([[1.0, 0.5], [-0.25, 2]]), np.array([0.5, -1.0]), np.array([0.25, 0.125]), np.array([1.0, -1]), np.array([1.0, -1])),
        ("Clauser-Horne form, 0/1 outcomes", np.array([[1.0, 1], [1, -1]]), np.array([-1.0, 0]), np.array([-1.0, 0]), np.array([1.0, 0]), np.array([1.0, 0])),
        ("asymmetric values", np.array([[0.5, -1], [2, 0.25]]), np.array([0.0, 0.5]), np.array([1.0, 0]), np.array([1.0, 0]), np.array([-1.0, 1])),
        # single-party terms for ONE party only (tilted CHSH, both sides)
        ("tilted CHSH: marginal term on Alice's first setting only, +-1 outcomes", np.array([[1.0, 1], [1, -1]]), np.array([0.5, 0.0]), np.zeros(2), np.array([1.0, -1]), np.array([1.0, -1])),
        ("marginal terms on Bob only, 0/1 outcomes", np.array([[1.0, -0.5], [0.25, 1]]), np.zeros(2), np.array([0.5, -0.25]), np.array([1.0, 0]), np.array([1.0, 0])),
        # exact zeros in the first row / column of the joint coefficients together with marginal terms on those settings
        ("zero joint coefficient at (A0,B0), marginals on A0 and B0, +-1 outcomes", np.array([[0.0, 1], [1, -1]]), np.array([0.5, 0.0]), np.array([2.0, 0.0]), np.array([1.0, -1]), np.array([1.0, -1])),
        ("zero first column of joint coefficients, marginal on A1, 0/1 outcomes", np.array([[0.0, 1], [0.0, -0.5]]), np.array([0.25, 1.0]), np.array([0.0, 0.5]), np.array([1.0, 0]), np.array([1.0, 0])),
        # INTEGER arrays for the joint coefficients and the outcome values (as in the docstring), fractional marginal coefficients
        ("integer-typed joint coefficients and outcome values, half-integer marginals", np.array([[1, 2], [2, -1]]), np.array([-1.5, 0.5]), np.array([-0.5, 0.25]),
         np.array([1, 0]), np.array([1, 0])),
        ("all-integer arrays, 0/1 outcomes (docstring form)", np.array([[1, 1], [1, -1]]), np.array([-1, 0]), np.array([-1, 0]), np.array([1, 0]), np.array([1, 0])),
    ]


def obligations(tier):
    T = tier == "thorough"
    obs = []
    for q0, q1 in [(1, 2), (2, 2), (2, 3), (3, 2), (3, 3)]:
        obs.append(ob_conversion(q0, q1))
        obs.append(ob_constructor(q0, q1))
    obs.append(ob_default_tol_and_shape())
    shapes = [(2, 2), (2, 3), (3, 2), (1, 3)]
    for q0, q1 in shapes:
        for bits in itertools.product([0, 1], repeat=q0 * q1):
            obs.append(ob_classical(np.array(bits).reshape(q0, q1)))
    rng = np.random.default_rng(0)
    preds33 = list(itertools.product([0, 1], repeat=9)) if T else [tuple(rng.integers(0, 2, size=9)) for _ in range(16)]
    for bits in preds33:
        obs.append(ob_classical(np.array(bits).reshape(3, 3)))
    if T:
        for q0, q1 in [(4, 2), (2, 4)]:
            for bits in list(itertools.product([0, 1], repeat=8))[::4]:
                obs.append(ob_classical(np.array(bits).reshape(q0, q1)))
    for reps in [1, 2, 3]:
        obs.append(ob_value_formula(reps))
    for name, p, f in xor_instances():
        obs.append(SdpTask("quantum_value.program_is_tsirelson_dual", {"game": name}, (lambda p=p, f=f: XORGame(p, f).quantum_value()), ref_xor, instance=(p, f),
                           value_of=lambda r: 4 * (float(r) - 0.5), tol=1e-3, replay_oracle=xor_oracle))
    # the 0/1 predicate stored with other dtypes (bool, unsigned and signed integers): same program
    for name, p, f in xor_instances()[:2]:
        for storage in ("uint8", "bool", "int64"):
            obs.append(SdpTask("quantum_value.program_is_tsirelson_dual", {"game": name, "predicate_dtype": storage},
                               (lambda p=p, f=f, storage=storage: XORGame(p, np.asarray(f).astype(storage)).quantum_value()), ref_xor, instance=(p, f),
                               value_of=lambda r: 4 * (float(r) - 0.5), tol=1e-3))
    # the converted game's NPA relaxation (level 1) for rectangular question sets: every deterministic strategy is a feasible
    # point with its own value, and the generated constraints imply a non-signalling box (certificates of props/c07.py, run on
    # the game object XORGame.to_nonlocal_game() returns)
    from props.c07 import NpaTask
    for name, p, f in xor_instances():
        q0, q1 = p.shape
        if q0 == q1 and not T:
            continue

        def conv(p=p, f=f):
            g = XORGame(p, f).to_nonlocal_game()
            return np.asarray(g.prob_mat, dtype=float), np.asarray(g.pred_mat, dtype=float)
        for kind in ("classical_le_npa", "npa_implies_ns"):
            obs.append(NpaTask((2, 2, q0, q1), 1, kind, game=conv, game_name="converted XOR game: " + name))
    for inst in bell_instances():
        name = inst[0]
        t = SdpTask("bell_inequality_max.program_is_ppt_constrained_bell_operator_maximisation", {"inequality": name},
                    (lambda inst=inst: bell_inequality_max(*inst[1:])), ref_bell, instance=inst[1:], value_of=lambda r: float(r), tol=1e-3)
        t.weight = 30
        obs.append(t)
    return obs
