"""C18 Symmetric/antisymmetric projectors and combinatorial enumerators are exact."""
from __future__ import annotations

import ast
import itertools
import math
import os
import re
import subprocess
import sys
import time
from fractions import Fraction

import numpy as np

from symnp.core import And, Or, Sym, SymBool, lift
from symnp.harness import Obligation, eq, is_symbolic, jsonable
from props.common import Task
from props.c01 import perm_index
from toqito.perms import antisymmetric_projection, perfect_matchings, perm_sign, symmetric_projection, unique_perms

VERIF = os.path.dirname(os.path.dirname(os.path.abspath(__file__)))
CONTRACT_Q = os.path.join(VERIF, "contracts", "c18_unique_perms.py")
CONTRACT_T = os.path.join(VERIF, "contracts", "c18_unique_perms_len4.py")
CONTRACT_T5 = os.path.join(VERIF, "contracts", "c18_unique_perms_len5.py")
CONTRACT_H = os.path.join(VERIF, "contracts", "c18_unique_perms_history.py")
GRID_TOL = 1e-12        # projector entries must be this close to k/p! before they are lifted to exact rationals
ISO_TOL = 1e-9          # float tolerance of the concrete-instance isometry checks

META = {
    "id": "C18",
    "level": "other",
    "files": ["toqito/perms/symmetric_projection.py", "toqito/perms/antisymmetric_projection.py", "toqito/perms/perm_sign.py",
              "toqito/perms/unique_perms.py", "toqito/perms/perfect_matchings.py", "toqito/perms/permutation_operator.py",
              "toqito/perms/permute_systems.py"],
    "functions": ["toqito.perms.symmetric_projection", "toqito.perms.antisymmetric_projection", "toqito.perms.perm_sign",
                  "toqito.perms.unique_perms", "toqito.perms.perfect_matchings"],
    "explanation": "Projectors: the real symmetric_projection / antisymmetric_projection are called per (d, p); the returned matrix "
                   "depends on (d, p) only, its entries are lifted to exact rationals k/p! and applied to a SYMBOLIC complex test "
                   "vector v of length d^p.  z3 decides, for all v at once: P(Pv) = Pv, P^dagger v = Pv (<=> P = P^dagger entrywise), "
                   "W_sigma P v = (+/-) P v for the adjacent transpositions (thorough: every sigma in S_p), P_sym P_asym v = "
                   "P_asym P_sym v = 0 (p >= 2), P_sym v + P_asym v = v (p = 2) and P v = (1/p!) sum_sigma sgn(sigma) W_sigma v, with "
                   "W_sigma and sgn from the harness's own index map / inversion count (not toqito's permutation_operator / perm_sign).  "
                   "Trace and rank: exact Fraction arithmetic on the lifted entries (concrete per (d, p); no solver content).  "
                   "Isometry (partial=True) forms: concrete-instance check of shape (d^p, rank), V^dagger V = I and V V^dagger = "
                   "oracle projector in floats (orth / qr are LAPACK kernels).  perm_sign: COMPLETE ENUMERATION of a finite space "
                   "(all 873 permutations of 1..6 elements against (-1)^inversions; all pairs of S_2, S_3, S_4 (thorough S_5) for "
                   "multiplicativity) - no solver content.  unique_perms: CrossHair (E3) on a symbolic list under the contract in "
                   "contracts/c18_unique_perms.py; only 'Confirmed over all paths' counts; plus a complete enumeration over a small "
                   "alphabet (engine 'enumeration'); call histories (an enumeration of an equal list abandoned after k items, or advanced "
                   "in lock-step) under contracts/c18_unique_perms_history.py with xs, k symbolic - CrossHair executes functools caches as "
                   "plain calls, so every input of that bound is also replayed on the real interpreter (translator validation of "
                   "CrossHair's interpreter model).  perfect_matchings: symbolic execution of the real function on SYMBOLIC real "
                   "labels assumed pairwise distinct (the `== num[j]` masks are decided by z3 under that assumption); z3 proves that "
                   "every returned row realises, for all label values, one index matching of the harness's own enumeration; that "
                   "these index matchings are pairwise different and (n-1)!! many is finite combinatorics done in the harness; the "
                   "int-argument form and n = 10 are concrete enumeration.",
    "bounds": {
        "quick": "projectors: d in 1..4, p in 1..4, d^p <= 81 (15 pairs), adjacent transpositions; isometry forms same pairs; "
                 "perm_sign: all permutations of n <= 6, all pairs of S_n n <= 4; unique_perms: CrossHair len <= 3, values 0..2 "
                 "(60 s per condition), enumeration len <= 5 over 0..3; perfect_matchings: symbolic labels n in {2,4,6} (ndarray and "
                 "list form), concrete n in {2,4,6}",
        "thorough": "projectors: all 16 pairs (d^p <= 256), every sigma in S_p; perm_sign: + all pairs of S_5; unique_perms: CrossHair "
                    "len <= 4, values 0..3 (900 s per condition) and len <= 5, values 0..4 (1200 s per condition), enumeration "
                    "len <= 6 over 0..5; perfect_matchings: symbolic labels "
                    "n <= 8, concrete n <= 10 (symbolic n = 10 does not finish: ~7500 label comparisons with a growing path "
                    "condition)",
    },
    "trusted_base": ["numpy object-array semantics = numeric semantics (translator validation per obligation)", "z3 5.1.0",
                     "CrossHair's path exploration / 'Confirmed over all paths' verdict (unique_perms)",
                     "W_sigma index maps form a representation of S_p (adjacent transpositions generate; quick tier)",
                     "python Fraction arithmetic (trace, rank)"],
    "outside_claim": ["numerical accuracy of scipy.linalg.orth / numpy.linalg.qr beyond 1e-9 on the concrete instances",
                      "d^p above 256; list lengths / label counts above the bound",
                      "sparse variants: symmetric_projection / antisymmetric_projection offer no sparse flag in this tree",
                      "orthogonality of the two projectors for p = 1 (both are the identity: S_1 is trivial; the property's "
                      "'orthogonal' is read for p >= 2)",
                      "perfect_matchings(2-element input) returns the single matching as a 1-D array: accepted as one row"],
    "assumptions": ["projector entries are lifted from floats to exact rationals k/p! (each entry must be within 1e-12 of the grid, "
                    "otherwise the obligation fails); everything proved about P is proved about the lifted matrix",
                    "perfect_matchings labels: real numbers, pairwise distinct (the docstring's precondition)",
                    "floats modelled as reals"],
}


# =================================================================================================
# shared helpers (own oracle: index maps, signs, exact lifting)
# =================================================================================================
class NotOnGrid(Exception):
    """the matrix returned by toqito is not a d^p x d^p array with entries k/p! (to 1e-12)"""


def inversions(perm):
    return sum(1 for a in range(len(perm)) for b in range(a + 1, len(perm)) if perm[a] > perm[b])


def sign(perm):
    return -1 if inversions(perm) % 2 else 1


def binom(n, k):
    return math.comb(n, k) if 0 <= k <= n else 0


def expected_rank(kind, d, p):
    return binom(d + p - 1, p) if kind == "sym" else binom(d, p)


def adjacent_transpositions(p):
    out = []
    for k in range(p - 1):
        s = list(range(p))
        s[k], s[k + 1] = s[k + 1], s[k]
        out.append(tuple(s))
    return out


def fn_of(kind):
    return symmetric_projection if kind == "sym" else antisymmetric_projection


def fname(kind):
    return "symmetric_projection" if kind == "sym" else "antisymmetric_projection"


def lift_rows(P, d, p, what):
    """float matrix from toqito -> sparse rows {col: Fraction(k, p!)}; raises NotOnGrid if that is not what it is"""
    N = d ** p
    if hasattr(P, "toarray"):
        P = P.toarray()
    P = np.asarray(P)
    if P.ndim != 2 or P.shape != (N, N):
        raise NotOnGrid(f"{what}: shape {P.shape}, expected {(N, N)}")
    if P.dtype == object:
        raise NotOnGrid(f"{what}: object dtype")
    f = math.factorial(p)
    if np.iscomplexobj(P):
        if np.max(np.abs(P.imag), initial=0.0) > GRID_TOL:
            raise NotOnGrid(f"{what}: imaginary parts up to {np.max(np.abs(P.imag))}")
        P = P.real
    S = P.astype(float) * f
    K = np.rint(S)
    dev = float(np.max(np.abs(S - K), initial=0.0)) / f
    if not np.all(np.isfinite(S)) or dev > GRID_TOL:
        raise NotOnGrid(f"{what}: entry {dev:.3e} away from the grid k/{f}")
    rows = []
    for a in range(N):
        nz = np.nonzero(K[a])[0]
        rows.append({int(c): Fraction(int(K[a, c]), f) for c in nz})
    return rows


def real_projector(kind, d, p):
    """the REAL toqito call + exact lifting"""
    return lift_rows(fn_of(kind)(d, p), d, p, f"{fname(kind)}({d}, {p})")


def transpose_conj(rows):
    N = len(rows)
    out = [dict() for _ in range(N)]
    for a, r in enumerate(rows):
        for c, v in r.items():
            out[c][a] = v          # entries are real rationals: conj = id
    return out


def vec(xs):
    xs = list(xs)
    if any(isinstance(x, Sym) for x in xs):
        out = np.empty(len(xs), dtype=object)
        for k, x in enumerate(xs):
            out[k] = x
        return out
    return np.array(xs)


def entries(v):
    a = np.asarray(v, dtype=object) if is_symbolic(v) else np.asarray(v)
    return [a[k] for k in range(a.shape[0])]


def matvec(rows, v):
    """exact sparse matrix (rational) times vector (list of Sym or numbers)"""
    symb = any(isinstance(x, Sym) for x in v)
    out = []
    for r in rows:
        tot = lift(0) if symb else 0.0
        for c, q in r.items():
            tot = tot + (v[c] * q if symb else v[c] * float(q))
        out.append(tot)
    return out


def w_apply(perm, d, p, v):
    """(W_perm v): own multi-index map, out subsystem k = in subsystem perm[k]"""
    idx = perm_index(list(perm), [d] * p)
    return [v[r] for r in idx]


def scaled(v, s):
    return [x * s for x in v]


def neg_bump(exp):
    """deliberately wrong expected value: first cell + 1"""
    if isinstance(exp, (list, tuple)):
        return type(exp)([neg_bump(exp[0])] + list(exp[1:]))
    a = np.array(exp, dtype=object) if is_symbolic(exp) else np.array(exp, dtype=complex)
    a.flat[0] = a.flat[0] + 1
    return a


def build_v(d, p):
    def build(b):
        return {"v": b.array("v", (d ** p,), "c")}
    return build


def weight_of(d, p):
    return max(1, (d ** p) // 8)


# =================================================================================================
# projectors: solver obligations (symbolic test vector)
# =================================================================================================
def ob_idempotent(kind, d, p):
    def call(i):
        P = real_projector(kind, d, p)
        return vec(matvec(P, matvec(P, entries(i["v"]))))

    def oracle(i):
        return vec(matvec(real_projector(kind, d, p), entries(i["v"])))
    return Obligation(f"{fname(kind)}.idempotent_P_Pv_eq_Pv", {"d": d, "p": p}, build_v(d, p), call, oracle, neg=neg_bump,
                      weight=weight_of(d, p))


def ob_hermitian(kind, d, p):
    def call(i):
        return vec(matvec(transpose_conj(real_projector(kind, d, p)), entries(i["v"])))

    def oracle(i):
        return vec(matvec(real_projector(kind, d, p), entries(i["v"])))
    return Obligation(f"{fname(kind)}.hermitian_Pdagger_v_eq_Pv", {"d": d, "p": p}, build_v(d, p), call, oracle, neg=neg_bump,
                      weight=weight_of(d, p))


def ob_perm_action(kind, d, p, sigma):
    s = 1 if kind == "sym" else sign(sigma)

    def call(i):
        return vec(w_apply(sigma, d, p, matvec(real_projector(kind, d, p), entries(i["v"]))))

    def oracle(i):
        return vec(scaled(matvec(real_projector(kind, d, p), entries(i["v"])), s))
    nm = "fixed_by_permutation_W_Pv_eq_Pv" if kind == "sym" else "permutation_acts_as_sign_W_Pv_eq_sgn_Pv"
    return Obligation(f"{fname(kind)}.{nm}", {"d": d, "p": p, "sigma": list(sigma), "sign": s}, build_v(d, p), call, oracle,
                      neg=neg_bump, weight=weight_of(d, p))


def ob_definition(kind, d, p):
    """P v = (1/p!) sum_sigma sgn(sigma) W_sigma v - the unique Hermitian idempotent of the stated rank and symmetry"""
    def call(i):
        return vec(matvec(real_projector(kind, d, p), entries(i["v"])))

    def oracle(i):
        v = entries(i["v"])
        f = Fraction(1, math.factorial(p))
        tot = None
        for sg in itertools.permutations(range(p)):
            s = 1 if kind == "sym" else sign(sg)
            w = w_apply(sg, d, p, v)
            tot = [x * s for x in w] if tot is None else [t + x * s for t, x in zip(tot, w)]
        return vec([t * (f if isinstance(t, Sym) else float(f)) for t in tot])
    return Obligation(f"{fname(kind)}.equals_signed_average_of_own_permutation_maps", {"d": d, "p": p}, build_v(d, p), call, oracle,
                      neg=neg_bump, weight=weight_of(d, p))


def ob_orthogonal(d, p):
    def call(i):
        Ps, Pa = real_projector("sym", d, p), real_projector("asym", d, p)
        v = entries(i["v"])
        return [vec(matvec(Ps, matvec(Pa, v))), vec(matvec(Pa, matvec(Ps, v)))]

    def oracle(i):
        z = [x * 0 for x in entries(i["v"])]
        return [vec(z), vec(z)]
    return Obligation("projectors.mutually_orthogonal_Ps_Pa_v_eq_0", {"d": d, "p": p}, build_v(d, p), call, oracle, neg=neg_bump,
                      weight=weight_of(d, p))


def ob_sum_identity(d):
    p = 2

    def call(i):
        Ps, Pa = real_projector("sym", d, p), real_projector("asym", d, p)
        v = entries(i["v"])
        return vec([a + b for a, b in zip(matvec(Ps, v), matvec(Pa, v))])

    def oracle(i):
        return vec(entries(i["v"]))
    return Obligation("projectors.p2_sum_to_identity_Ps_v_plus_Pa_v_eq_v", {"d": d, "p": p}, build_v(d, p), call, oracle, neg=neg_bump)


# =================================================================================================
# concrete-instance tasks
# =================================================================================================
class ConcreteTask(Task):
    """one real call, judged exactly; `replay` re-executes it"""

    def replay(self, rp):
        rec = self.run(0)
        print({k: rec.get(k) for k in ("status", "violation", "notes")})
        return rec["status"] == "discharged"


def exact_rank(rows, N):
    """rank over Q by Gaussian elimination on sparse Fraction rows"""
    work = [dict(r) for r in rows if r]
    rank = 0
    while work:
        piv = work.pop()
        if not piv:
            continue
        c0 = min(piv)
        pv = piv[c0]
        rank += 1
        nxt = []
        for r in work:
            if c0 in r:
                fac = r[c0] / pv
                for c, val in piv.items():
                    nv = r.get(c, 0) - fac * val
                    if nv == 0:
                        r.pop(c, None)
                    else:
                        r[c] = nv
            if r:
                nxt.append(r)
        work = nxt
    return rank


class TraceRankTask(ConcreteTask):
    engine = "exact rational arithmetic on the lifted entries (concrete per (d,p); no solver content)"

    def __init__(self, kind, d, p):
        super().__init__(f"{fname(kind)}.trace_and_rank_equal_binomial", {"d": d, "p": p})
        self.kind, self.d, self.p = kind, d, p
        self.weight = weight_of(d, p)

    def _run(self, rec, seed):
        kind, d, p = self.kind, self.d, self.p
        callstr = f"{fname(kind)}({d}, {p})"
        want = expected_rank(kind, d, p)
        try:
            rows = real_projector(kind, d, p)
        except Exception as e:  # noqa: BLE001 - the real call raised, or its result is not a rational d^p x d^p matrix
            rec["status"] = "violation"
            rec["violation"] = {"call": callstr, "actual": f"{type(e).__name__}: {e}",
                                "expected": f"{d**p}x{d**p} matrix with entries k/{p}!, trace = rank = {want}"}
            return
        tr = sum((r.get(a, Fraction(0)) for a, r in enumerate(rows)), Fraction(0))
        rk = exact_rank(rows, d ** p)
        rec["queries"] = 0
        rec["exact_checks"] = 2
        rec["notes"].append(f"trace={tr} rank={rk} expected={want}")
        if tr == want and rk == want:
            rec["status"] = "discharged"
            # negative control: the same test must reject binomial+1
            rec["neg_control"] = not (tr == want + 1 and rk == want + 1)
            rec["reachable"] = True
        else:
            rec["status"] = "violation"
            rec["violation"] = {"call": callstr, "actual": {"trace": str(tr), "rank": rk},
                                "expected": {"trace": str(want), "rank": want,
                                             "formula": "binom(d+p-1,p)" if kind == "sym" else "binom(d,p)"}}


def oracle_projector_float(kind, d, p):
    N = d ** p
    M = np.zeros((N, N))
    for sg in itertools.permutations(range(p)):
        s = 1 if kind == "sym" else sign(sg)
        idx = perm_index(list(sg), [d] * p)
        for a, r in enumerate(idx):
            M[a, r] += s
    return M / math.factorial(p)


class IsometryTask(ConcreteTask):
    engine = "concrete instance (float, tol 1e-9): orth/qr are LAPACK kernels, outside solver reach"

    def __init__(self, kind, d, p):
        super().__init__(f"{fname(kind)}.partial_form_is_isometry_onto_subspace", {"d": d, "p": p, "partial": True})
        self.kind, self.d, self.p = kind, d, p
        self.weight = weight_of(d, p)

    def _run(self, rec, seed):
        kind, d, p = self.kind, self.d, self.p
        N, r = d ** p, expected_rank(kind, d, p)
        callstr = f"{fname(kind)}({d}, {p}, partial=True)"
        rec["queries"] = 0
        try:
            V = fn_of(kind)(d, p, True)
        except Exception as e:  # noqa: BLE001
            rec["status"] = "violation"
            rec["violation"] = {"call": callstr, "actual": f"{type(e).__name__}: {e}", "expected": f"array of shape {(N, r)}"}
            return
        if hasattr(V, "toarray"):
            V = V.toarray()
        shape = tuple(np.shape(V))
        if not isinstance(V, np.ndarray) or shape != (N, r):
            rec["status"] = "violation"
            rec["violation"] = {"call": callstr, "actual": {"type": type(V).__name__, "shape": list(shape)},
                                "expected": {"shape": [N, r], "what": "d^p x rank matrix with orthonormal columns"}}
            return
        V = np.asarray(V, dtype=complex)
        g = float(np.max(np.abs(V.conj().T @ V - np.eye(r)), initial=0.0))
        q = float(np.max(np.abs(V @ V.conj().T - oracle_projector_float(kind, d, p)), initial=0.0))
        rec["notes"].append(f"shape={shape} max|V^dagger V - I|={g:.2e} max|V V^dagger - P_oracle|={q:.2e}")
        rec["reachable"] = True
        rec["neg_control"] = True if r == 0 else bool(np.max(np.abs(V.conj().T @ V - 2 * np.eye(r))) > ISO_TOL)
        if g <= ISO_TOL and q <= ISO_TOL:
            rec["status"] = "discharged"
        else:
            rec["status"] = "violation"
            rec["violation"] = {"call": callstr, "actual": {"shape": list(shape), "max_abs(V^dagger V - I)": g,
                                                            "max_abs(V V^dagger - P)": q},
                                "expected": {"both": f"<= {ISO_TOL}"}}


# ---- perm_sign: complete enumeration -------------------------------------------------------------
class PermSignParityTask(ConcreteTask):
    engine = "enumeration"

    def __init__(self, n):
        super().__init__("perm_sign.equals_minus_one_to_the_inversions", {"n": n, "permutations": math.factorial(n),
                                                                          "forms": ["list", "ndarray"]})
        self.n = n

    def _run(self, rec, seed):
        n = self.n
        cnt, worst = 0, 0.0
        rec["notes"].append("complete enumeration of a finite space (every permutation of 1..n); no solver content")
        for perm in itertools.permutations(range(1, n + 1)):
            want = sign(perm)
            for form in (list(perm), np.array(perm)):
                got = perm_sign(form)
                cnt += 1
                dev = abs(float(got) - want)
                worst = max(worst, dev)
                if not dev <= 1e-12:
                    rec["status"] = "violation"
                    rec["violation"] = {"call": f"perm_sign({list(perm)})", "actual": float(got), "expected": want}
                    return
        # negative control: the wrong oracle (-1)^(inversions+1) must be rejected by the same comparison
        rec["neg_control"] = abs(float(perm_sign(list(range(1, n + 1)))) - (-1)) > 1e-12
        rec["reachable"] = cnt > 0
        rec["enumerated"] = cnt
        rec["notes"].append(f"{cnt} calls, max deviation {worst:.1e}")
        rec["status"] = "discharged"


class PermSignMultTask(ConcreteTask):
    engine = "enumeration"

    def __init__(self, n):
        super().__init__("perm_sign.multiplicative_over_all_pairs", {"n": n, "pairs": math.factorial(n) ** 2})
        self.n = n

    def _run(self, rec, seed):
        n = self.n
        rec["notes"].append("complete enumeration of a finite space (all pairs of S_n); no solver content")
        perms = list(itertools.permutations(range(1, n + 1)))
        sg = {q: float(perm_sign(list(q))) for q in perms}
        cnt = 0
        for a in perms:
            for b in perms:
                comp = tuple(a[b[k] - 1] for k in range(n))     # (a o b)(k) = a(b(k)), 1-indexed
                cnt += 1
                got = float(perm_sign(list(comp)))
                want = sg[a] * sg[b]
                if not abs(got - want) <= 1e-12:
                    rec["status"] = "violation"
                    rec["violation"] = {"call": f"perm_sign({list(comp)}) vs perm_sign({list(a)})*perm_sign({list(b)})",
                                        "actual": got, "expected": want}
                    return
        rec["enumerated"] = cnt
        rec["reachable"] = True
        rec["neg_control"] = (n < 2) or any(abs(sg[a] - 1.0) > 1e-12 for a in perms)   # the sign is not constantly +1
        rec["status"] = "discharged"


# ---- unique_perms --------------------------------------------------------------------------------
def rearrangement_verdict(xs):
    """the property on the REAL function for one concrete list"""
    got = list(unique_perms(list(xs)))
    want = set(itertools.permutations(xs))
    return (len(got) == len(want) and set(got) == want), got, want


class UniquePermsEnumTask(ConcreteTask):
    engine = "enumeration"

    def __init__(self, maxlen, nvals):
        super().__init__("unique_perms.each_rearrangement_once_finite_alphabet",
                         {"max_len": maxlen, "values": f"0..{nvals - 1}", "lists": sum(nvals ** k for k in range(maxlen + 1))})
        self.maxlen, self.nvals = maxlen, nvals
        self.weight = 5 if maxlen <= 5 else 200

    def _run(self, rec, seed):
        rec["notes"].append("complete enumeration of every list over the alphabet up to the length bound; no solver content")
        cnt = 0
        for L in range(self.maxlen + 1):
            for xs in itertools.product(range(self.nvals), repeat=L):
                ok, got, want = rearrangement_verdict(xs)
                cnt += 1
                if not ok:
                    rec["status"] = "violation"
                    rec["violation"] = {"call": f"list(unique_perms({list(xs)}))", "actual": jsonable(got)[:50],
                                        "expected": f"each of the {len(want)} distinct rearrangements once"}
                    return
        rec["enumerated"] = cnt
        rec["reachable"] = True
        rec["neg_control"] = len(list(unique_perms([0, 0]))) != 2     # len(xs)! would be the wrong count
        rec["status"] = "discharged"


_LINE = re.compile(r"^(?P<file>.*?):(?P<line>\d+):\s*(?P<lvl>info|error|warning):\s*(?P<msg>.*)$")


def function_spans(path):
    with open(path) as f:
        tree = ast.parse(f.read())
    return [(n.name, n.lineno, n.end_lineno) for n in tree.body if isinstance(n, ast.FunctionDef)]


def parse_crosshair(out, path):
    """-> {function name: (kind, message)} with kind in confirmed | counterexample | other"""
    spans = function_spans(path)
    res = {}
    for ln in out.splitlines():
        m = _LINE.match(ln.strip())
        if not m or os.path.basename(m["file"]) != os.path.basename(path):
            continue
        line, msg = int(m["line"]), m["msg"]
        fn = next((nm for nm, a, b in spans if a <= line <= b), None)
        if fn is None:
            continue
        if m["lvl"] == "info" and msg.startswith("Confirmed over all paths"):
            kind = "confirmed"
        elif m["lvl"] == "error" and "when calling" in msg:
            kind = "counterexample"
        else:
            kind = "other"
        res[fn] = (kind, msg)
    return res


def counterexample_kwargs(msg):
    """'when calling f(xs=[0, 1], k=1, lockstep=False)' -> {'xs': [0, 1], 'k': 1, 'lockstep': False}"""
    m = re.search(r"when calling \w+\((.*?)\)(?: \(which|\s*$)", msg)
    if not m:
        return None
    try:
        call = ast.parse(f"f({m.group(1)})", mode="eval").body
        out = {nm: ast.literal_eval(a) for nm, a in zip(("xs", "k", "lockstep"), call.args)}
        out.update({kw.arg: ast.literal_eval(kw.value) for kw in call.keywords})
        return out or None
    except Exception:  # noqa: BLE001
        return None


def history_verdict(xs, k=0, lockstep=False):
    """replay of a history counterexample on the real generator, outside CrossHair"""
    import itertools as it
    g = unique_perms(list(xs))
    for _ in range(int(k)):
        try:
            next(g)
        except StopIteration:
            break
    got = []
    for t in unique_perms(list(xs)):
        got.append(tuple(t))
        if lockstep:
            try:
                next(g)
            except StopIteration:
                pass
    want = set(it.permutations(xs))
    return (len(got) == len(want) and set(got) == want), got, want


def counterexample_args(msg):
    m = re.search(r"when calling \w+\((.*?)\)(?: \(which|\s*$)", msg)
    if not m:
        return None
    s = re.sub(r"^\s*\w+\s*=\s*", "", m.group(1))
    try:
        return list(ast.literal_eval(s))
    except Exception:  # noqa: BLE001
        return None


class CrossHairTask(Task):
    engine = "E3-crosshair"

    def __init__(self, name, cfg, path, main, twins, negs, timeout, verdict=None):
        super().__init__(name, dict(cfg, contract_file=os.path.relpath(path, VERIF), per_condition_timeout_s=timeout))
        self.path, self.main, self.twins, self.negs, self.timeout = path, main, twins, negs, timeout
        self.verdict = verdict      # verdict(*counterexample args) -> (holds, got, want): replay on the real function
        self.wall_cap_s = timeout * (1 + len(twins) + len(negs)) + 120
        self.weight = 1000

    def _run(self, rec, seed):
        py = os.path.join(VERIF, ".venv", "bin", "python")
        if not os.path.exists(py):
            py = sys.executable
        cmd = [py, "-m", "crosshair", "check", "--report_all", "--per_condition_timeout", str(self.timeout), self.path]
        rec["cmd"] = " ".join(cmd)
        t0 = time.time()
        try:
            pr = subprocess.run(cmd, capture_output=True, text=True, cwd=VERIF, timeout=self.wall_cap_s)
            out = pr.stdout + "\n" + pr.stderr
        except subprocess.TimeoutExpired as e:
            rec["notes"].append(f"crosshair killed after {self.wall_cap_s}s")
            out = (e.stdout or b"").decode() if isinstance(e.stdout, bytes) else (e.stdout or "")
        rec["solver_s"] = round(time.time() - t0, 2)
        res = parse_crosshair(out, self.path)
        rec["queries"] = len(res)
        rec["crosshair"] = {k: f"{v[0]}: {v[1][:160]}" for k, v in res.items()}
        ok = True
        # reachability twins and negative controls MUST be refuted
        for nm in self.twins:
            if res.get(nm, ("missing", ""))[0] != "counterexample":
                ok = False
                rec["notes"].append(f"reachability twin {nm} not refuted ({res.get(nm, ('missing', ''))[0]}): vacuous")
        rec["reachable"] = all(res.get(nm, ("", ""))[0] == "counterexample" for nm in self.twins)
        for nm in self.negs:
            if res.get(nm, ("missing", ""))[0] != "counterexample":
                ok = False
                rec["notes"].append(f"negative control {nm} not refuted ({res.get(nm, ('missing', ''))[0]})")
        rec["neg_control"] = all(res.get(nm, ("", ""))[0] == "counterexample" for nm in self.negs)
        kind, msg = res.get(self.main, ("missing", ""))
        if kind == "counterexample":
            args = counterexample_kwargs(msg) if self.verdict else None
            xs = counterexample_args(msg)
            xs = xs[0] if xs and isinstance(xs[0], (list, tuple)) else xs
            rec["disagreements_checked"] = 1
            if xs is None and args is None:
                rec["notes"].append(f"counterexample not parseable: {msg[:200]}")
                return
            if self.verdict:
                if args is None:
                    rec["notes"].append(f"counterexample not parseable: {msg[:200]}")
                    return
                holds, got, want = self.verdict(**args)
                call = f"{self.verdict.__name__}({args})"
                inputs = args
            else:
                holds, got, want = rearrangement_verdict(xs)      # replay on the REAL function, outside CrossHair
                call, inputs = f"list(unique_perms({list(xs)}))", {"xs": list(xs)}
            if not holds:
                rec["status"] = "violation"
                rec["violation"] = {"source": "CrossHair counterexample, replayed", "call": call,
                                    "inputs": inputs, "actual": jsonable(got)[:60],
                                    "expected": f"each of the {len(want)} distinct rearrangements exactly once"}
            else:
                rec["notes"].append(f"CrossHair counterexample {xs} did not reproduce on the real function")
            return
        if kind == "confirmed" and ok and self.verdict:
            # translator validation of CrossHair's model of the interpreter: CrossHair executes functools caches as plain
            # calls (and restarts module state per path), so state shared between calls through a cache is invisible to it.
            # Every input inside the contract's bound is therefore also run on the real interpreter.
            n_tv = 0
            for L in range(0, 4):
                for xs in itertools.product(range(3), repeat=L):
                    for k in range(0, 4):
                        for lock in (False, True):
                            n_tv += 1
                            holds, got, want = self.verdict(list(xs), k, lock)
                            if not holds:
                                rec["tv"] = False
                                rec["status"] = "violation"
                                rec["violation"] = {"source": "CrossHair confirmed the contract on its model of the interpreter, but the real interpreter "
                                                              "violates it at this input of the same bound (state kept between calls, e.g. a functools "
                                                              "cache, which CrossHair does not model)",
                                                    "call": f"{self.verdict.__name__}({list(xs)}, {k}, {lock})",
                                                    "inputs": {"xs": list(xs), "k": k, "lockstep": lock}, "actual": jsonable(got)[:60],
                                                    "expected": f"each of the {len(want)} distinct rearrangements exactly once"}
                                return
            rec["tv"] = True
            rec["notes"].append(f"translator validation: {n_tv} inputs of the bound replayed on the real interpreter")
        if kind == "confirmed" and ok:
            rec["status"] = "discharged"
        else:
            rec["notes"].append(f"main condition: {kind} {msg[:160]}" if kind != "confirmed" else "guards failed")

    def replay(self, rp):
        if self.verdict:
            return self.verdict(**rp["violation"]["inputs"])[0]
        xs = rp["violation"]["inputs"]["xs"]
        return rearrangement_verdict(xs)[0]


# ---- perfect_matchings ---------------------------------------------------------------------------
def double_factorial_odd(n):
    """(n-1)!! for even n"""
    r = 1
    for k in range(n - 1, 0, -2):
        r *= k
    return r


def index_matchings(idx):
    """own enumeration: all perfect matchings of the index list, each a frozenset of frozenset pairs"""
    idx = list(idx)
    if not idx:
        return [frozenset()]
    a = idx[0]
    out = []
    for k in range(1, len(idx)):
        rest = idx[1:k] + idx[k + 1:]
        for m in index_matchings(rest):
            out.append(m | {frozenset((a, idx[k]))})
    return out


def same(a, b):
    if isinstance(a, Sym) or isinstance(b, Sym):
        return lift(a).eq_solver(b)
    return bool(a == b)


def hint_index(x, labels):
    """which label is x?  symbolic: identical normal form; numeric: equal value.  None if no / several labels fit"""
    hits = []
    for k, l in enumerate(labels):
        if isinstance(x, Sym) or isinstance(l, Sym):
            if lift(x).key() == lift(l).key():
                hits.append(k)
        elif x == l:
            hits.append(k)
    return hits[0] if len(hits) == 1 else None


def matchings_post(res, expected, inputs):
    """every row realises (for all label values) one index matching of the oracle; those are pairwise different, and
    there are (n-1)!! rows.  `expected` = (n, list of index matchings) from the oracle."""
    n, oracle = expected
    labels = entries(inputs["lab"])
    R = np.asarray(res, dtype=object) if is_symbolic(res) else np.asarray(res)
    if R.ndim == 1 and n == 2:
        R = R.reshape(1, -1)       # the 2-object base case returns the single matching as a 1-D array
    if R.ndim != 2 or R.shape != (len(oracle), n):
        return False
    oracle_set = set(oracle)
    seen = set()
    conj = []
    for r in range(R.shape[0]):
        hint = [hint_index(R[r, k], labels) for k in range(n)]
        if any(h is None for h in hint):
            return False
        M = frozenset(frozenset((hint[2 * k], hint[2 * k + 1])) for k in range(n // 2))
        if M not in oracle_set or M in seen:      # not a perfect matching of the indices / listed twice
            return False
        seen.add(M)
        # solver part: for all (pairwise distinct) label values the row's pairs are the label pairs of M
        for k in range(n // 2):
            a, b = hint[2 * k], hint[2 * k + 1]
            x, y = R[r, 2 * k], R[r, 2 * k + 1]
            conj.append(Or(And(same(x, labels[a]), same(y, labels[b])), And(same(x, labels[b]), same(y, labels[a]))))
    if seen != oracle_set:
        return False
    return And(*conj)


def ob_matchings(n, form):
    cfg = {"n": n, "labels": "symbolic reals, pairwise distinct", "form": form, "count": double_factorial_odd(n)}

    def build(b):
        if b.rnd is not None:      # translator validation: distinct exact constants
            out = np.empty(n, dtype=object)
            for k in range(n):
                out[k] = lift(b._val() + 5 * k)
            from symnp.array import SymArray
            return {"lab": out.view(SymArray)}
        return {"lab": b.array("lab", (n,), "r")}

    def distinct(i):
        lab = entries(i["lab"])
        return [lab[a] != lab[c] for a in range(n) for c in range(a + 1, n)]

    def valid(ni):
        lab = list(np.asarray(ni["lab"]).ravel())
        return len(set(lab)) == len(lab)

    def call(i):
        lab = i["lab"]
        return perfect_matchings(list(lab) if form == "list" else lab)

    def oracle(i):
        return (n, index_matchings(range(n)))

    def neg(exp):
        # wrong oracle: first matching replaced by a non-matching pairing of the same indices -> must be refuted
        nn, ms = exp
        return (nn, ms[1:] + [frozenset([frozenset((0, 0))])]) if len(ms) > 1 else (nn, [frozenset([frozenset((0, 0))])])
    return Obligation("perfect_matchings.symbolic_labels_each_matching_exactly_once", cfg, build, call, oracle, post=matchings_post,
                      assume=distinct, valid=valid, neg=neg, max_paths=8, weight={2: 1, 4: 1, 6: 5, 8: 300}.get(n, 1000),
                      feas_timeout_ms=5000)


class MatchingsConcreteTask(ConcreteTask):
    engine = "enumeration"

    def __init__(self, n, form):
        super().__init__("perfect_matchings.concrete_each_matching_exactly_once", {"n": n, "argument": form,
                                                                                    "count": double_factorial_odd(n)})
        self.n, self.form = n, form
        self.weight = 1 if n <= 8 else 30

    def _run(self, rec, seed):
        n = self.n
        rec["notes"].append("concrete input, compared with the harness's own enumeration of all perfect matchings; no solver content")
        if self.form == "int":
            arg, labels, callstr = n, list(range(n)), f"perfect_matchings({n})"
        else:
            labels = [3 * k * k + 7 for k in range(n)][::-1]          # distinct, unsorted, not 0..n-1
            arg = np.array(labels) if self.form == "ndarray" else list(labels)
            callstr = f"perfect_matchings({'np.array(' if self.form == 'ndarray' else ''}{labels}{')' if self.form == 'ndarray' else ''})"
        R = np.asarray(perfect_matchings(arg))
        if R.ndim == 1 and n == 2:
            R = R.reshape(1, -1)
        want = set(index_matchings(labels))
        rows = [frozenset(frozenset((R[r, 2 * k].item(), R[r, 2 * k + 1].item())) for k in range(n // 2)) for r in range(R.shape[0])] \
            if R.ndim == 2 and R.shape[1] == n else None
        ok = rows is not None and len(rows) == double_factorial_odd(n) and len(set(rows)) == len(rows) and set(rows) == want \
            and all(sorted(R[r].tolist()) == sorted(labels) for r in range(R.shape[0]))
        rec["reachable"] = True
        rec["neg_control"] = rows is not None and (len(want) < 2 or set(rows[1:]) != want)
        rec["enumerated"] = len(want)
        if ok:
            rec["status"] = "discharged"
        else:
            rec["status"] = "violation"
            rec["violation"] = {"call": callstr, "actual": {"shape": list(R.shape), "distinct_rows": None if rows is None else len(set(rows))},
                                "expected": {"rows": double_factorial_odd(n), "what": "each perfect matching exactly once"}}


# =================================================================================================
def obligations(tier):
    T = tier == "thorough"
    obs = []
    pairs = [(d, p) for d in range(1, 5) for p in range(1, 5) if d ** p <= (256 if T else 81)]
    for d, p in pairs:
        for kind in ("sym", "asym"):
            obs.append(ob_idempotent(kind, d, p))
            obs.append(ob_hermitian(kind, d, p))
            obs.append(ob_definition(kind, d, p))
            sigmas = adjacent_transpositions(p)
            if T:
                sigmas = [s for s in itertools.permutations(range(p)) if s != tuple(range(p))]
            for sg in sigmas:
                obs.append(ob_perm_action(kind, d, p, sg))
            obs.append(TraceRankTask(kind, d, p))
            obs.append(IsometryTask(kind, d, p))
        if p >= 2:
            obs.append(ob_orthogonal(d, p))
        if p == 2:
            obs.append(ob_sum_identity(d))
    # perm_sign: finite space, complete enumeration
    for n in range(1, 7):
        obs.append(PermSignParityTask(n))
    for n in [2, 3, 4] + ([5] if T else []):
        obs.append(PermSignMultTask(n))
    # unique_perms: CrossHair + finite-alphabet enumeration
    obs.append(CrossHairTask("unique_perms.each_rearrangement_once_crosshair", {"max_len": 3, "values": "0..2"}, CONTRACT_Q,
                             "_unique_perms_each_rearrangement_once",
                             ["_unique_perms_reachability_twin", "_unique_perms_reachability_twin_three_rearrangements"],
                             ["_unique_perms_negative_control_wrong_count", "_unique_perms_negative_control_mutant"], 60))
    obs.append(CrossHairTask("unique_perms.each_rearrangement_once_after_abandoned_or_interleaved_enumeration_crosshair",
                             {"max_len": 3, "values": "0..2", "abandoned_after": "0..3 items", "lockstep": "both"}, CONTRACT_H,
                             "_unique_perms_after_abandoned_enumeration", ["_unique_perms_history_reachability_twin"],
                             ["_unique_perms_history_negative_control_mutant"], 60 if not T else 300, verdict=history_verdict))
    if T:
        obs.append(CrossHairTask("unique_perms.each_rearrangement_once_crosshair", {"max_len": 4, "values": "0..3"}, CONTRACT_T,
                                 "_unique_perms_each_rearrangement_once_len4", ["_unique_perms_reachability_twin_len4"],
                                 ["_unique_perms_negative_control_wrong_count_len4"], 900))
        obs.append(CrossHairTask("unique_perms.each_rearrangement_once_crosshair", {"max_len": 5, "values": "0..4"}, CONTRACT_T5,
                                 "_unique_perms_each_rearrangement_once_len5", ["_unique_perms_reachability_twin_len5"],
                                 ["_unique_perms_negative_control_wrong_count_len5"], 1200))
    obs.append(UniquePermsEnumTask(6, 6) if T else UniquePermsEnumTask(5, 4))
    # perfect_matchings
    for n in [2, 4, 6] + ([8] if T else []):
        for form in ("ndarray", "list"):
            if n == 8 and form == "list":
                continue
            obs.append(ob_matchings(n, form))
    for n in [2, 4, 6] + ([8, 10] if T else []):
        for form in ("int", "ndarray", "list"):
            obs.append(MatchingsConcreteTask(n, form))
    return obs
