"""C06 Channel predicates decide by definition; built-in channels are what they claim."""
from __future__ import annotations

import itertools

import numpy as np

from symnp.core import And, Or, SymBool, lift
from symnp.harness import Obligation, eq, implies
from props.common import dagger, prod
from props.c04 import as_form, build_kraus, choi_oracle, phi
from toqito.channel_ops import apply_channel, kraus_to_choi
from toqito.channel_props import (choi_rank, is_completely_positive, is_extremal, is_herm_preserving, is_positive,
                                  is_quantum_channel, is_trace_preserving, is_unital, is_unitary)
from toqito.channels import (amplitude_damping, bitflip, choi, dephasing, depolarizing, pauli_channel, phase_damping, reduction)

META = {
    "id": "C06",
    "level": "other",
    "files": ["toqito/channel_props/is_completely_positive.py", "toqito/channel_props/is_herm_preserving.py",
              "toqito/channel_props/is_trace_preserving.py", "toqito/channel_props/is_unital.py", "toqito/channel_props/is_unitary.py",
              "toqito/channel_props/is_quantum_channel.py", "toqito/channel_props/is_positive.py", "toqito/channel_props/choi_rank.py",
              "toqito/channel_props/is_extremal.py", "toqito/channels/depolarizing.py", "toqito/channels/dephasing.py",
              "toqito/channels/amplitude_damping.py", "toqito/channels/phase_damping.py", "toqito/channels/bitflip.py",
              "toqito/channels/pauli_channel.py", "toqito/channels/reduction.py", "toqito/channels/choi.py",
              "toqito/matrix_props/is_identity.py", "toqito/matrix_props/is_hermitian.py", "toqito/matrix_props/is_positive_semidefinite.py",
              "toqito/matrix_props/is_unitary.py", "toqito/channel_ops/kraus_to_choi.py", "toqito/channel_ops/apply_channel.py"],
    "functions": ["toqito.channel_props.*", "toqito.channels.depolarizing/dephasing/amplitude_damping/phase_damping/bitflip/pauli_channel/reduction/choi"],
    "explanation": "Bounded symbolic execution of the real predicates on maps whose Kraus / Choi entries are symbolic complex numbers. "
                   "'exact => True': the defining equations are assumed exactly (as polynomial equalities over the same monomials) or "
                   "hold by construction, and every path returning False must be infeasible; 'margin => False': one defining "
                   "residual is assumed to exceed a margin with bounded entries, every path returning True must be infeasible. "
                   "Eigenvalue- and rank-based predicates are proved equal to the stated function of the LAPACK kernel "
                   "(uninterpreted) applied to the oracle's own Choi / product matrix. Constructors: parameters symbolic, the Choi "
                   "matrix acts through the real apply_channel as the textbook formula for all parameters and inputs; complete "
                   "positivity on the admissible range by an eigen-certificate (J = sum lambda_k(p) P_k, lambda_k(p) >= 0, linear "
                   "arithmetic); sqrt-parameterised Kraus constructors: completeness, direct application = Kraus application = "
                   "textbook entries, ValueError exactly outside [0,1] (branch conditions are the proof).",
    "bounds": {"quick": "maps: d in {2,3} (d_in != d_out where accepted), rank<=2; constructors: depolarizing/dephasing/reduction d in {2,3}, Choi map, "
                        "qubit damping/bitflip channels, Pauli channel on 1 qubit with dyadic probability vectors",
               "thorough": "d<=4, rank<=3, Pauli channel on 2 qubits"},
    "trusted_base": ["numpy object-array semantics = numeric semantics (translator validation per obligation)",
                     "LAPACK eigh / matrix_rank as uninterpreted kernels (their numerical thresholds are outside the claim)", "z3 5.1.0"],
    "outside_claim": ["numerical rank threshold of matrix_rank; eigenvalue accuracy", "pauli_channel with a scalar argument (draws from the global np.random state)",
                      "probability vectors of pauli_channel are concrete (they cross a scipy-sparse accumulator)"],
    "assumptions": ["floats modelled as reals"],
}

B = 10  # bound on |entries| in the margin obligations
M = 1e-3  # margin


def bounded(arrs, bnd=B):
    out = []
    for a in arrs:
        for v in np.asarray(a).flat:
            v = lift(v)
            out += [v.real <= bnd, v.real >= -bnd]
            if v.im.t:
                out += [v.imag <= bnd, v.imag >= -bnd]
    return out


def off_by_margin(R, I):
    """some entry of R - I exceeds the margin (in real or imaginary part)"""
    ds = []
    R, I = np.asarray(R), np.asarray(I)
    for idx in np.ndindex(R.shape):
        d = lift(R[idx] - I[idx])
        ds += [d.real > M, d.real < -M]
        if d.im.t:
            ds += [d.imag > M, d.imag < -M]
    return Or(*ds)


def num_bounded(arrs, bnd=B):
    return all(np.all(np.abs(np.asarray(a)) <= bnd) for a in arrs)


def flat_arrays(i):
    return list(i["A"]) + (list(i["B"]) if i.get("B") is not i.get("A") else [])


def tp_family(din, dout, r, paired=False):
    """concrete trace-preserving Kraus family: an isometry (dout*r) x din cut into r blocks"""
    rng = np.random.default_rng(7)
    W = np.linalg.qr(rng.normal(size=(dout * r, din)) + 1j * rng.normal(size=(dout * r, din)))[0]
    A = [W[k * dout:(k + 1) * dout, :] for k in range(r)]
    return {"A": A, "B": A if not paired else [a.copy() for a in A]}


def unital_family(d, r):
    f = tp_family(d, d, r)
    A = [a.conj().T for a in f["A"]]
    return {"A": A, "B": A}


def verdict_ob(name, cfg, build, fn, expect, assume=None, valid=None, **kw):
    """the real predicate must return `expect` on every feasible path"""
    def call(i):
        return bool(fn(i))     # bool() forks on a symbolic verdict: both outcomes are explored when feasible

    def oracle(i):
        return expect

    def neg(e):
        return not e
    return Obligation(name, cfg, build, call, oracle, assume=assume, valid=valid, neg=neg, tv=kw.pop("tv", False), **kw)


# ---- trace preserving / unital -------------------------------------------------------------------
def tp_residual(i, form):
    tot = None
    for a, b in zip(i["A"], i["B"]):
        t = dagger(a) @ np.asarray(b)
        tot = t if tot is None else tot + t
    return tot


def unital_residual(i):
    tot = None
    for a, b in zip(i["A"], i["B"]):
        t = np.asarray(a) @ dagger(b)
        tot = t if tot is None else tot + t
    return tot


def ob_tp(din, dout, r, form, exact):
    paired = form in ("pairs", "choi_pairs")
    cfg = {"d_in": din, "d_out": dout, "rank": r, "form": form, "case": "exact=>True" if exact else "margin=>False"}

    def build(b):
        A, Bm = build_kraus(b, din, dout, r, paired)
        return {"A": A, "B": Bm}

    def fn(i):
        if form.startswith("choi"):
            J = kraus_to_choi(as_form(i["A"], i["B"], "pairs" if paired else "flat"))
            return is_trace_preserving(J, dim=[din, dout]) if din != dout else is_trace_preserving(J)
        return is_trace_preserving(as_form(i["A"], i["B"], form))

    def assume(i):
        R = tp_residual(i, form)
        I = np.identity(din)
        if exact:
            return [eq(R, I)]
        return bounded(flat_arrays(i)) + [off_by_margin(R, I)]

    def valid(ni):
        R = tp_residual(ni, form)
        I = np.identity(din)
        if exact:
            return bool(np.allclose(R, I, atol=1e-12))
        return num_bounded(flat_arrays(ni)) and bool(np.max(np.abs(R - I)) > 2 * M)
    return verdict_ob("is_trace_preserving.verdict", cfg, build, fn, exact, assume, valid,
                      witness=(lambda: [tp_family(din, dout, r, paired)]) if exact else None)


def ob_unital(d, r, form, exact):
    paired = form in ("pairs", "choi_pairs")
    cfg = {"d": d, "rank": r, "form": form, "case": "exact=>True" if exact else "margin=>False"}

    def build(b):
        A, Bm = build_kraus(b, d, d, r, paired)
        return {"A": A, "B": Bm}

    def fn(i):
        if form.startswith("choi"):
            return is_unital(kraus_to_choi(as_form(i["A"], i["B"], "pairs" if paired else "flat")))
        return is_unital(as_form(i["A"], i["B"], form))

    def assume(i):
        R = unital_residual(i)
        I = np.identity(d)
        if exact:
            return [eq(R, I)]
        return bounded(flat_arrays(i)) + [off_by_margin(R, I)]

    def valid(ni):
        R = unital_residual(ni)
        if exact:
            return bool(np.allclose(R, np.identity(d), atol=1e-12))
        return num_bounded(flat_arrays(ni)) and bool(np.max(np.abs(R - np.identity(d))) > 2 * M)
    return verdict_ob("is_unital.verdict", cfg, build, fn, exact, assume, valid,
                      witness=(lambda: [unital_family(d, r)]) if exact else None)


# ---- Hermiticity preserving ----------------------------------------------------------------------
def ob_hp(din, dout, r, form):
    """by construction: CP maps (flat Kraus), pairs [A, A], Hermitian Choi matrix => True;
    Choi matrix missing Hermiticity by a margin => False"""
    cfg = {"d_in": din, "d_out": dout, "rank": r, "form": form}
    n = din * dout

    def build(b):
        if form == "choi_hermitian":
            return {"J": b.array("J", (n, n), "h")}
        if form == "choi_margin":
            return {"J": b.array("J", (n, n), "c")}
        A, _ = build_kraus(b, din, dout, r, False)
        return {"A": A, "B": A}

    def fn(i):
        if form.startswith("choi"):
            return is_herm_preserving(i["J"])
        return is_herm_preserving(as_form(i["A"], i["B"], form))

    def assume(i):
        if form != "choi_margin":
            return []
        J = np.asarray(i["J"])
        return bounded([J]) + [off_by_margin(J, dagger(J))]

    def valid(ni):
        if form != "choi_margin":
            return True
        J = ni["J"]
        return num_bounded([J]) and bool(np.max(np.abs(J - J.conj().T)) > 2 * M)
    return verdict_ob("is_herm_preserving.verdict", cfg, build, fn, form != "choi_margin", assume, valid)


def ob_hp_rect(din0, dout0, din1, dout1):
    cfg = {"d_in": [din0, din1], "d_out": [dout0, dout1], "form": "pairs (non-square Choi matrix)"}

    def build(b):
        A, Bm = build_kraus(b, din0, dout0, 1, True, din1, dout1)
        return {"A": A, "B": Bm}

    def fn(i):
        return is_herm_preserving(as_form(i["A"], i["B"], "pairs"))
    return verdict_ob("is_herm_preserving.verdict", cfg, build, fn, False)


# ---- CP / positive / quantum channel: verdict == stated function of the eigenvalue kernel --------
def ob_cp(din, dout, r, form, which):
    cfg = {"d_in": din, "d_out": dout, "rank": r, "form": form, "predicate": which}
    n = din * dout
    fnmap = {"is_completely_positive": is_completely_positive, "is_positive": is_positive, "is_quantum_channel": is_quantum_channel}

    def build(b):
        if form == "choi_hermitian":
            return {"J": b.array("J", (n, n), "h")}
        A, Bm = build_kraus(b, din, dout, r, form == "pairs")
        return {"A": A, "B": Bm}

    def J_of(i):
        if form == "choi_hermitian":
            return np.asarray(i["J"])
        return np.asarray(choi_oracle(i["A"], i["B"]))

    def call(i):
        m = i["J"] if form == "choi_hermitian" else as_form(i["A"], i["B"], form)
        return bool(fnmap[which](m))

    def oracle(i):
        return None

    def post(res, exp, i):
        J = J_of(i)
        from symnp.array import SymArray
        herm = True
        w = np.linalg.eigvalsh(J.view(SymArray) if J.dtype == object else J)
        psd = And(*[x >= -1e-8 for x in w])
        want = psd if herm is True else None
        if which == "is_quantum_channel":
            # TP part: Tr_out J = I
            T = np.empty((din, din), dtype=object)
            for a in range(din):
                for c in range(din):
                    T[a, c] = sum(J[a * dout + k, c * dout + k] for k in range(dout))
            tp = eq(T, np.identity(din))
            # exact TP => verdict == psd ; we only claim the implication True => psd, and (psd and exact TP) => True
            if form == "pairs":   # a pair family need not be Hermiticity preserving: only "accepted => eigenvalue test passed"
                return SymBool(implies(res, psd))
            return SymBool(implies(res, psd)) & SymBool(implies(SymBool(psd) & SymBool(tp), res))
        if form == "pairs":
            # a pair family need not be Hermiticity preserving: claim only  verdict True => (eigenvalue test passes)
            return implies(res, psd)
        return SymBool(res) == psd
    wit = None
    if form in ("flat", "pairs") and dout * r >= din:
        wit = lambda: [tp_family(din, dout, r, form == "pairs")]
    return Obligation("cp_positive_channel.verdict_is_eigenvalue_test_of_choi_matrix", cfg, build, call, oracle, post=post,
                      neg_control=False, tv=False, max_paths=64, witness=wit)


def ob_cp_margin(din, dout):
    """non-Hermitian Choi matrix by a margin is never accepted as CP"""
    cfg = {"d_in": din, "d_out": dout, "case": "non-Hermitian by margin => not CP, not a channel"}
    n = din * dout

    def build(b):
        return {"J": b.array("J", (n, n), "c")}

    def fn(i):
        return is_completely_positive(i["J"]) or is_quantum_channel(i["J"])

    def assume(i):
        J = np.asarray(i["J"])
        return bounded([J]) + [off_by_margin(J, dagger(J))]

    def valid(ni):
        J = ni["J"]
        return num_bounded([J]) and bool(np.max(np.abs(J - J.conj().T)) > 2 * M)
    return verdict_ob("is_completely_positive.rejects_non_hermitian", cfg, build, fn, False, assume, valid)


# ---- choi_rank / is_extremal / is_unitary ----------------------------------------------------------
def ob_choi_rank(din, dout, r, form):
    cfg = {"d_in": din, "d_out": dout, "rank": r, "form": form}

    def build(b):
        A, Bm = build_kraus(b, din, dout, r, form == "pairs")
        return {"A": A, "B": Bm}

    def call(i):
        if form == "choi":
            return choi_rank(kraus_to_choi(list(i["A"])))
        return choi_rank(as_form(i["A"], i["B"], form))

    def oracle(i):
        from symnp.array import SymArray
        J = np.asarray(choi_oracle(i["A"], i["B"]))
        return np.linalg.matrix_rank(J.view(SymArray) if J.dtype == object else J)
    def witness():
        # paired families in which BOTH the left and the right operators are linearly dependent and terms combine:
        # (A + D) X (B + C)^* written as four pairs has Choi rank 1; [[I, I], [I, -I]] is the zero map (rank 0)
        if form != "pairs":
            return []
        rng = np.random.default_rng(8 + din + 3 * dout)
        g = lambda: rng.integers(-3, 4, size=(dout, din)) / 2.0 + 1j * rng.integers(-3, 4, size=(dout, din)) / 2.0   # noqa: E731
        A1, D, B1, C = g(), g(), g(), g()
        out = [{"A": [A1, D, A1, D], "B": [B1, B1, C, C]}]
        if din == dout:
            I = np.eye(din, dtype=complex)
            out.append({"A": [I, I], "B": [I, -I]})
        return out
    return Obligation("choi_rank.is_rank_kernel_of_choi_matrix", cfg, build, call, oracle, neg_control=False, witness=witness)


def ob_extremal(d, r, form):
    cfg = {"d": d, "rank": r, "form": form}

    def build(b):
        A, _ = build_kraus(b, d, d, r, False)
        return {"A": A, "B": A}

    def call(i):
        return is_extremal(as_form(i["A"], i["B"], form))

    def oracle(i):
        if r == 1:
            return True
        from symnp.array import SymArray
        cols = []
        for a in i["A"]:
            for c in i["A"]:
                cols.append(np.asarray(dagger(a) @ np.asarray(c)).reshape(-1))
        Mm = np.stack(cols, axis=1)
        rk = np.linalg.matrix_rank(Mm.view(SymArray) if Mm.dtype == object else Mm, tol=1e-9)
        return rk == r * r

    def post(res, exp, i):
        if isinstance(res, (bool, np.bool_)) and isinstance(exp, (bool, np.bool_)):
            return bool(res) == bool(exp)
        return SymBool(res) == SymBool(exp)
    def witness():
        # structured families on which the linear (in)dependence of {A_i^dagger A_j} is known by construction:
        # a proper mixture of complex unitaries is NOT extremal ({I, U0^dagger U1, U1^dagger U0, I} is dependent);
        # amplitude damping followed by a complex unitary IS extremal
        if r != 2:
            return []
        rng = np.random.default_rng(21)
        out = []
        for _ in range(2):
            Us = [np.linalg.qr(rng.normal(size=(d, d)) + 1j * rng.normal(size=(d, d)))[0] for _ in range(2)]
            A = [np.sqrt(0.5) * u for u in Us]
            out.append({"A": A, "B": A})
        # dependency that lives ONLY in the off-diagonal products: A1 = (I+Z)/2, A2 = (I-Z)/2 with the clock matrix Z gives
        # A1^dagger A2 + A2^dagger A1 = (I - Z^dagger Z)/2 = 0 while the diagonal products are independent of each other;
        # and the same channel written with the operators in the other order
        if d >= 3:
            Z = np.diag(np.exp(2j * np.pi * np.arange(d) / d))
            A = [(np.eye(d) + Z) / 2, (np.eye(d) - Z) / 2]
            out.append({"A": A, "B": A})
            out.append({"A": A[::-1], "B": A[::-1]})
        if d == 2:
            g = 0.3
            W = np.array([[1 + 1j, 1 - 1j], [1 - 1j, 1 + 1j]]) / 2
            A = [W @ np.array([[1, 0], [0, np.sqrt(1 - g)]]), W @ np.array([[0, np.sqrt(g)], [0, 0]])]
            out.append({"A": A, "B": A})
        return out
    return Obligation("is_extremal.linear_independence_of_products", cfg, build, call, oracle, post=post, neg_control=False, tv=False,
                      witness=witness)


def ob_unitary(d, n_ops, form, exact):
    cfg = {"d": d, "kraus_ops": n_ops, "form": form, "case": "exact=>True" if exact else ("two operators=>False" if n_ops > 1 else "margin=>False")}

    def build(b):
        A, _ = build_kraus(b, d, d, n_ops, False)
        return {"A": A, "B": A}

    def fn(i):
        return is_unitary(as_form(i["A"], i["B"], form))

    def minors(A0, A1):
        a, c = np.asarray(A0).reshape(-1), np.asarray(A1).reshape(-1)
        return [a[p] * c[q] - a[q] * c[p] for p in range(len(a)) for q in range(p + 1, len(a))]

    def assume(i):
        if n_ops > 1:
            # two LINEARLY INDEPENDENT operators (proportional ones describe a channel with one Kraus operator): some 2x2 minor of
            # [vec A_0, vec A_1] is off zero by the margin, entries bounded
            ms = minors(i["A"][0], i["A"][1])
            if d == 1:
                return [SymBool(False)]
            alts = []
            for m_ in ms:
                m_ = lift(m_)
                alts += [m_.real > M, m_.real < -M, m_.imag > M, m_.imag < -M]
            return bounded(i["A"]) + [Or(*alts)]
        U = np.asarray(i["A"][0])
        I = np.identity(d)
        if exact:
            return [eq(dagger(U) @ U, I), eq(U @ dagger(U), I)]
        return bounded([U]) + [off_by_margin(dagger(U) @ U, I)]

    def valid(ni):
        if n_ops > 1:
            return d > 1 and num_bounded(ni["A"]) and max(abs(complex(m_)) for m_ in minors(ni["A"][0], ni["A"][1])) > 2 * M
        U = ni["A"][0]
        if exact:
            return bool(np.allclose(U.conj().T @ U, np.identity(d), atol=1e-12))
        return num_bounded([U]) and bool(np.max(np.abs(U.conj().T @ U - np.identity(d))) > 2 * M)
    def witness():
        if n_ops == 1:
            return []
        rng = np.random.default_rng(17 + d)
        out = []
        for _ in range(2):
            Us = [np.linalg.qr(rng.normal(size=(d, d)) + 1j * rng.normal(size=(d, d)))[0] for _ in range(2)]
            out.append({"A": [0.6 * Us[0], 0.8 * Us[1]], "B": [0.6 * Us[0], 0.8 * Us[1]]})
        Z = np.diag(np.exp(2j * np.pi * np.arange(d) / d))
        A = [np.identity(d, dtype=complex) * np.sqrt(0.5), Z * np.sqrt(0.5)]
        out.append({"A": A, "B": A})
        return out
    # with several Kraus operators the verdict goes through the eigen-decomposition of the Choi matrix (data-dependent list
    # lengths: one fork per eigenvalue): symbolic execution is cut at 8 paths and the verdict is checked on the witnesses
    return verdict_ob("is_unitary.verdict", cfg, build, fn, exact and n_ops == 1, assume, valid,
                      **({"witness": witness, "max_paths": 8} if n_ops > 1 else {}))


def rescaled_list(A, weights):
    """the same channel written with more Kraus operators than necessary: A_1 is replaced by w_1 A_1, w_2 A_1, ... with
    sum w_k^2 = 1 (rational weights), optionally followed by zero operators"""
    out = []
    numeric = np.asarray(A[0]).dtype != object
    for w in weights:
        out.append(np.asarray(A[0]) * (float(w) if numeric else w))
    return out + [np.asarray(a) for a in A[1:]]


def ob_unitary_nonminimal(d, weights, form):
    """a unitary channel X -> U X U^dagger written with proportional (or zero) Kraus operators is still a unitary channel"""
    cfg = {"d": d, "form": form, "kraus_list": f"U scaled by {list(weights)}", "case": "exact=>True"}

    def build(b):
        return {"U": b.array("U", (d, d), "c")}

    def fn(i):
        A = rescaled_list([i["U"]], weights)
        return is_unitary(as_form(A, A, form))

    def assume(i):
        U = np.asarray(i["U"])
        I = np.identity(d)
        return [eq(dagger(U) @ U, I), eq(U @ dagger(U), I)]

    def valid(ni):
        return bool(np.allclose(ni["U"].conj().T @ ni["U"], np.identity(d), atol=1e-12))

    def witness():
        rng = np.random.default_rng(5 + d)
        out = [{"U": np.linalg.qr(rng.normal(size=(d, d)) + 1j * rng.normal(size=(d, d)))[0]} for _ in range(2)]
        out.append({"U": np.roll(np.identity(d), 1, axis=0).astype(complex)})
        return out
    return verdict_ob("is_unitary.verdict_is_a_property_of_the_channel_not_of_the_kraus_list", cfg, build, fn, True, assume, valid,
                      witness=witness, neg_control=False, max_paths=8)


def ob_extremal_nonminimal(d, r, weights):
    """is_extremal on a Kraus list that is not minimal: the verdict must be the one of a minimal list of the same channel
    (Theorem 2.31 is a statement about linearly independent Kraus operators)"""
    cfg = {"d": d, "rank": r, "kraus_list": f"A_1 scaled by {list(weights)}, then A_2..A_r", "form": "flat"}

    def build(b):
        A, _ = build_kraus(b, d, d, r, False)
        return {"A": A}

    def call(i):
        return is_extremal(rescaled_list(i["A"], weights))

    def oracle(i):
        if r == 1:
            return True
        from symnp.array import SymArray
        cols = []
        for a in i["A"]:
            for c in i["A"]:
                cols.append(np.asarray(dagger(a) @ np.asarray(c)).reshape(-1))
        Mm = np.stack(cols, axis=1)
        rk = np.linalg.matrix_rank(Mm.view(SymArray) if Mm.dtype == object else Mm, tol=1e-9)
        return rk == r * r

    def post(res, exp, i):
        if isinstance(res, (bool, np.bool_)) and isinstance(exp, (bool, np.bool_)):
            return bool(res) == bool(exp)
        return SymBool(res) == SymBool(exp)

    def witness():
        rng = np.random.default_rng(31 + d + r)
        out = []
        if r == 1:
            out.append({"A": [np.linalg.qr(rng.normal(size=(d, d)) + 1j * rng.normal(size=(d, d)))[0]]})
            out.append({"A": [np.identity(d, dtype=complex)]})
        elif d == 2:
            g = 0.3      # amplitude damping: extremal
            out.append({"A": [np.array([[1, 0], [0, np.sqrt(1 - g)]], dtype=complex), np.array([[0, np.sqrt(g)], [0, 0]], dtype=complex)]})
        return out
    def assume(i):
        if r > 1:
            return []
        U = np.asarray(i["A"][0])      # one Kraus operator: a channel only if it is an isometry (here: unitary)
        return [eq(dagger(U) @ U, np.identity(d))]

    def valid(ni):
        return r > 1 or bool(np.allclose(ni["A"][0].conj().T @ ni["A"][0], np.identity(d), atol=1e-12))
    return Obligation("is_extremal.verdict_is_a_property_of_the_channel_not_of_the_kraus_list", cfg, build, call, oracle, post=post,
                      neg_control=False, tv=False, witness=witness, assume=assume, valid=valid)


# ---- constructors ------------------------------------------------------------------------------
def ob_choi_constructor(name, d, make, formula, cert=None, rng=None):
    """Choi-matrix constructors with symbolic parameter(s): action, trace of output, CP certificate"""
    cfg = {"channel": name, "d": d}

    def build(b):
        ps = {k: b.real(k) for k in make.__code__.co_varnames[:make.__code__.co_argcount] if k != "d"}
        return {"p": ps, "X": b.array("X", (d, d), "c")}

    def call(i):
        J = make(**i["p"])
        out = apply_channel(i["X"], J)
        res = [out]
        if cert is not None:
            (lam, projs), _eigs = cert(d, **i["p"])
            rec = None
            for l, P in zip(lam, projs):
                t = l * P
                rec = t if rec is None else rec + t
            res.append(np.asarray(J) - rec)
        return res

    def oracle(i):
        res = [formula(d, np.asarray(i["X"]), **i["p"])]
        if cert is not None:
            res.append(np.zeros((d * d, d * d)))
        return res
    return Obligation(f"constructor.{name}.acts_by_textbook_formula", cfg, build, call, oracle)


def ob_cp_range(name, d, cert, lo, hi, param):
    """eigen-certificate: on the admissible parameter range all eigenvalues of the certificate are >= 0"""
    cfg = {"channel": name, "d": d, "range": [lo, hi]}

    def build(b):
        return {"p": b.real(param)}

    def call(i):
        _, lam = cert(d, **{param: i["p"]})
        ok = True
        for l in lam:
            ok = (l >= 0) & ok if not isinstance(ok, bool) or not isinstance(l >= 0, bool) else (ok and bool(l >= 0))
        return [ok]

    def oracle(i):
        return [True]

    def assume(i):
        return [i["p"] >= lo, i["p"] <= hi]

    def valid(ni):
        return lo <= ni["p"] <= hi
    return Obligation(f"constructor.{name}.completely_positive_on_range", cfg, build, call, oracle, assume=assume, valid=valid,
                      neg_control=False, tv=False)


def omega_unnorm(d):
    """|psi><psi| for the unnormalised maximally entangled vector: an integer matrix with eigenvalues d (once) and 0"""
    psi = np.zeros((d * d, 1))
    for k in range(d):
        psi[k * d + k] = 1
    return psi @ psi.T


def cert_depol(d, param_p):
    # J = a*I + p*|psi><psi| with a = (1-p)/d: eigenvalues a (d^2-1 times) and a + p*d (|psi><psi| has the integer eigenvalue d)
    a = (1 - param_p) / d
    return ([a, param_p], [np.identity(d * d), omega_unnorm(d)]), [a, a + param_p * d]


def cert_dephasing(d, param_p):
    # J = (1-p) D + p |psi><psi|, D = sum_k |kk><kk| (a projector containing psi/sqrt d): eigenvalues (1-p), (1-p) + p d, 0
    D = np.zeros((d * d, d * d))
    for k in range(d):
        D[k * d + k, k * d + k] = 1
    return ([1 - param_p, param_p], [D, omega_unnorm(d)]), [1 - param_p, (1 - param_p) + param_p * d]


def kraus_param_ob(name, fn, params, textbook):
    """sqrt-parameterised qubit channels: Kraus completeness, direct = Kraus = textbook, ValueError iff outside [0,1]"""
    cfg = {"channel": name}

    def build(b):
        return {"p": {k: b.real(k) for k in params}, "X": b.array("X", (2, 2), "c")}

    def call(i):
        ks = fn(None, **i["p"])
        S = None
        for k in ks:
            t = dagger(k) @ np.asarray(k)
            S = t if S is None else S + t
        direct = fn(i["X"], **i["p"])
        via = apply_channel(i["X"], list(ks))
        return [S, direct, via]

    def oracle(i):
        t = textbook(np.asarray(i["X"]), **i["p"])
        return [np.identity(2), t, t]

    def post(res, exp, i):
        inside = True
        for v in i["p"].values():
            c = (v >= 0) & (v <= 1) if not isinstance(v, (int, float)) else (0 <= v <= 1)
            inside = c & inside if not (isinstance(inside, bool) and isinstance(c, bool)) else (inside and c)
        return eq(res, exp) & inside if not isinstance(inside, bool) else (eq(res, exp) if inside else False)

    def exc_post(e, i):
        if not isinstance(e, ValueError):
            return False
        outside = False
        for v in i["p"].values():
            c = (v < 0) | (v > 1) if not isinstance(v, (int, float)) else (v < 0 or v > 1)
            outside = c | outside if not (isinstance(outside, bool) and isinstance(c, bool)) else (outside or c)
        return outside
    return Obligation(f"constructor.{name}.kraus_complete_direct_equals_textbook_and_range_check", cfg, build, call, oracle,
                      post=post, exc_post=exc_post, max_paths=64)


def tb_amplitude(X, gamma, prob):
    # generalized amplitude damping, textbook entries
    a, b, c, d = X[0, 0], X[0, 1], X[1, 0], X[1, 1]
    s = lift(1 - gamma).sqrt() if not isinstance(gamma, (int, float)) else (1 - gamma) ** 0.5
    out = np.empty((2, 2), dtype=object)
    out[0, 0] = prob * (a + gamma * d) + (1 - prob) * ((1 - gamma) * a)
    out[1, 1] = prob * ((1 - gamma) * d) + (1 - prob) * (d + gamma * a)
    out[0, 1] = s * b
    out[1, 0] = s * c
    return out


def tb_phase(X, gamma):
    s = lift(1 - gamma).sqrt() if not isinstance(gamma, (int, float)) else (1 - gamma) ** 0.5
    out = np.empty((2, 2), dtype=object)
    out[0, 0], out[1, 1] = X[0, 0], X[1, 1]
    out[0, 1], out[1, 0] = s * X[0, 1], s * X[1, 0]
    return out


def tb_bitflip(X, prob):
    F = np.array([[0, 1], [1, 0]])
    return (1 - prob) * X + prob * (F @ X @ F)


def ob_pauli(q, probs):
    cfg = {"qubits": q, "prob": [str(p) for p in probs]}
    n = 2 ** q
    from toqito.matrices import pauli

    def build(b):
        return {"X": b.array("X", (n, n), "c")}

    def call(i):
        Phi, out, ks = pauli_channel(np.array([float(p) for p in probs]), True, i["X"])
        J = Phi.toarray() if hasattr(Phi, "toarray") else np.asarray(Phi)
        return [out, apply_channel(i["X"], J), apply_channel(i["X"], list(ks))]

    def oracle(i):
        X = np.asarray(i["X"])
        tot = None
        for j, p in enumerate(probs):
            idx = [(j // 4 ** (q - 1 - t)) % 4 for t in range(q)]
            P = pauli(idx)
            P = P.toarray() if hasattr(P, "toarray") else np.asarray(P)
            t = float(p) * (P @ X @ P.conj().T)
            tot = t if tot is None else tot + t
        return [tot, tot, tot]
    return Obligation("constructor.pauli_channel.kraus_choi_direct_agree", cfg, build, call, oracle, exact_sqrt=True)


def ob_pauli_properties(q, probs):
    """the object the constructor RETURNS (no conversion by the harness) goes into the channel predicates: a Pauli channel is a
    unital quantum channel of Choi rank = number of non-zero probabilities"""
    cfg = {"qubits": q, "prob": [str(p) for p in probs], "passed_on": "as returned"}

    def build(b):
        return {}

    def call(i):
        Phi = pauli_channel(np.array([float(p) for p in probs]))
        return [bool(is_trace_preserving(Phi)), bool(is_completely_positive(Phi)), bool(is_quantum_channel(Phi)), bool(is_unital(Phi)),
                int(choi_rank(Phi)), type(Phi) is np.ndarray]

    def oracle(i):
        return [True, True, True, True, sum(1 for p in probs if p != 0), True]
    return Obligation("constructor.pauli_channel.returned_choi_matrix_has_the_textbook_properties", cfg, build, call, oracle,
                      neg_control=False, tv=False, dtype_variants=False)


def ob_pauli_reject(probs, should_raise, form="ndarray"):
    cfg = {"prob": [str(p) for p in probs], "should_raise": should_raise, "prob_given_as": form}

    def build(b):
        return {"X": b.array("X", (2, 2), "c")}

    def call(i):
        pv = [float(p) for p in probs]
        pv = np.array(pv) if form == "ndarray" else (tuple(pv) if form == "tuple" else pv)
        pauli_channel(pv, False, i["X"])
        return [False]

    def oracle(i):
        return [should_raise]

    def exc_post(e, i):
        return isinstance(e, ValueError) and should_raise
    return Obligation("constructor.pauli_channel.rejects_invalid_probability_vectors", cfg, build, call, oracle, exc_post=exc_post,
                      neg_control=False, tv=False)

def history_obligations():
    """round-6 seed: a constructor that memoises the arrays it hands out.  Every constructor, Kraus / Choi form and direct application."""
    from props.common import HistoryTask
    rho2 = np.array([[0.75, 0.25 - 0.125j], [0.25 + 0.125j, 0.25]])
    rho3 = np.diag([0.5, 0.25, 0.25]) + 0.125 * (np.eye(3, k=1) + np.eye(3, k=-1))
    calls = [
        ("amplitude_damping(gamma=3/10, prob=7/10)", lambda: amplitude_damping(gamma=0.3, prob=0.7)),
        ("amplitude_damping(gamma=3/10)", lambda: amplitude_damping(gamma=0.3)),
        ("amplitude_damping(rho, gamma=3/10, prob=7/10)", lambda: [amplitude_damping(gamma=0.3, prob=0.7), amplitude_damping(rho2.copy(), gamma=0.3, prob=0.7)]),
        ("phase_damping(gamma=1/4)", lambda: phase_damping(gamma=0.25)),
        ("phase_damping(rho, gamma=1/4)", lambda: [phase_damping(gamma=0.25), phase_damping(rho2.copy(), gamma=0.25)]),
        ("bitflip(prob=1/4)", lambda: bitflip(prob=0.25)),
        ("bitflip(rho, prob=1/4)", lambda: [bitflip(prob=0.25), bitflip(rho2.copy(), prob=0.25)]),
        ("depolarizing(3, 1/4)", lambda: depolarizing(3, 0.25)),
        ("dephasing(3, 1/4)", lambda: dephasing(3, 0.25)),
        ("reduction(3, 2)", lambda: reduction(3, 2)),
        ("choi(1, 1, 0)", lambda: choi(1, 1, 0)),
        ("pauli_channel([1/2,1/4,1/8,1/8], return_kraus_ops=True)", lambda: pauli_channel(np.array([0.5, 0.25, 0.125, 0.125]), return_kraus_ops=True)),
        ("pauli_channel([1/2,1/4,1/8,1/8], input_mat=rho)", lambda: pauli_channel(np.array([0.5, 0.25, 0.125, 0.125]), input_mat=rho2.copy())),
        ("kraus_to_choi(amplitude_damping(gamma=3/10))", lambda: kraus_to_choi(amplitude_damping(gamma=0.3))),
        ("apply_channel(rho3, depolarizing(3, 1/4))", lambda: [depolarizing(3, 0.25), apply_channel(rho3.copy(), depolarizing(3, 0.25))]),
    ]
    return [HistoryTask("constructor.repeated_call_is_independent_of_what_the_caller_did_with_the_earlier_result", {"call": n}, f) for n, f in calls]


def obligations(tier):
    T = tier == "thorough"
    obs = []
    # trace preserving / unital
    for din, dout in [(2, 2), (2, 3), (3, 2), (1, 2)] + ([(3, 3), (2, 4)] if T else []):
        for r in [1, 2] + ([3] if T else []):
            for form in ["pairs", "flat", "nested_col", "choi", "choi_pairs"]:
                if form in ("choi", "choi_pairs") and din * dout > 6 and not T:
                    continue
                for exact in (True, False):
                    if exact and dout * r < din:
                        continue   # no trace-preserving family of that shape exists
                    obs.append(ob_tp(din, dout, r, form, exact))
    for d in [2, 3] + ([4] if T else []):
        for r in [1, 2]:
            for form in ["pairs", "flat", "nested_col", "choi", "choi_pairs"]:
                for exact in (True, False):
                    obs.append(ob_unital(d, r, form, exact))
    # Hermiticity preserving
    for din, dout in [(2, 2), (2, 3), (1, 2)] + ([(3, 3)] if T else []):
        for form in ["flat", "nested_col", "pairs", "choi_hermitian", "choi_margin"]:
            obs.append(ob_hp(din, dout, 2, form))
    obs.append(ob_hp_rect(2, 2, 3, 2))
    obs.append(ob_hp_rect(2, 3, 2, 2))
    # CP / positive / channel
    for din, dout in [(1, 2), (2, 1), (2, 2)] + ([(2, 3)] if T else []):
        for which in ["is_completely_positive", "is_positive", "is_quantum_channel"]:
            for form in ["choi_hermitian", "flat", "pairs"]:
                if which == "is_quantum_channel" and form == "choi_hermitian" and din != dout:
                    continue   # a bare Choi matrix does not carry its input/output split and the function takes no dim
                obs.append(ob_cp(din, dout, 2, form, which))
        obs.append(ob_cp_margin(din, dout))
    # rank, extremal, unitary
    for din, dout in [(2, 2), (2, 3), (3, 2)]:
        for form in ["flat", "pairs", "nested_col", "choi"]:
            obs.append(ob_choi_rank(din, dout, 2, form))
    for d in [2, 3]:
        for r in [1, 2] + ([3] if T else []):
            for form in ["flat", "nested_col"]:
                obs.append(ob_extremal(d, r, form))
    for d in [1, 2, 3]:
        for form in ["flat", "nested_col", "pairs"]:
            obs.append(ob_unitary(d, 1, form, True))
            obs.append(ob_unitary(d, 1, form, False))
        if d > 1:
            obs.append(ob_unitary(d, 2, "flat", False))
            obs.append(ob_unitary(d, 2, "nested_col", False))
    from fractions import Fraction as F
    for d in [2, 3]:
        for weights in [(F(3, 5), F(4, 5)), (1, 0)] + ([(F(1, 3), F(2, 3), F(2, 3))] if T else []):
            for form in ["flat", "nested_col"] + (["pairs"] if T else []):
                obs.append(ob_unitary_nonminimal(d, weights, form))
            for r in [1, 2]:
                obs.append(ob_extremal_nonminimal(d, r, weights))
    # constructors
    for d in [2, 3] + ([4] if T else []):
        obs.append(ob_choi_constructor("depolarizing", d, lambda param_p, d=d: depolarizing(d, param_p),
                                       lambda d, X, param_p: (1 - param_p) * np.trace(X) * np.identity(d) / d + param_p * X,
                                       cert_depol))
        obs.append(ob_cp_range("depolarizing", d, cert_depol, 0, 1, "param_p"))
        obs.append(ob_choi_constructor("dephasing", d, lambda param_p, d=d: dephasing(d, param_p),
                                       lambda d, X, param_p: (1 - param_p) * np.diag(np.diag(X)) + param_p * X, cert_dephasing))
        obs.append(ob_cp_range("dephasing", d, cert_dephasing, 0, 1, "param_p"))
        obs.append(ob_choi_constructor("reduction", d, lambda k, d=d: reduction(d, k),
                                       lambda d, X, k: k * np.trace(X) * np.identity(d) - X))
    obs.append(ob_choi_constructor("choi", 3, lambda a_var, b_var, c_var: choi(a_var, b_var, c_var),
                                   lambda d, X, a_var, b_var, c_var: np.diag([
                                       (a_var + 1) * X[0, 0] + b_var * X[1, 1] + c_var * X[2, 2],
                                       c_var * X[0, 0] + (a_var + 1) * X[1, 1] + b_var * X[2, 2],
                                       b_var * X[0, 0] + c_var * X[1, 1] + (a_var + 1) * X[2, 2]]) - X))
    obs.append(kraus_param_ob("amplitude_damping", amplitude_damping, ["gamma", "prob"], tb_amplitude))
    obs.append(kraus_param_ob("phase_damping", phase_damping, ["gamma"], tb_phase))
    obs.append(kraus_param_ob("bitflip", bitflip, ["prob"], tb_bitflip))
    from fractions import Fraction as F
    for probs in [[F(1, 4)] * 4, [F(1, 2), F(1, 4), F(1, 8), F(1, 8)], [F(1), F(0), F(0), F(0)], [F(0), F(1, 16), F(9, 16), F(3, 8)]]:
        obs.append(ob_pauli(1, probs))
        obs.append(ob_pauli_properties(1, probs))
    obs.append(ob_pauli_properties(2, [F(1, 4), F(1, 8), F(1, 8)] + [F(1, 16)] * 4 + [F(1, 32)] * 8 + [F(0)]))
    # two qubits with weights that are NOT symmetric under exchanging the tensor factors (fixes the factor order)
    obs.append(ob_pauli(2, [F(1, 4), F(1, 8), F(1, 8)] + [F(1, 16)] * 4 + [F(1, 32)] * 8 + [F(0)]))
    if T:
        obs.append(ob_pauli(2, [F(1, 16)] * 16))
        # dyadic weights only: the Choi matrix is accumulated in float64 (scipy sparse), exact for dyadics
        obs.append(ob_pauli(2, [F(0), F(1, 2), F(0), F(1, 4)] + [F(1, 64)] * 8 + [F(1, 32)] * 4))
    for form in ("ndarray", "list", "tuple"):
        obs.append(ob_pauli_reject([F(1, 2), F(1, 2), F(1, 2), F(-1, 2)], True, form))
        obs.append(ob_pauli_reject([F(1, 2), F(1, 4), F(1, 8), F(1, 16)], True, form))
        obs.append(ob_pauli_reject([F(1, 2)] * 4, True, form))
        obs.append(ob_pauli_reject([F(1, 2), F(1, 2)], True, form))
        obs.append(ob_pauli_reject([F(1, 4)] * 4, False, form))
    obs += history_obligations()
    return obs
