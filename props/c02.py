"""C02 Partial trace is the index contraction over the traced subsystems."""
from __future__ import annotations

import itertools
import time

import numpy as np

from symnp.harness import Obligation, eq
from props.common import CvxpyPathTask, prod, flat_index
from toqito.channels import partial_trace

META = {
    "id": "C02",
    "level": "other",
    "files": ["toqito/channels/partial_trace.py", "toqito/helper/expr_as_np_array.py", "toqito/helper/np_array_as_expr.py",
              "toqito/perms/permute_systems.py"],
    "functions": ["toqito.channels.partial_trace", "toqito.helper.expr_as_np_array", "toqito.helper.np_array_as_expr",
                  "toqito.perms.permute_systems"],
    "explanation": "Bounded symbolic execution of the real partial_trace on matrices whose entries are symbolic complex "
                   "numbers (pairs of z3 reals). For every enumerated (dims, S in every listing order / as int, dim-argument "
                   "form) z3 decides that each output entry equals the oracle's explicit index contraction, for all entry "
                   "values. Composition, product form, scalar/omitted dim are separate obligations. cvxpy path: the real "
                   "function is executed on a cvxpy Variable (general complex / hermitian / symmetric / real), the returned "
                   "expression's exact affine map is extracted by evaluating it on a real basis of the variable space, and z3 "
                   "proves it equal to the numeric path's symbolic result for all variable values.",
    "bounds": {
        "quick": "N<=16, <=3 subsystems, local dims in {1,2,3,4}; all non-empty S in every order and as bare int; cvxpy path N<=6",
        "thorough": "N<=36, <=4 subsystems, local dims in {1..6}; cvxpy path N<=12",
    },
    "trusted_base": ["numpy object-array semantics = numeric semantics (translator validation per obligation)",
                     "cvxpy evaluates its own expression tree correctly (.value) - used to extract the affine map", "z3 5.1.0"],
    "outside_claim": ["matrix sizes above the bound", "cvxpy expression inputs that are not Variables (the code only special-cases Variable)"],
    "assumptions": ["floats modelled as reals"],
}


def oracle_ptrace(X, dims, S):
    dims = [int(d) for d in dims]
    n = len(dims)
    S = [int(s) for s in S]
    keep = [k for k in range(n) if k not in S]
    kd = [dims[k] for k in keep]
    sd = [dims[k] for k in S]
    m = prod(kd)
    out = np.empty((m, m), dtype=object)
    X = np.asarray(X)
    for a, I in enumerate(itertools.product(*[range(d) for d in kd])):
        for b, J in enumerate(itertools.product(*[range(d) for d in kd])):
            tot = 0
            for K in itertools.product(*[range(d) for d in sd]):
                r = [0] * n
                c = [0] * n
                for t, k in enumerate(keep):
                    r[k], c[k] = I[t], J[t]
                for t, k in enumerate(S):
                    r[k] = c[k] = K[t]
                tot = tot + X[flat_index(r, dims), flat_index(c, dims)]
            out[a, b] = tot
    return out


def ob_def(dims, S, as_int=False, kind="c", dimform="list"):
    cfg = {"dims": list(dims), "sys": (S[0] if as_int else list(S)), "entries": kind, "dim_form": dimform}
    N = prod(dims)

    def build(b):
        return {"X": b.array("X", (N, N), kind)}

    def call(i):
        d = list(dims) if dimform == "list" else np.array(dims)
        return partial_trace(i["X"], S[0] if as_int else list(S), d)

    def oracle(i):
        X = i["X"]
        if isinstance(X, np.ndarray) and X.dtype.kind in "iub":
            X = X.astype(object)          # exact Python integers: the sums of the entries, whatever the machine dtype
        return oracle_ptrace(X, dims, S)

    def witness():
        # narrow integer dtypes with entries large enough that a sum leaves the dtype's range
        if kind != "c" or as_int or N > 8:
            return []
        out = []
        for dt, hi in ((np.uint8, 250), (np.int16, 32000), (np.int32, 2 ** 31 - 5)):
            X = (np.arange(N * N).reshape(N, N) % 7 + hi - 6).astype(dt)
            out.append({"X": X})
        return out
    return Obligation("partial_trace.definition", cfg, build, call, oracle, witness=witness)


def ob_scalar_dim(N, d):
    cfg = {"N": N, "dim_scalar": d}

    def build(b):
        return {"X": b.array("X", (N, N), "c")}

    def call(i):
        return [partial_trace(i["X"], [1], d), partial_trace(i["X"], [0], d), partial_trace(i["X"], 0, d)]

    def oracle(i):
        dims = [d, N // d]
        return [oracle_ptrace(i["X"], dims, [1]), oracle_ptrace(i["X"], dims, [0]), oracle_ptrace(i["X"], dims, [0])]
    return Obligation("partial_trace.scalar_dim_means_[d,N/d]", cfg, build, call, oracle)


def ob_omitted(d):
    cfg = {"d": d}
    N = d * d

    def build(b):
        return {"X": b.array("X", (N, N), "c")}

    def call(i):
        return [partial_trace(i["X"]), partial_trace(i["X"], [0]), partial_trace(i["X"], 0)]

    def oracle(i):
        return [oracle_ptrace(i["X"], [d, d], [1]), oracle_ptrace(i["X"], [d, d], [0]), oracle_ptrace(i["X"], [d, d], [0])]
    return Obligation("partial_trace.omitted_args_two_equal_subsystems_second_traced", cfg, build, call, oracle)


def ob_compose(dims, S, T):
    """Tr_T(Tr_S X) == Tr_{S u T} X, T given in the labels of the original systems"""
    cfg = {"dims": list(dims), "S": list(S), "T": list(T)}
    N = prod(dims)
    n = len(dims)

    def build(b):
        return {"X": b.array("X", (N, N), "c")}

    def call(i):
        y = partial_trace(i["X"], list(S), list(dims))
        rest = [k for k in range(n) if k not in S]
        T2 = [rest.index(t) for t in T]
        return partial_trace(y, T2, [dims[k] for k in rest])

    def oracle(i):
        return oracle_ptrace(i["X"], dims, list(S) + list(T))
    return Obligation("partial_trace.composition", cfg, build, call, oracle)


def ob_product(shapes, S):
    cfg = {"factor_dims": list(shapes), "sys": list(S)}
    n = len(shapes)

    def build(b):
        return {"A": [b.array(f"A{k}", (shapes[k], shapes[k]), "c") for k in range(n)]}

    def call(i):
        X = i["A"][0]
        for m in i["A"][1:]:
            X = np.kron(X, m)
        return partial_trace(X, list(S), list(shapes))

    def oracle(i):
        sc = 1
        for k in S:
            sc = sc * np.trace(i["A"][k])
        keep = [k for k in range(n) if k not in S]
        R = np.ones((1, 1), dtype=object)
        for k in keep:
            R = np.kron(R, i["A"][k])
        return sc * R
    return Obligation("partial_trace.product_form", cfg, build, call, oracle)


def dims_list(nmax, vals, hi):
    for n in range(2, nmax + 1):
        for d in itertools.product(vals, repeat=n):
            if 2 <= prod(d) <= hi:
                yield d


def ordered_subsets(n):
    for r in range(1, n + 1):
        for s in itertools.permutations(range(n), r):
            yield list(s)


def obligations(tier):
    T = tier == "thorough"
    obs = []
    hi = 36 if T else 16
    for d in dims_list(4 if T else 3, [1, 2, 3, 4, 5, 6] if T else [1, 2, 3, 4], hi):
        n = len(d)
        if T and n == 4 and prod(d) > 24:
            continue
        for S in ordered_subsets(n):
            if n == 4 and len(S) > 2 and S != sorted(S) and S != sorted(S, reverse=True):
                continue
            obs.append(ob_def(d, S, kind="c" if prod(d) <= 16 else "r"))
        for k in range(n):
            obs.append(ob_def(d, [k], as_int=True, dimform="array"))
    # many subsystems (9..12), all but two or three of dimension 1: the order of the REMAINING subsystems must be the original one
    # (a kept set such as {1, 8} is where an unordered container first iterates out of order)
    many = [([1, 2, 1, 1, 1, 1, 1, 1, 2], [0, 2, 3, 4, 5, 6, 7]), ([1, 2, 1, 1, 1, 1, 1, 1, 3], [0, 2, 3, 4, 5, 6, 7]),
            ([2, 1, 1, 1, 1, 1, 1, 1, 3, 1], [1, 2, 3, 4, 5, 6, 7, 9]), ([1, 3, 1, 1, 1, 1, 1, 1, 2, 1], [9, 0, 2, 3, 4, 5, 6, 7]),
            ([2, 1, 1, 1, 1, 1, 1, 1, 2, 2], [1, 2, 3, 4, 5, 6, 7]), ([1, 1, 2, 1, 1, 1, 1, 1, 1, 1, 1, 1, 1, 1, 1, 1, 3], [0, 1] + list(range(3, 16)))]
    if T:
        many += [([1] * k + [2] + [1] * (15 - k) + [3], [j for j in range(17) if j not in (k, 16)]) for k in range(0, 16, 3)]
    for d, S in many:
        obs.append(ob_def(d, S))
    for N, d in [(4, 2), (6, 2), (6, 3), (8, 2), (8, 4), (9, 3), (12, 3), (12, 4), (4, 1), (4, 4)] + ([(16, 2), (15, 5), (20, 4)] if T else []):
        obs.append(ob_scalar_dim(N, d))
    for d in [2, 3, 4] + ([5] if T else []):
        obs.append(ob_omitted(d))
    for d in dims_list(4 if T else 3, [1, 2, 3], 24 if T else 16):
        n = len(d)
        if n < 3:
            continue
        for S in ordered_subsets(n):
            if len(S) >= n - 0:
                continue
            rest = [k for k in range(n) if k not in S]
            for r in range(1, len(rest) + 1):
                for Tt in itertools.permutations(rest, r):
                    if len(S) + len(Tt) > 3:
                        continue
                    obs.append(ob_compose(d, S, list(Tt)))
    for sh in [(2, 2), (2, 3), (3, 2), (1, 3), (2, 2, 2), (2, 3, 2), (3, 1, 2)] + ([(2, 2, 3), (2, 2, 2, 2)] if T else []):
        for S in ordered_subsets(len(sh)):
            if len(S) <= 2:
                obs.append(ob_product(sh, S))
    # cvxpy Variable path
    cv = [((2, 2), [1]), ((2, 2), [0]), ((2, 3), [0]), ((3, 2), [1]), ((2, 3), [1, 0]), ((1, 3), [0])]
    cv += [((2, 2, 2), [1]), ((2, 2, 2), [2, 0])] if not T else \
        [((2, 2, 2), [1]), ((2, 2, 2), [2, 0]), ((2, 3, 2), [0, 2]), ((2, 3, 2), [1]), ((3, 4), [0]), ((3, 4), [1]), ((2, 2, 3), [1, 2])]
    for d, S in cv:
        for st in (["complex", "hermitian", "symmetric", "real"] if prod(d) <= 6 else ["hermitian", "real"]):
            obs.append(CvxpyPathTask("partial_trace.cvxpy_variable_path_equals_numeric_path", {"dims": list(d), "sys": list(S), "variable": st},
                                     lambda X, S=S, d=d: partial_trace(X, list(S), list(d)), prod(d), prod(d), st))
    obs.append(CvxpyPathTask("partial_trace.cvxpy_variable_path_equals_numeric_path", {"dims": "omitted", "sys": "omitted", "variable": "hermitian"},
                             lambda X: partial_trace(X), 4, 4, "hermitian"))
    return obs
