"""C19 Random generators and measurement constructions give valid reproducible objects."""
from __future__ import annotations

import contextlib
import operator

import numpy as np
import z3

from symnp import core
from symnp.array import (HANDLERS, NP_OVERRIDES, SCIPY_LINALG_OVERRIDES, SymArray, as0d, handles, has_sym, kernel, lifted,
                         sarr, sp_fmp, want_contract)
from symnp.core import And, Or, Sym, SymBool, SymError, as_z3, cur, lift
from symnp.harness import Obligation, _default_neg, eq
from props.common import dagger, prod

from toqito.measurement_ops import measure
from toqito.measurement_props import is_povm
from toqito.measurements import pretty_bad_measurement, pretty_good_measurement
from toqito.rand import (random_circulant_gram_matrix, random_density_matrix, random_ginibre, random_orthonormal_basis,
                         random_povm, random_psd_operator, random_state_vector, random_states, random_unitary)

META = {
    "id": "C19",
    "level": "other",
    "files": ["toqito/rand/random_unitary.py", "toqito/rand/random_density_matrix.py", "toqito/rand/random_ginibre.py",
              "toqito/rand/random_povm.py", "toqito/rand/random_state_vector.py", "toqito/rand/random_states.py",
              "toqito/rand/random_circulant_gram_matrix.py", "toqito/rand/random_orthonormal_basis.py",
              "toqito/rand/random_psd_operator.py", "toqito/measurements/pretty_good_measurement.py",
              "toqito/measurements/pretty_bad_measurement.py", "toqito/measurement_ops/measure.py",
              "toqito/measurement_props/is_povm.py", "toqito/matrix_props/is_density.py",
              "toqito/matrix_props/is_positive_semidefinite.py", "toqito/matrix_props/is_hermitian.py",
              "toqito/matrix_ops/to_density_matrix.py", "toqito/perms/swap.py", "toqito/perms/permute_systems.py",
              "toqito/states/max_entangled.py"],
    "functions": ["toqito.rand.random_unitary", "toqito.rand.random_density_matrix", "toqito.rand.random_ginibre",
                  "toqito.rand.random_povm", "toqito.rand.random_state_vector", "toqito.rand.random_states",
                  "toqito.rand.random_circulant_gram_matrix", "toqito.rand.random_orthonormal_basis",
                  "toqito.rand.random_psd_operator", "toqito.measurements.pretty_good_measurement",
                  "toqito.measurements.pretty_bad_measurement", "toqito.measurement_ops.measure",
                  "toqito.measurement_props.is_povm"],
    "explanation": "Bounded symbolic execution of the real toqito.rand / measurement functions with the environment replaced by "
                   "nondeterministic stubs: inside toqito `np.random` is a recording substitute whose default_rng(seed) returns a "
                   "generator that remembers the seed object it was built from and whose random/standard_normal/normal/uniform "
                   "draws are FRESH UNCONSTRAINED solver variables (named by draw index; only the documented range [0,1) of "
                   "Generator.random is attached, as a path-scoped assumption); any use of the global np.random state is recorded. "
                   "(a) Provenance: for every generator function, seeded and unseeded, in the history call / unseeded call of "
                   "another generator / same call again, every draw comes from a generator constructed in that very call as "
                   "default_rng(seed=<the call's own seed object>) and nothing touches global state, so reproducibility reduces to "
                   "numpy's contract for seeded generators. (b) Validity for ARBITRARY draws: z3 decides per configuration that the "
                   "returned object equals a witness form that makes the advertised kind evident: density matrix = H H^dagger / "
                   "Tr(H H^dagger) for a dim x k factor H of the draws with trace exactly 1 (PSD, rank <= k); random_unitary "
                   "U^dagger U = U U^dagger = I under the QR contract (Q R = A, Q^dagger Q = I, Q Q^dagger = I for square A, real "
                   "for real A) with np.sign forked (real) or an uninterpreted unit-modulus phase (complex), real => real "
                   "entries; orthonormal basis = its columns; PSD operator = M M^dagger with M = Q sqrt|w| (eigh, qr kernels by "
                   "congruence); state vector = the normalised draw, or the normalised sum of k product terms a_j (x) b_j "
                   "(Schmidt rank <= k), unit norm; POVM elements = M^dagger M and sum to I per input under the SVD contract for "
                   "the PSD Gram normaliser; circulant Gram matrix = (1/n) sum_k D_k cos(2 pi k (a-b)/n) within 1e-12 (circulant, "
                   "symmetric, non-negative combination of PSD terms for D_k >= 0); random_states / random_ginibre = the stated "
                   "formulas of the draws. Non-linear consequences of contract equalities (E = 0 => m*E = 0) are handed to the "
                   "monomial abstraction as lemma instances. (c) measure: every path of is_density, the probability "
                   "threshold and the completeness guard is explored; prob = Re Tr(K rho K^dagger), post state = K rho K^dagger / "
                   "prob with trace 1 (zero matrix at or below tol), total = Re Tr(rho sum K^dagger K), exceptions only for a "
                   "non-density input or an exactly incomplete list, acceptance only within tolerance, a family complete by "
                   "construction is accepted with total Tr rho; pretty_good_measurement elements = p_j (R A_j)(R A_j)^dagger and "
                   "sum to I under the contract R P R = I, R Hermitian, for R = fractional_matrix_power(P, -1/2); "
                   "pretty_bad_measurement elements = sum_{l != j} G_l / (n-1) and sum to I; is_povm's verdict = its documented "
                   "formula on every path.",
    "bounds": {
        "quick": "provenance: 18 function/option forms x {seeded, unseeded}; random_density_matrix haar dim 1..4, k_param in "
                 "{default, 1..dim+1}, real/complex; bures dim 1..3 every k; random_unitary / orthonormal_basis dim 1..3 real/complex, "
                 "int and list dim; psd dim 1..3; circulant dim 1..6; state_vector scalar dim 1..4 and list dims (2,2),(2,3),(3,2), "
                 "k_param 0..min(dim); povm dim<=3 (inputs<=2, outputs<=3); measure d=2 (1..3 operators, single/list/tuple, "
                 "both state_update, 3x2 operators), d=3 two operators; PGM/PBM d=2 n=2,3, d=3 n=3; is_povm d*n<=4",
        "thorough": "density haar dim 1..6; bures dim 1..4 (dim 4 complex only); unitary / basis dim 1..4; psd dim 1..5; circulant "
                    "dim 1..8; state_vector scalar dim 1..6, list dims up to (4,4); povm dim<=4; measure d<=4; PGM/PBM d=2 n=2..6, "
                    "d=3 n=3,4 and two full-rank density operators; is_povm up to 3x3",
    },
    "trusted_base": ["numpy object-array semantics = numeric semantics (translator validation where no kernel-dependent branch exists)",
                     "numpy's contract for seeded generators: default_rng(seed) with equal seed yields equal streams, independent of "
                     "global state and of other generators",
                     "LAPACK/scipy kernels satisfy their algebraic contracts: qr (Q R = A, Q unitary for square A, real for real A), "
                     "eigh (real eigenvectors for real symmetric A), svd of a PSD Gram matrix is its eigendecomposition, "
                     "fractional_matrix_power(P, -1/2) = R with R P R = I and R Hermitian for positive definite P; numpy >= 2 "
                     "np.sign(z) = z/|z|",
                     "z3 5.1.0"],
    "outside_claim": [
        "'different seeds give different objects': a statement about the bit generator, not about toqito's glue",
        "distributional statements (Haar / Hilbert-Schmidt / Bures / Gaussian distribution, independence of entries); note: with a seed, "
        "the bures branch builds its unitary from a second generator with the SAME seed, so U and G are functions of one stream",
        "pretty-good success probability between opt^2 and opt (needs the optimum of a conic program)",
        "positive semidefiniteness / rank as eigenvalue statements: decided through the witness factorisations (M M^dagger, dim x k "
        "factors, sums of k product terms) instead; is_povm applied to kernel outputs (eigenvalue tolerances)",
        "draws that make a normaliser exactly zero (all draws 0: probability 0; numpy returns nan): division by zero is outside the model",
        "numerical accuracy of qr / eigh / svd / fractional_matrix_power; ensembles that do not span the space (P singular)",
        "list-valued k_param of random_density_matrix (no documented meaning); dimensions above the bound (property says 1..6)",
        "measure on inputs that are Hermitian only within tolerance (rho is an exactly Hermitian symbolic matrix)",
    ],
    "assumptions": ["floats modelled as reals (float constants such as 1/(n-1), the DFT matrix and 1/sqrt(2) enter with their exact binary value)",
                    "Generator.random() in [0,1) (documented range), all other draws unconstrained reals",
                    "divisors non-zero and radicands non-negative on the paths that divide / take the root"],
}


# ==================================================================================================================
# environment stub: a recording substitute for `np.random`
# ==================================================================================================================
class _SeedInt(int):
    """an int with identity: the generator must be built from *this object*, the function's own seed argument"""


SEED = _SeedInt(190019)

_REAL_DEFAULT_RNG = np.random.default_rng
_GLOBAL_NAMES = ("seed", "rand", "randn", "random", "random_sample", "ranf", "sample", "randint", "random_integers", "normal",
                 "standard_normal", "uniform", "choice", "shuffle", "permutation", "get_state", "set_state", "bytes",
                 "exponential", "beta", "binomial", "poisson", "gamma", "multivariate_normal", "RandomState")
_REAL_GLOBAL = {n: getattr(np.random, n) for n in _GLOBAL_NAMES if hasattr(np.random, n)}


def _shape(size):
    """numpy's reading of a `size` argument (a list inside the tuple is a TypeError there as well)"""
    if size is None:
        return ()
    if isinstance(size, (int, np.integer)):
        return (int(size),)
    return tuple(operator.index(s) for s in size)


class RecGen:
    """what `default_rng(seed)` returns: remembers the seed it was constructed with; every draw is a block of FRESH
    unconstrained reals taken from the obligation's draw pool (named by draw index => the same symbols on every path);
    only the documented range is attached (`random()` in [0,1)) as a path-scoped assumption"""

    def __init__(self, owner, seed, index, extra_args):
        self.owner, self.seed, self.index, self.extra_args = owner, seed, index, extra_args
        self.call_no = owner.call_no
        self._real = None

    def _realgen(self):
        if self._real is None:
            self._real = _REAL_DEFAULT_RNG(self.seed)
        return self._real

    def _draw(self, method, size, unit):
        o = self.owner
        shape = _shape(size)
        n = prod(shape)
        if o.pool is None:
            if core._CTX:
                raise SymError("RNG stub used in symbolic mode without a draw pool")
            arr = getattr(self._realgen(), method)(size=size)     # numeric mode without pool: the real numpy generator
        else:
            vals = o.take(n)
            if core._CTX:
                c = cur()
                out = np.empty(shape, dtype=object)
                for idx, v in zip(np.ndindex(*shape) if shape else [()], vals):
                    v = lift(v)
                    if unit and not v.is_const():
                        (mono, _), = v.re.t.items()
                        c.scope(c.atoms[mono[0]], [v.re.to_z3(c) >= 0, v.re.to_z3(c) < 1])
                    out[idx] = v
                arr = out.view(SymArray) if shape else out[()]
                if unit:
                    c.stubs.add("rng stub: Generator.random() = fresh unconstrained reals in [0,1) (range as path-scoped assumption)")
                else:
                    c.stubs.add("rng stub: Generator.standard_normal()/normal() = fresh unconstrained reals")
            else:
                arr = np.array([float(v) for v in vals], dtype=float).reshape(shape)
                arr = arr if shape else float(arr)
        o.draws.append({"gen": self.index, "method": method, "shape": shape, "call_no": o.call_no, "arr": arr})
        return arr

    def random(self, size=None, dtype=np.float64, out=None):
        return self._draw("random", size, True)

    def standard_normal(self, size=None, dtype=np.float64, out=None):
        return self._draw("standard_normal", size, False)

    def normal(self, loc=0.0, scale=1.0, size=None):
        if self.owner.pool is None and not core._CTX:
            arr = self._realgen().normal(loc, scale, size)
            self.owner.draws.append({"gen": self.index, "method": "normal", "shape": _shape(size), "call_no": self.owner.call_no, "arr": arr})
            return arr
        z = self._draw("standard_normal", size, False)
        self.owner.draws[-1]["method"] = "normal"
        return z if (loc == 0.0 and scale == 1.0) else loc + scale * z

    def uniform(self, low=0.0, high=1.0, size=None):
        if self.owner.pool is None and not core._CTX:
            arr = self._realgen().uniform(low, high, size)
            self.owner.draws.append({"gen": self.index, "method": "uniform", "shape": _shape(size), "call_no": self.owner.call_no, "arr": arr})
            return arr
        u = self._draw("random", size, True)
        self.owner.draws[-1]["method"] = "uniform"
        return u if (low == 0.0 and high == 1.0) else low + (high - low) * u

    def __getattr__(self, name):
        if name.startswith("__"):
            raise AttributeError(name)
        self.owner.unmodelled.append(name)
        if self.owner.pool is None and not core._CTX:
            return getattr(self._realgen(), name)
        raise SymError(f"Generator.{name} is not modelled by the rng stub")


class RecordingRandom:
    """usable as `np.random` inside toqito modules (Obligation(rng=RNG)); in numeric mode (replay / translator validation,
    no symnp context) `session` patches `numpy.random.default_rng` and the global-state functions for the duration of
    the call: draws come from the numeric pool if there is one, from the real numpy generator otherwise."""

    def __init__(self):
        self.reset(None)

    def reset(self, pool, offset=0):
        self.pool = None if pool is None else list(np.asarray(pool, dtype=object).ravel())
        self.pos = offset
        self.gens, self.draws, self.global_uses, self.unmodelled = [], [], [], []
        self.call_no = 0

    def take(self, n):
        while self.pos + n > len(self.pool):
            if not core._CTX:
                raise RuntimeError("draw pool exhausted")
            self.pool.append(cur().var(f"draw_x{len(self.pool)}"))
        vals = self.pool[self.pos:self.pos + n]
        self.pos += n
        return vals

    def default_rng(self, seed=None, *args, **kwargs):
        g = RecGen(self, seed, len(self.gens), (args, kwargs))
        self.gens.append(g)
        return g

    def _global(self, name):
        real = _REAL_GLOBAL[name]

        def used(*a, **k):
            self.global_uses.append(name)
            return real(*a, **k)
        return used

    def __getattr__(self, name):
        if name.startswith("__"):
            raise AttributeError(name)
        if name in _REAL_GLOBAL:
            return self._global(name)
        self.global_uses.append("attr:" + name)      # Generator / PCG64 / ...: a generator not built by default_rng(seed)
        return getattr(np.random, name)

    @contextlib.contextmanager
    def session(self, pool=None, offset=0):
        self.reset(pool, offset)
        if core._CTX:
            yield self
            return
        saved = {"default_rng": np.random.default_rng}
        np.random.default_rng = self.default_rng
        for n in _REAL_GLOBAL:
            saved[n] = getattr(np.random, n)
            if n != "RandomState":
                setattr(np.random, n, self._global(n))
        try:
            yield self
        finally:
            for n, v in saved.items():
                setattr(np.random, n, v)

    def report(self, seeds, n_generators):
        """seeds[c] / n_generators[c]: the seed argument and the expected number of generators of call number c.
        [generators per call as expected, each one is default_rng(seed=<that call's own seed object>) without further
        arguments, uses of global np.random state, every draw comes from a generator created in the same call (no cached
        generator, no dependence on earlier calls), draws made in every call, unmodelled generator methods]"""
        own = all((g.seed is seeds[g.call_no]) and g.extra_args == ((), {}) for g in self.gens)
        fresh = all(d["call_no"] == self.gens[d["gen"]].call_no for d in self.draws)
        per_call = all(sum(1 for g in self.gens if g.call_no == c) == n for c, n in enumerate(n_generators))
        drew = all(any(d["call_no"] == c for d in self.draws) for c in range(len(seeds)))
        return [bool(per_call), bool(own), len(self.global_uses), bool(fresh), bool(drew), len(self.unmodelled)]


RNG = RecordingRandom()


def draw_pool(b, n):
    """the draws of one obligation: n fresh unconstrained reals named by draw index.  In translator validation the Builder hands
    out constants in [-2, 2]; they are mapped into [0, 1) so that the documented range of Generator.random holds there too."""
    raw = b.array("draw", (n,), "r")
    if b.rnd is None:
        return raw
    return lifted(np.asarray([(v + 2) / 4.0625 for v in raw], dtype=object))


def pool_block(pool, off, shape):
    n = prod(shape)
    return np.asarray(list(np.asarray(pool, dtype=object).ravel()[off:off + n]), dtype=object).reshape(shape), off + n


def as_arr(x):
    """plain view usable in both modes"""
    a = np.asarray(x)
    if a.dtype == object and not core._CTX:
        try:
            a = a.astype(complex)
        except (TypeError, ValueError):
            pass
    return a


def cplx(pool, off, shape, is_real):
    a, off = pool_block(pool, off, shape)
    if is_real:
        return _fin(a), off
    b, off = pool_block(pool, off, shape)
    return _fin(a + 1j * b), off


def _fin(a):
    if core._CTX:
        return lifted(a)
    return np.array(a.tolist(), dtype=complex) if np.iscomplexobj(np.array(a.tolist())) else np.array(a.tolist(), dtype=float)


def trace(m):
    m = np.asarray(m)
    t = 0
    for j in range(m.shape[0]):
        t = t + m[j, j]
    return t


def gram(h):
    """H H^dagger with explicit loops"""
    h = np.asarray(h)
    n, k = h.shape
    out = np.empty((n, n), dtype=object)
    for a in range(n):
        for b in range(n):
            t = 0
            for j in range(k):
                t = t + h[a, j] * (h[b, j].conjugate() if hasattr(h[b, j], "conjugate") else np.conj(h[b, j]))
            out[a, b] = t
    return out if core._CTX else np.array(out.tolist(), dtype=complex)


def witness_pool(n):
    """a fixed generic point inside the documented ranges ([0,1) for uniform draws), used only to DEMONSTRATE a reported
    violation with a plain call (never to establish an obligation)"""
    return np.array([((7 * j + 3) % 16) / 16 + 1 / 32 for j in range(n)], dtype=float)


MARK = "as-stated"


def marker_oracle(i):
    return MARK


def marker_neg(e):
    return "negative-control"


def maybe_neg(exp, want):
    """the oracle value is computed inside `call` (it needs the same path); the negative control perturbs it here"""
    if exp == MARK:
        return want
    if isinstance(want, list):
        return [maybe_neg(exp, want[0])] + list(want[1:])
    return _default_neg(want)


def is_real_valued(a):
    a = np.asarray(a)
    if a.dtype == object:
        return And(*[lift(v).imag.eq(0) for v in a.flat])
    return bool(np.all(np.abs(np.imag(a)) <= 1e-12))


# ==================================================================================================================
# engine extensions registered from this module (kernels with contracts, lemma instances)
# ==================================================================================================================
def _once(key):
    c = cur()
    k = ("c19", key)
    if k in c.by_key:
        return False
    c.by_key[k] = True
    return True


def side_eq(lhs, rhs):
    """definitional/contract equality handed to the solver as it stands"""
    c = cur()
    for x, y in zip(np.asarray(lhs, dtype=object).flat, np.asarray(rhs, dtype=object).flat):
        c.side.append(as_z3(lift(x).eq_solver(y)))


def lemma_mul(E, mults, hyp=True):
    """product lemma  E = 0  =>  m * E = 0  (valid over the reals for every value of every symbol, hence a sound side
    constraint).  It hands the monomial abstraction the non-linear consequences of a contract equality that the goal needs
    (the abstraction itself only combines equalities linearly)."""
    c = cur()
    E = lift(E)
    if E.is_const():
        return
    hz = [E.re.to_z3(c) == 0] + ([E.im.to_z3(c) == 0] if E.im.t else [])
    cons = []
    for m in mults:
        m = lift(m)
        P = m * E
        if P.re.t and not P.re.is_const():
            cons.append(P.re.to_z3(c) == 0)
        if P.im.t and not P.im.is_const():
            cons.append(P.im.to_z3(c) == 0)
    if cons:
        c.side.append(z3.Implies(z3.And(*hz), z3.And(*cons)) if hyp else z3.And(*cons))
        c.stubs.add("lemma instances: E = 0 => m*E = 0 for contract equalities E and listed multipliers m")


def lemma_inv_square(x):
    """t = 1/x is modelled by t*x = 1; the goal '|v/n|^2 sums to 1' needs (t*x)^2 = 1 as well"""
    c = cur()
    x = lift(x)
    if x.is_const() or x.im.t:
        return
    a = c.by_key.get(("inv", x.re.key()))
    if a is None:
        return
    t = Sym(core.Poly.atom(a.id))
    one = t * x - 1
    lemma_mul(one, [t * x])




@handles(np.linalg.qr)
def h_qr_contract(a, mode="reduced"):
    """QR as an uninterpreted kernel; with contract 'qr': Q R = A, Q^dagger Q = I, R upper triangular, Q and R real for a real
    argument, Q Q^dagger = I for a square argument"""
    a = sarr(a)
    if mode != "reduced" or a.ndim != 2:
        raise SymError("qr mode")
    m, n = a.shape
    k = min(m, n)
    L = lifted(a)
    real = all(not v.im.t for v in L.flat)
    kind = "r" if real else "c"
    c = cur()
    fresh = ("kernel", "qr_c", (L.key(),), (real,)) not in c.by_key
    q, r = kernel("qr_c", [a], [((m, k), kind), ((k, n), kind)], extra=(real,), concrete=lambda x: tuple(np.linalg.qr(x)))
    R = np.empty((k, n), dtype=object)
    for i in range(k):
        for j in range(n):
            R[i, j] = r[i, j] if j >= i else lift(0)
    R = R.view(SymArray)
    if real:
        c.stubs.add("kernel qr: real factors for a real argument")
    if fresh and want_contract("qr"):
        Q = np.asarray(q)
        side_eq(Q @ np.asarray(R), L)
        side_eq(Q.conj().T @ Q, np.identity(k, dtype=object))
        if m == n:
            side_eq(Q @ Q.conj().T, np.identity(m, dtype=object))
        c.stubs.add("contract qr: Q R = A, Q^dagger Q = I (Q Q^dagger = I when square), R upper triangular, real for real A")
    return (q, R)


_h_eigh_core = HANDLERS[np.linalg.eigh]


@handles(np.linalg.eigh)
def h_eigh_real(a, UPLO="L"):
    """eigenvectors of a real symmetric argument are real (LAPACK syevd); otherwise the engine's kernel unchanged"""
    r = _h_eigh_core(a, UPLO)
    if all(not v.im.t for v in lifted(sarr(a)).flat):
        cur().stubs.add("kernel eigh: real eigenvectors for a real symmetric argument")
        return type(r)(r[0], sarr(r[1]).real)
    return r


class SignArray(SymArray):
    """result of np.sign on symbolic values: `arr == 0` is decided (the zero test was forked when the sign was taken)"""

    def __array_finalize__(self, obj):
        self._zero = getattr(obj, "_zero", None) if getattr(obj, "shape", None) == self.shape else None

    def __eq__(self, o):
        z = getattr(self, "_zero", None)
        if z is not None and isinstance(o, (int, float)) and o == 0:
            return z.copy()
        return SymArray.__eq__(self, o)

    __hash__ = None


def sym_sign(x, *a, **k):
    """np.sign (numpy >= 2: z/|z| for complex z, 0 at 0).  Real symbolic value: the path forks on the sign.  Complex symbolic
    value: fork on z == 0; otherwise an uninterpreted unit-modulus phase p with p*|z| = z, |p|^2 = 1."""
    if not has_sym(x):
        return np.sign(x, *a, **k)
    arr = lifted(np.asarray(x, dtype=object))
    out = np.empty(arr.shape, dtype=object)
    zero = np.zeros(arr.shape, dtype=bool)
    c = cur()
    for idx in np.ndindex(*arr.shape):
        v = arr[idx]
        if v.is_const():
            out[idx] = lift(complex(np.sign(complex(v.cval()))) if v.im.t else float(np.sign(float(v.cval()))))
            zero[idx] = (v.cval() == 0)
        elif not v.im.t:
            if bool(v > 0):
                out[idx] = lift(1)
            elif bool(v < 0):
                out[idx] = lift(-1)
            else:
                out[idx] = lift(0)
                zero[idx] = True
        else:
            if bool(v != 0):
                fresh = ("kernel", "sign", (as0d(v).key(),), ()) not in c.by_key
                p = kernel("sign", [as0d(v)], [((), "c")], concrete=lambda z: np.sign(complex(z)))[0]
                if fresh:
                    side_eq([p.real * p.real + p.imag * p.imag], [1])
                    side_eq([p * abs(v)], [v])
                    c.stubs.add("np.sign(z), complex z != 0: uninterpreted phase p with |p|^2 = 1 and p*|z| = z")
                out[idx] = p
            else:
                out[idx] = lift(0)
                zero[idx] = True
    if all(v.is_const() for v in out.flat):
        vals = [v.cval() for v in out.flat]
        return np.array([complex(t) if isinstance(t, complex) else float(t) for t in vals]).reshape(arr.shape)
    r = out.view(SignArray)
    r._zero = zero
    return r


NP_OVERRIDES["sign"] = sym_sign

_h_norm_core = HANDLERS[np.linalg.norm]


@handles(np.linalg.norm)
def h_norm_axis(x, ord=None, axis=None, keepdims=False):
    """adds the row/column-wise 2-norm (exact: sqrt of the sum of squares) to the engine's norm handler"""
    if axis is None:
        return _h_norm_core(x, ord=ord, axis=axis, keepdims=keepdims)
    x = sarr(x)
    if x.ndim != 2 or ord not in (None, 2) or axis not in (0, 1, -1):
        raise SymError("norm with this axis/ord on symbolic array")
    ax = 1 if axis in (1, -1) else 0
    L = lifted(x)
    out = np.empty(L.shape[1 - ax], dtype=object)
    for j in range(L.shape[1 - ax]):
        vec = L[j, :] if ax == 1 else L[:, j]
        tot = lift(0)
        for v in vec:
            tot = tot + Sym(v.re * v.re + v.im * v.im)
        out[j] = tot.sqrt()
    out = out.view(SymArray)
    return out[:, None] if (keepdims and ax == 1) else (out[None, :] if keepdims else out)


# ==================================================================================================================
# (a) provenance
# ==================================================================================================================
def ob_prov(fname, cfg, thunk, n_generators=1, pool_n=64, seed=SEED):
    cfg = dict(cfg, function=fname, seed="None" if seed is None else "int", generators_per_call=n_generators)

    def build(b):
        return {"pool": draw_pool(b, pool_n)}

    def call(i):
        # history: the call, an unseeded call of another generator function, the same call again
        other = _SeedInt(7) if seed is None else None
        with RNG.session(i["pool"]) as s:
            s.call_no = 0
            thunk(seed)
            s.call_no = 1
            random_ginibre(1, 2, seed=other)
            s.call_no = 2
            thunk(seed)
            return s.report([seed, other, seed], [n_generators, 1, n_generators])

    def oracle(i):
        return [True, True, 0, True, True, 0]
    return Obligation("provenance.every_draw_from_default_rng_of_own_seed_no_global_state", cfg, build, call, oracle,
                      neg=lambda e: [False] + list(e[1:]), rng=RNG, max_paths=1024)


# ==================================================================================================================
# (b) validity for arbitrary draws
# ==================================================================================================================
def ob_density(dim, is_real, k, metric, definition=False):
    """definition=False: the property's claim (valid density operator of rank <= k: SOME dim x k factor).
    definition=True (bures): the factor is the Bures construction (1 + U) G itself."""
    kk = dim if k is None else k
    cfg = {"dim": dim, "is_real": is_real, "k_param": k, "distance_metric": metric, "k_lt_dim": kk < dim, "dim_is_1": dim == 1}
    n_pool = dim * kk * 2 + dim * dim * 2 + 2

    def build(b):
        return {"pool": draw_pool(b, n_pool)}

    def call(i):
        with RNG.session(i["pool"]):
            rho = random_density_matrix(dim, is_real, k, metric, seed=SEED)
        G, off1 = cplx(i["pool"], 0, (dim, kk), is_real)
        if metric != "bures":
            H = [G]
        else:
            # the unitary the function itself draws (second generator, same seed): the value of random_unitary on the next draws
            with RNG.session(i["pool"], offset=off1):
                U = as_arr(random_unitary(dim, is_real, seed=SEED))
            H = [(np.identity(dim) + U) @ np.asarray(G)]      # Bures construction: (1 + U) G  (dim x k  =>  rank <= k)
            if kk == dim and not definition:
                H.append(U + np.asarray(G))                    # any dim x k factor is a witness for validity
        wants = []
        for h in H:
            N = gram(h)
            wants.append(np.asarray(N) / trace(N))
        return [as_arr(rho), wants]

    def post(res, exp, i):
        rho, wants = res
        wants = [maybe_neg(exp, w) for w in wants]
        ok = Or(*[eq(rho, w) for w in wants])
        return And(ok, eq(trace(rho), 1), eq(rho, dagger(rho)))
    def valid(ni):
        pl = np.asarray(ni["pool"], dtype=float)
        u = pl[:dim * kk]
        return bool(np.all(u >= 0) and np.all(u < 1) and np.linalg.norm(pl[:2 * dim * kk]) > 1e-2)

    def witness():
        return [{"pool": witness_pool(n_pool)}]
    name = "random_density_matrix.equals_HHdag_over_trace_for_a_dim_x_k_factor_unit_trace"
    if definition:
        name = "random_density_matrix.bures_factor_is_(1+U)G"
    return Obligation(name, cfg, build, call, marker_oracle, post=post, neg=marker_neg, rng=RNG, max_paths=128,
                      contracts=("qr",), tv=(metric != "bures"), valid=valid, witness=witness,
                      weight=(dim ** 4 if metric == "bures" else 1))


def unitary_lemmas(gin):
    """lemma instances for 'Q diag(p) is unitary': (Q^dagger Q - I)_ij * conj(p_i) p_j = 0 and (|p_k|^2 - 1) * Q_ik conj(Q_jk) = 0,
    with Q, R the SAME kernel values the function received (congruence on the argument) and p the phases of diag(R)."""
    if not core._CTX or not has_sym(gin):
        return
    q, r = np.linalg.qr(sarr(gin))
    Q = np.asarray(q)
    n = Q.shape[0]
    c = cur()
    ph = []
    for j in range(n):
        v = lift(r[j, j])
        if v.is_const() or not v.im.t:
            ph.append(None)       # real case: the sign is a constant +-1 on each path, nothing non-linear
            continue
        rec = c.by_key.get(("kernel", "sign", (as0d(v).key(),), ()))
        ph.append(rec[0] if rec is not None else None)
    gk = lifted(sarr(gin)).key()
    QhQ = Q.conj().T @ Q
    for i in range(n):
        for j in range(n):
            E = QhQ[i, j] - (1 if i == j else 0)
            ms = []
            if ph[i] is not None and ph[j] is not None and _once(("ul", gk, i, j, "ij")):
                ms.append(ph[i].conjugate() * ph[j])
            if ph[i] is not None and _once(("ul", gk, i, j, "i")):
                ms.append(ph[i].conjugate())
            if ph[j] is not None and _once(("ul", gk, i, j, "j")):
                ms.append(ph[j])
            if ms:
                lemma_mul(E, ms, hyp=False)
    for k in range(n):
        if ph[k] is None or not _once(("ul", gk, k, "unit")):
            continue
        F = ph[k].real * ph[k].real + ph[k].imag * ph[k].imag - 1
        lemma_mul(F, [Q[i, k] * Q[j, k].conjugate() for i in range(n) for j in range(n)], hyp=False)


def ob_unitary(dim, is_real, form):
    """form: 'int' -> dim, 'list' -> [dim, dim]"""
    cfg = {"dim": dim, "is_real": is_real, "dim_form": form}

    def build(b):
        return {"pool": draw_pool(b, 2 * dim * dim)}

    def call(i):
        with RNG.session(i["pool"]):
            U = random_unitary(dim if form == "int" else [dim, dim], is_real, seed=SEED)
        gin, _ = cplx(i["pool"], 0, (dim, dim), is_real)
        unitary_lemmas(gin)
        U = as_arr(U)
        return [dagger(U) @ U, U @ dagger(U), [is_real_valued(U)] if is_real else [True], np.asarray(U.shape)]

    def oracle(i):
        I = np.identity(dim)
        return [I, I, [True], np.asarray((dim, dim))]
    return Obligation("random_unitary.unitary_under_qr_contract_and_orthogonal_when_real", cfg, build, call, oracle, rng=RNG,
                      max_paths=256, contracts=("qr",), tv=False, weight=5 * dim)


def ob_unitary_rejects_nonsquare(d0, d1):
    cfg = {"dim": [d0, d1]}

    def build(b):
        return {"pool": draw_pool(b, 2 * d0 * d1)}

    def call(i):
        with RNG.session(i["pool"]):
            return [np.asarray(np.shape(random_unitary([d0, d1], False, seed=SEED)))]

    def oracle(i):
        return [np.asarray((d0, d0))]

    def exc_post(e, i):
        return isinstance(e, ValueError) and d0 != d1
    return Obligation("random_unitary.rejects_non_square_dimension_list", cfg, build, call, oracle, exc_post=exc_post, rng=RNG,
                      contracts=("qr",), tv=False, neg_control=False)


def ob_basis(dim, is_real):
    cfg = {"dim": dim, "is_real": is_real}

    def build(b):
        return {"pool": draw_pool(b, 2 * dim * dim)}

    def call(i):
        with RNG.session(i["pool"]):
            basis = random_orthonormal_basis(dim, is_real, seed=SEED)
        gin, _ = cplx(i["pool"], 0, (dim, dim), is_real)
        unitary_lemmas(gin)
        vs = [as_arr(v) for v in basis]
        gramm = np.empty((len(vs), len(vs)), dtype=object)
        for a in range(len(vs)):
            for b_ in range(len(vs)):
                t = 0
                for x in range(vs[a].shape[0]):
                    t = t + (vs[a][x].conjugate() if hasattr(vs[a][x], "conjugate") else np.conj(vs[a][x])) * vs[b_][x]
                gramm[a, b_] = t
        resol = None       # sum_i |b_i><b_i|  (the vectors span the space)
        for v in vs:
            t = np.outer(v, np.conj(v))
            resol = t if resol is None else resol + t
        return [gramm if core._CTX else gramm.astype(complex), resol, np.asarray([len(vs), vs[0].shape[0], vs[0].ndim]),
                [is_real_valued(np.asarray(vs))] if is_real else [True]]

    def oracle(i):
        return [np.identity(dim), np.identity(dim), np.asarray([dim, dim, 1]), [True]]
    return Obligation("random_orthonormal_basis.orthonormal_and_complete_under_qr_contract", cfg, build, call, oracle, rng=RNG,
                      max_paths=256, contracts=("qr",), tv=False, weight=5 * dim)


def inv_atom(x):
    """the symbol t the engine introduced for 1/x (None if the code never divided by x)"""
    x = lift(x)
    if x.is_const() or x.im.t:
        return None
    a = cur().by_key.get(("inv", x.re.key()))
    return None if a is None else Sym(core.Poly.atom(a.id))


def norm2(v):
    """Euclidean norm with explicit loops (symbolic: sqrt symbol of the sum of squares)"""
    v = np.asarray(v).reshape(-1)
    if core._CTX:
        tot = lift(0)
        for x in v:
            x = lift(x)
            tot = tot + Sym(x.re * x.re + x.im * x.im)
        return tot.sqrt()
    return float(np.sqrt(sum(abs(complex(x)) ** 2 for x in v)))


def normsq(v):
    v = np.asarray(v).reshape(-1)
    tot = 0
    for x in v:
        tot = tot + x * (x.conjugate() if hasattr(x, "conjugate") else np.conj(x))
    return tot


def ob_state_vector(dim, is_real, k):
    """dim: int or [d0, d1]; k = k_param"""
    cfg = {"dim": dim, "is_real": is_real, "k_param": k, "dim_form": "list" if isinstance(dim, list) else "int"}
    lst = isinstance(dim, list)
    d0, d1 = (dim if lst else (dim, dim))
    schmidt = 0 < k < min(d0, d1)
    n_pool = 2 * (d0 + d1) * max(k, 1) + 2 * d0 * d1 + 2

    def build(b):
        return {"pool": draw_pool(b, n_pool)}

    def call(i):
        with RNG.session(i["pool"]):
            res = random_state_vector(dim, is_real, k, seed=SEED)
        pl = i["pool"]
        if schmidt:
            a, off = pool_block(pl, 0, (k, d0))
            b_, off = pool_block(pl, off, (k, d1))
            if not is_real:
                ai, off = pool_block(pl, off, (k, d0))
                bi, off = pool_block(pl, off, (k, d1))
                a, b_ = a + 1j * ai, b_ + 1j * bi
            v = np.empty(d0 * d1, dtype=object)
            for x in range(d0):
                for y in range(d1):
                    t = 0
                    for j in range(k):              # sum of k product terms  =>  Schmidt rank <= k
                        t = t + a[j, x] * b_[j, y]
                    v[x * d1 + y] = t
            size = d0 * d1
        else:
            size = d0 * d1 if lst else dim           # no Schmidt-rank request: a unit vector of the whole space
            v, off = pool_block(pl, 0, (size,))
            if not is_real:
                vi, off = pool_block(pl, off, (size,))
                v = v + 1j * vi
        n = norm2(v)
        lemma_inv_square(n) if core._CTX else None
        want = np.asarray([x / n for x in v], dtype=object if core._CTX else complex)
        res = as_arr(res).reshape(-1)
        return [[res, normsq(res), [is_real_valued(res)] if is_real else [True]], want]

    def post(res, exp, i):
        (vec, nsq, real), want = res
        return And(eq(vec, maybe_neg(exp, want)), eq(nsq, 1), eq(real, [True]))

    def valid(ni):
        return float(np.linalg.norm(np.asarray(ni["pool"], dtype=float))) > 1e-2

    def witness():
        return [{"pool": witness_pool(n_pool)}]
    name = "random_state_vector.normalised_sum_of_k_product_terms" if schmidt else "random_state_vector.unit_vector_of_the_space"
    return Obligation(name, cfg, build, call, marker_oracle, post=post, neg=marker_neg, rng=RNG, valid=valid, witness=witness,
                      max_paths=16)


def ob_states(n, d):
    cfg = {"n": n, "d": d}

    def build(b):
        return {"pool": draw_pool(b, 2 * n * d)}

    def call(i):
        with RNG.session(i["pool"]):
            res = random_states(n, d, seed=SEED)
        re, off = pool_block(i["pool"], 0, (n, d))
        im, off = pool_block(i["pool"], off, (n, d))
        got, want = [], []
        for j in range(n):
            g = re[j, :] + 1j * im[j, :]
            nn = norm2(g)
            lemma_inv_square(nn) if core._CTX else None
            want.append(np.asarray([x / nn for x in g], dtype=object if core._CTX else complex).reshape(d, 1))
            r = as_arr(res[j])
            got.append([r, normsq(r)])
        return [got, want, len(res)]

    def post(res, exp, i):
        got, want, ln = res
        want = maybe_neg(exp, want)
        return And(ln == n, *[eq(g[0], w) & eq(g[1], 1) for g, w in zip(got, want)])
    return Obligation("random_states.each_ket_is_the_normalised_draw_unit_norm", cfg, build, call, marker_oracle, post=post,
                      neg=marker_neg, rng=RNG, max_paths=16)


def ob_ginibre(n, m):
    cfg = {"dim_n": n, "dim_m": m}

    def build(b):
        return {"pool": draw_pool(b, 2 * n * m)}

    def call(i):
        with RNG.session(i["pool"]):
            return as_arr(random_ginibre(n, m, seed=SEED))

    def oracle(i):
        g, _ = cplx(i["pool"], 0, (n, m), False)
        return np.asarray(g) / np.sqrt(2)
    return Obligation("random_ginibre.is_(A+iB)/sqrt2_of_the_draws", cfg, build, call, oracle, rng=RNG)


def ob_psd(dim, is_real):
    cfg = {"dim": dim, "is_real": is_real}

    def build(b):
        return {"pool": draw_pool(b, 2 * dim * dim)}

    def call(i):
        with RNG.session(i["pool"]):
            res = as_arr(random_psd_operator(dim, is_real, seed=SEED))
        A, _ = cplx(i["pool"], 0, (dim, dim), is_real)
        A = np.asarray(A)
        H = np.empty((dim, dim), dtype=object)
        for a in range(dim):
            for b_ in range(dim):
                H[a, b_] = ((A[b_, a].conjugate() if hasattr(A[b_, a], "conjugate") else np.conj(A[b_, a])) + A[a, b_]) / 2
        H = H.view(SymArray) if core._CTX else np.array(H.tolist())
        w, V = np.linalg.eigh(H)
        Q, _ = np.linalg.qr(V)
        Q = np.asarray(Q)
        # M = Q diag(sqrt|w|):  result = M M^dagger  =>  Hermitian positive semidefinite
        M = np.empty((dim, dim), dtype=object)
        for a in range(dim):
            for k in range(dim):
                s = abs(w[k]) ** 0.5 if core._CTX else float(np.sqrt(abs(w[k])))
                M[a, k] = Q[a, k] * s
        want = gram(M)
        return [res, want, [is_real_valued(res)] if is_real else [True]]

    def post(res, exp, i):
        got, want, real = res
        return And(eq(got, maybe_neg(exp, want)), eq(got, dagger(got)), eq(real, [True]))
    return Obligation("random_psd_operator.equals_MMdag_with_M=Q_sqrt_abs_eigenvalues", cfg, build, call, marker_oracle,
                      post=post, neg=marker_neg, rng=RNG, max_paths=16, tv=True)


def ob_circulant(dim):
    cfg = {"dim": dim}
    import math
    TOL = 1e-12

    def build(b):
        return {"pool": draw_pool(b, dim)}

    def call(i):
        with RNG.session(i["pool"]):
            return as_arr(random_circulant_gram_matrix(dim, seed=SEED))

    def oracle(i):
        # Re(F^dagger D F)_ab = (1/n) sum_k D_k cos(2 pi k (a-b)/n): depends on (a-b) mod n only (circulant), symmetric, and a
        # non-negative combination (D_k >= 0: documented range of Generator.random) of the PSD matrices c_k c_k^T + s_k s_k^T
        D = list(np.asarray(i["pool"], dtype=object).ravel()[:dim])
        out = np.empty((dim, dim), dtype=object)
        for a in range(dim):
            for b_ in range(dim):
                t = 0
                for k in range(dim):
                    t = t + D[k] * (math.cos(2 * math.pi * k * ((a - b_) % dim) / dim) / dim)
                out[a, b_] = t
        return out

    def close(x, y):
        d = x - y
        if isinstance(d, Sym):
            return And(d.real <= TOL, -d.real <= TOL, d.imag.eq(0))
        return bool(abs(d) <= 1e-9)

    def post(res, exp, i):
        res = np.asarray(res)
        if res.shape != (dim, dim):
            return False
        conj = []
        for a in range(dim):
            for b_ in range(dim):
                conj.append(close(res[a, b_], exp[a, b_]))                                   # the closed form (within float DFT error)
                conj.append(close(res[a, b_], res[(a + 1) % dim, (b_ + 1) % dim]))          # circulant
                conj.append(close(res[a, b_], res[b_, a]))                                   # symmetric
        return And(*conj)

    def valid(ni):
        pl = np.asarray(ni["pool"], dtype=float)
        return bool(np.all(pl >= 0) and np.all(pl < 1))
    return Obligation("random_circulant_gram_matrix.closed_form_circulant_symmetric_psd_combination", cfg, build, call, oracle,
                      post=post, rng=RNG, valid=valid, witness=lambda: [{"pool": witness_pool(dim)}], neg_control=dim > 1)


# ---- random_povm -----------------------------------------------------------------------------------------------
_h_svd_core = HANDLERS[np.linalg.svd]


@handles(np.linalg.svd)
def h_svd_gram(a, full_matrices=True, compute_uv=True, hermitian=False):
    """contract 'svd_gram' (argument positive semidefinite BY CONSTRUCTION, a Gram sum): the SVD is an eigendecomposition,
    N = U diag(s) U^dagger, U unitary, V^H = U^dagger, U^dagger N U = diag(s), s >= 0"""
    r = _h_svd_core(a, full_matrices=full_matrices, compute_uv=compute_uv, hermitian=hermitian)
    if not compute_uv or not want_contract("svd_gram"):
        return r
    a = sarr(a)
    n = a.shape[0]
    L = lifted(a)
    if a.shape[0] != a.shape[1] or not _once(("svd_gram", L.key(), full_matrices)):
        return r
    u, s_, vh = r
    U = np.asarray(u)
    Ud = U.conj().T
    S = np.zeros((n, n), dtype=object)
    for k in range(n):
        S[k, k] = s_[k]
    c = cur()
    side_eq(U @ S @ Ud, L)
    side_eq(Ud @ U, np.identity(n, dtype=object))
    side_eq(U @ Ud, np.identity(n, dtype=object))
    side_eq(Ud @ np.asarray(L) @ U, S)
    side_eq(np.asarray(vh), Ud)
    for k in range(n):
        c.side.append(as_z3(s_[k] >= 0))
    c.stubs.add("contract svd_gram: for the positive semidefinite Gram sum N: N = U diag(s) U^dagger, U unitary, U^dagger N U = diag(s), s >= 0")
    return r


def ob_povm(dim, ni, no):
    cfg = {"dim": dim, "num_inputs": ni, "num_outputs": no}

    def build(b):
        return {"pool": draw_pool(b, ni * no * dim * dim)}

    def call(i):
        with RNG.session(i["pool"]):
            povms = as_arr(random_povm(dim, ni, no, seed=SEED))
        G, _ = pool_block(i["pool"], 0, (ni, no, dim, dim))
        sums, elems, wants = [], [], []
        for x in range(ni):
            N = None
            for a in range(no):
                g = G[x, a]
                t = np.empty((dim, dim), dtype=object)
                for k in range(dim):
                    for l in range(dim):
                        acc = 0
                        for m in range(dim):
                            acc = acc + g[m, k] * g[m, l]
                        t[k, l] = acc
                N = t if N is None else N + t
            N = N.view(SymArray) if core._CTX else np.array(N.tolist(), dtype=float)
            u, sv, _ = np.linalg.svd(N)
            U = np.asarray(u)
            if core._CTX and has_sym(N):
                ts = []
                for k in range(dim):
                    q = lift(sv[k]).sqrt()
                    ts.append(inv_atom(q))
                    lemma_inv_square(q)
                UNU = U.conj().T @ np.asarray(N) @ U
                for a_ in range(dim):
                    for b_ in range(dim):
                        if ts[a_] is not None and ts[b_] is not None and _once(("povm_l", x, a_, b_)):
                            lemma_mul(UNU[a_, b_] - (sv[a_] if a_ == b_ else 0), [ts[a_] * ts[b_]], hyp=False)
            tot = None
            for a in range(no):
                P = povms[:, :, x, a]
                tot = P if tot is None else tot + P
                elems.append(P)
                # M = G_a U diag(s^-1/2):  element = M^dagger M  =>  positive semidefinite
                M = np.empty((dim, dim), dtype=object)
                for r_ in range(dim):
                    for k in range(dim):
                        acc = 0
                        for m in range(dim):
                            acc = acc + G[x, a][r_, m] * U[m, k]
                        M[r_, k] = acc * (lift(sv[k]) ** (-0.5) if core._CTX else float(sv[k]) ** -0.5)
                Mx = M if core._CTX else np.array(M.tolist(), dtype=complex)
                wants.append(dagger(Mx) @ Mx)
            sums.append(tot)
        return [[elems, sums, np.asarray(povms.shape)], wants]

    def post(res, exp, i):
        (elems, sums, shape), wants = res
        wants = maybe_neg(exp, wants)
        return And(eq(shape, np.asarray((dim, dim, ni, no))), *([eq(e, w) for e, w in zip(elems, wants)] +
                                                               [eq(s_, np.identity(dim)) for s_ in sums]))
    return Obligation("random_povm.elements_MdagM_and_sum_to_identity_per_input_under_svd_contract", cfg, build, call, marker_oracle,
                      post=post, neg=marker_neg, rng=RNG, contracts=("svd_gram",), max_paths=16, weight=dim ** 3 * no,
                      valid=lambda ni_: float(np.linalg.norm(np.asarray(ni_["pool"], dtype=float))) > 1e-2)


# ==================================================================================================================
# (c) measurements
# ==================================================================================================================
def cj(x):
    return x.conjugate() if hasattr(x, "conjugate") else np.conj(x)


def sandwich(K, rho):
    """K rho K^dagger with explicit loops"""
    K, rho = np.asarray(K), np.asarray(rho)
    m, d = K.shape
    out = np.empty((m, m), dtype=object)
    for a in range(m):
        for c_ in range(m):
            t = 0
            for b_ in range(d):
                for e in range(d):
                    t = t + K[a, b_] * rho[b_, e] * cj(K[c_, e])
            out[a, c_] = t
    return out if core._CTX else np.array(out.tolist(), dtype=complex)


def completeness(Ks):
    """sum_i K_i^dagger K_i with explicit loops"""
    d = np.asarray(Ks[0]).shape[1]
    out = np.empty((d, d), dtype=object)
    for a in range(d):
        for b_ in range(d):
            t = 0
            for K in Ks:
                K = np.asarray(K)
                for m in range(K.shape[0]):
                    t = t + cj(K[m, a]) * K[m, b_]
            out[a, b_] = t
    return out if core._CTX else np.array(out.tolist(), dtype=complex)


def re_part(x):
    return x.real if isinstance(x, Sym) else float(np.real(x))


def density_verdict(rho):
    """is_density's own verdict formula (Hermitian within allclose, eigvalsh >= -1e-8, trace isclose 1), no forking"""
    rho = np.asarray(rho)
    if core._CTX:
        R = rho.view(SymArray)
        herm = np.allclose(R, dagger(R).view(SymArray), rtol=1e-5, atol=1e-8)
        ev = np.linalg.eigvalsh(R)
        psd = And(*[lift(x) >= -1e-8 for x in np.asarray(ev)])
        tr = lift(trace(rho))
        d = tr - 1
        close = (abs(d) <= 1e-8 + 1e-5) if d.im.t else And(d <= 1e-8 + 1e-5, -d <= 1e-8 + 1e-5)
        return And(herm, psd, close)
    herm = np.allclose(rho, rho.conj().T, rtol=1e-5, atol=1e-8)
    return bool(herm and np.all(np.linalg.eigvalsh(rho) >= -1e-8) and np.isclose(np.trace(rho), 1))


def within(S, bound, num_bound=None):
    """every entry of S - I within `bound` (real and imaginary part)"""
    num_bound = bound if num_bound is None else num_bound
    S = np.asarray(S)
    conj = []
    for a in range(S.shape[0]):
        for b_ in range(S.shape[1]):
            d = S[a, b_] - (1 if a == b_ else 0)
            if isinstance(d, Sym):
                conj += [d.real <= bound, -d.real <= bound, d.imag <= bound, -d.imag <= bound]
            else:
                conj.append(bool(abs(d) <= num_bound))
    return And(*conj)


def witness_matrix(m, d, j):
    """fixed generic complex m x d matrix (demonstration of reported violations only)"""
    return np.array([[((3 * a + 5 * b_ + 7 * j + 1) % 8) / 8 + 1j * (((5 * a + 3 * b_ + j + 2) % 8) / 8 - 0.5) for b_ in range(d)]
                     for a in range(m)], dtype=complex)


def witness_density(d):
    a = witness_matrix(d, d, 11)
    rho = a @ a.conj().T
    return rho / np.trace(rho).real


def ob_measure(d, r, form, su, m=None):
    """form: 'single' | 'list' | 'tuple'; su = state_update; K_i of shape m x d (m = d by default)"""
    m = m or d
    cfg = {"d": d, "n_ops": r, "form": form, "state_update": su, "op_rows": m}
    TOL = 1e-10

    def build(b):
        return {"rho": b.array("rho", (d, d), "h"), "K": [b.array(f"K{j}", (m, d), "c") for j in range(r)]}

    def call(i):
        rho, Ks = i["rho"], list(i["K"])
        meas = Ks[0] if form == "single" else (Ks if form == "list" else tuple(Ks))
        out = measure(rho, meas, state_update=su)
        outs = [out] if form == "single" else list(out)
        got, want, norm_tr, gate = [], [], [], (su and form != "single")
        for K, o in zip(Ks, outs):
            R = sandwich(K, rho)
            pw = re_part(trace(R))                 # Born rule: Re Tr(K rho K^dagger)
            if su:
                gp, gs = o
                gs = as_arr(gs)
                if pw > TOL:
                    ws = np.asarray(R) / pw
                    norm_tr.append(trace(gs))      # normalised post-measurement state
                else:
                    ws = np.zeros((d, d))
                    gate = False
                got.append([gp, gs])
                want.append([pw, ws])
            else:
                got.append([o])
                want.append([pw])
        S = completeness(Ks)
        tot = 0
        for g in got:
            tot = tot + g[0]
        return [[got, tot, norm_tr], [want, re_part(trace(np.asarray(rho) @ np.asarray(S))), [1] * len(norm_tr)], [bool(gate), S],
                type(out).__name__]

    def post(res, exp, i):
        (got, tot, ntr), (want, wtot, wntr), (gate, S), tname = res
        want = maybe_neg(exp, want) if exp != MARK else want
        ok = And(eq(got, want), eq(tot, wtot), eq(ntr, wntr))
        if gate:      # complete check was performed and passed: sum K^dagger K = I within (a generous multiple of) the tolerance
            ok = And(ok, within(S, 1e-4))
        return ok

    def neg(e):
        return "negative-control"

    def exc_post(e, i):
        if not isinstance(e, ValueError):
            return False
        if "density" in str(e):
            v = density_verdict(i["rho"])
            return ~v if isinstance(v, SymBool) else (not v)
        if "completeness" in str(e) and su and form != "single":
            ex = eq(completeness(list(i["K"])), np.identity(d))
            return ~ex if isinstance(ex, SymBool) else (not ex)
        return False
    def witness():
        out = [{"rho": witness_density(d), "K": [witness_matrix(m, d, j) for j in range(r)]}]
        if m == d and r == d:
            # a basis state measured in its own basis: non-zero operators whose outcome has probability exactly 0
            # (documented post-measurement state: the zero matrix)
            rho = np.zeros((d, d), dtype=complex)
            rho[0, 0] = 1.0
            Ks = []
            for j in range(d):
                P = np.zeros((d, d), dtype=complex)
                P[j, j] = 1.0
                Ks.append(P)
            out.append({"rho": rho, "K": Ks})
            out.append({"rho": rho, "K": Ks[::-1]})
        return out
    return Obligation("measure.born_rule_post_state_total_and_guards", cfg, build, call, marker_oracle, post=post, neg=neg,
                      exc_post=exc_post, max_paths=600, weight=4 * r * d, tv=False, witness=witness)


def ob_measure_complete_family(d, su):
    """a complete family by construction: K0 = diag(1,..,1,c), K1 = s |0><d-1| with c^2 + s^2 = 1: accepted, probabilities sum to Tr rho"""
    cfg = {"d": d, "state_update": su, "family": "K0=diag(1,..,1,c), K1=s|0><d-1|, c*c+s*s=1"}

    def build(b):
        return {"rho": b.array("rho", (d, d), "h"), "c": b.real("c"), "s": b.real("s")}

    def ks(i):
        K0 = np.zeros((d, d), dtype=object)
        K1 = np.zeros((d, d), dtype=object)
        for k in range(d):
            K0[k, k] = 1 if k < d - 1 else i["c"]
        K1[0, d - 1] = i["s"]
        if core._CTX:
            return [lifted(K0), lifted(K1)]
        return [np.array(K0.tolist(), dtype=float), np.array(K1.tolist(), dtype=float)]

    def call(i):
        rho = i["rho"]
        if core._CTX:
            E = i["c"] * i["c"] + i["s"] * i["s"] - 1
            if _once("complete_family_lemma"):
                lemma_mul(E, [np.asarray(rho)[d - 1, d - 1]], hyp=False)
        out = measure(rho, ks(i), state_update=su)
        tot = 0
        for o in out:
            tot = tot + (o[0] if su else o)
        return [tot]

    def oracle(i):
        return [re_part(trace(np.asarray(i["rho"])))]

    def assume(i):
        return [(i["c"] * i["c"] + i["s"] * i["s"]).eq_solver(1)]

    def valid(ni):
        return abs(ni["c"] ** 2 + ni["s"] ** 2 - 1) < 1e-12

    def exc_post(e, i):
        # only the density-matrix rejection is legitimate here: the family is complete
        if isinstance(e, ValueError) and "density" in str(e):
            v = density_verdict(i["rho"])
            return ~v if isinstance(v, SymBool) else (not v)
        return False
    def witness():
        # c = 3/5, s = 4/5 (exact), a full-rank density matrix so that every outcome has positive probability
        rho = np.diag(np.arange(1, d + 1, dtype=float))
        rho = rho / np.trace(rho)
        rho = rho.astype(complex)
        rho[0, d - 1] += 0.05j
        rho[d - 1, 0] -= 0.05j
        return [{"rho": rho, "c": 0.6, "s": 0.8}, {"rho": rho, "c": 0.8, "s": -0.6}]
    return Obligation("measure.complete_family_accepted_probabilities_sum_to_trace", cfg, build, call, oracle, assume=assume,
                      valid=valid, exc_post=exc_post, tv=False, neg_control=True, max_paths=600, witness=witness)


def ob_measure_incomplete_rejected(d, r):
    """docstring: ':raises ValueError: If a list of operators does not satisfy the completeness relation' (state_update=True).
    For a set that misses completeness by a margin the call must not return normally."""
    cfg = {"d": d, "n_ops": r, "state_update": True, "margin": 1e-3}

    def build(b):
        return {"rho": b.array("rho", (d, d), "h"), "K": [b.array(f"K{j}", (d, d), "c") for j in range(r)]}

    def call(i):
        measure(i["rho"], list(i["K"]), state_update=True)
        return [True]        # returned normally

    def oracle(i):
        return [False]

    def assume(i):
        S = np.asarray(completeness(list(i["K"])))
        far = []
        for a in range(d):
            for b_ in range(d):
                dlt = S[a, b_] - (1 if a == b_ else 0)
                far += [dlt.real > 1e-3, dlt.real < -1e-3, dlt.imag > 1e-3, dlt.imag < -1e-3]
        return [Or(*far)]

    def valid(ni):
        S = completeness(list(ni["K"]))
        return bool(np.max(np.abs(S - np.identity(d))) > 1e-3)

    def exc_post(e, i):
        return isinstance(e, ValueError)

    def witness():
        rho = np.zeros((d, d))
        rho[0, 0] = 1.0
        K = [np.zeros((d, d), dtype=complex) for _ in range(r)]
        K[0][0, 0] = 1.0
        if r > 1:
            K[1][d - 1, d - 1] = 0.5
        return [{"rho": rho, "K": K}]
    return Obligation("measure.incomplete_kraus_list_is_rejected_when_state_update", cfg, build, call, oracle, assume=assume,
                      valid=valid, exc_post=exc_post, witness=witness, tv=False, neg_control=False, max_paths=600)


# ---- pretty good / pretty bad measurement ------------------------------------------------------------------------
def sp_fmp_contract(a, t):
    """fractional_matrix_power as an uninterpreted kernel; with contract 'fmp_inv_sqrt' and exponent -1/2:
    R P R = I, and R Hermitian when P is (structurally) Hermitian"""
    if not has_sym(a):
        return sp_fmp(a, t)
    R = sp_fmp(a, t)
    if not want_contract("fmp_inv_sqrt") or t != -0.5:
        return R
    L = lifted(sarr(a))
    n = L.shape[0]
    herm = all(L[i, j].key() == L[j, i].conjugate().key() for i in range(n) for j in range(n))
    Rm = np.asarray(R)
    if herm:
        H = np.empty((n, n), dtype=object)
        for i in range(n):
            for j in range(n):
                H[i, j] = Rm[i, j] if i < j else (Rm[j, i].conjugate() if i > j else Rm[i, i].real)
        Rm = H
    if _once(("fmp", L.key())):
        side_eq(Rm @ np.asarray(L) @ Rm, np.identity(n, dtype=object))
        cur().stubs.add("contract fractional_matrix_power(P, -1/2) = R: R P R = I; R Hermitian for Hermitian P (P positive definite: "
                        "the ensemble spans the space)")
    return Rm.view(SymArray)


SCIPY_LINALG_OVERRIDES["fractional_matrix_power"] = sp_fmp_contract


def ob_pgm(d, n, form, priors, bad=False):
    """form: 'vec' (d,), 'col' (d,1), 'dm' (density operators A A^dagger given by their factor); priors: 'uniform' (None) | 'sym'"""
    cfg = {"d": d, "n_states": n, "state_form": form, "priors": priors}

    def build(b):
        if form == "dm":
            st = [b.array(f"A{j}", (d, d), "c") for j in range(n)]
        else:
            st = [b.array(f"v{j}", (d,) if form == "vec" else (d, 1), "c") for j in range(n)]
        return {"st": st, "p": [b.real(f"p{j}") for j in range(n)] if priors == "sym" else None}

    def factors(i):
        return [np.asarray(x).reshape(d, -1) for x in i["st"]]

    def call(i):
        fs = factors(i)
        if form == "dm":
            states = [(f @ dagger(f)) for f in fs]
            states = [x.view(SymArray) if core._CTX else np.array(x.tolist(), dtype=complex) for x in states]
        else:
            states = list(i["st"])
        probs = i["p"]
        fn = pretty_bad_measurement if bad else pretty_good_measurement
        ops = fn(states, list(probs) if probs is not None else None)
        ps = list(probs) if probs is not None else [1 / n] * n
        P = None
        for pj, f in zip(ps, fs):
            t = pj * np.asarray(gram(f))
            P = t if P is None else P + t
        P = P.view(SymArray) if core._CTX else np.array(P.tolist(), dtype=complex)
        R = np.asarray(sp_fmp_contract(P, -1 / 2) if core._CTX else __import__("scipy").linalg.fractional_matrix_power(P, -1 / 2))
        # G_j = p_j (R A_j)(R A_j)^dagger : positive semidefinite for p_j >= 0
        G = [pj * np.asarray(gram(R @ f)) for pj, f in zip(ps, fs)]
        if bad:
            want = []
            for j in range(n):       # (I - G_j)/(n-1) = sum_{l != j} G_l / (n-1): a non-negative combination of PSD operators
                t = None
                for l in range(n):
                    if l != j:
                        t = G[l] if t is None else t + G[l]
                want.append(t * (1 / (n - 1)))       # the float constant 1/(n-1) the code multiplies with (floats modelled as reals)
        else:
            want = G
        tot = None
        for o in ops:
            tot = np.asarray(o) if tot is None else tot + np.asarray(o)
        return [[[as_arr(o) for o in ops], tot], want]

    def post(res, exp, i):
        (ops, tot), want = res
        want = maybe_neg(exp, want)
        # pretty bad: the float constant 1/(n-1) times (n-1) is 1 only up to one rounding => identity within 1e-12
        total = within(tot, 1e-12, 1e-7) if bad else eq(tot, np.identity(d))
        return And(len(ops) == n, eq(ops, list(want)), total)

    def exc_post(e, i):
        if not isinstance(e, ValueError) or i["p"] is None:
            return False
        tot = 0
        for x in i["p"]:
            tot = tot + x
        dlt = tot - 1
        if isinstance(dlt, Sym):
            return Or(dlt > 1e-8 + 1e-5, -dlt > 1e-8 + 1e-5)
        return bool(abs(dlt) > 1e-8 + 1e-5)
    def assume(i):
        return [x >= 0 for x in i["p"]] if i["p"] is not None else []

    def valid(ni):
        # the property speaks about ensembles spanning the space with priors: P = sum p_j rho_j positive definite
        ps = ni["p"] if ni["p"] is not None else [1 / n] * n
        if min(ps) < 0:
            return False
        P = sum(pj * (f @ f.conj().T) for pj, f in zip(ps, [np.asarray(x, dtype=complex).reshape(d, -1) for x in ni["st"]]))
        return bool(np.min(np.linalg.eigvalsh(P)) > 1e-6)

    def witness():
        st = [witness_matrix(d, d if form == "dm" else 1, j) for j in range(n)]
        st = [x if form != "vec" else x.reshape(-1) for x in st]
        out = [{"st": st, "p": None if priors != "sym" else [2 * (j + 1) / (n * (n + 1)) for j in range(n)]}]
        if form != "dm" and n == d and d >= 2:
            # an orthonormal basis that is not the computational one (columns of a fixed complex unitary): the average state has a
            # REPEATED eigenvalue (uniform prior: I/d; prior (1/2, 1/4, 1/4, ..): degenerate 1/4) without being a diagonal array
            rng = np.random.default_rng(90 + d)
            Q = np.linalg.qr(rng.normal(size=(d, d)) + 1j * rng.normal(size=(d, d)))[0]
            cols = [Q[:, j].reshape(-1) if form == "vec" else Q[:, [j]] for j in range(d)]
            if priors == "sym":
                pr = [0.5] + [0.5 / (d - 1)] * (d - 1)
                out.append({"st": cols, "p": pr})
            else:
                out.append({"st": cols, "p": None})
        return out
    name = ("pretty_bad_measurement.elements_are_(I-G_j)/(n-1)_as_psd_combination_and_sum_to_identity" if bad else
            "pretty_good_measurement.elements_p_j(R A_j)(R A_j)dag_and_sum_to_identity_under_RPR=I")
    return Obligation(name, cfg, build, call, marker_oracle, post=post, neg=marker_neg, exc_post=exc_post, assume=assume,
                      valid=valid, witness=witness, contracts=("fmp_inv_sqrt",), tv=True, max_paths=16, weight=d * d * n)


def ob_pgm_len_mismatch(bad):
    cfg = {"n_states": 2, "n_probs": 3}

    def build(b):
        return {"st": [b.array(f"v{j}", (2,), "c") for j in range(2)]}

    def call(i):
        (pretty_bad_measurement if bad else pretty_good_measurement)(list(i["st"]), [0.25, 0.25, 0.5])
        return [True]

    def oracle(i):
        return [False]
    return Obligation(("pretty_bad" if bad else "pretty_good") + "_measurement.rejects_length_mismatch", cfg, build, call, oracle,
                      exc_post=lambda e, i: isinstance(e, ValueError), neg_control=False, tv=False)


def ob_is_povm(d, n, kind):
    """kind: 'h' Hermitian operators, 'c' arbitrary complex"""
    cfg = {"d": d, "n_ops": n, "entries": kind}

    def build(b):
        return {"M": [b.array(f"M{j}", (d, d), kind) for j in range(n)]}

    def call(i):
        return [SymBool(bool(is_povm(list(i["M"]))))] if core._CTX else [bool(is_povm(list(i["M"])))]

    def oracle(i):
        Ms = [np.asarray(x) for x in i["M"]]
        if core._CTX:
            conj = []
            for M in Ms:
                Mv = M.view(SymArray)
                conj.append(np.allclose(Mv, dagger(M).view(SymArray), rtol=1e-5, atol=1e-8))
                conj += [lift(x) >= -1e-8 for x in np.asarray(np.linalg.eigvalsh(Mv))]
            tot = Ms[0]
            for M in Ms[1:]:
                tot = tot + M
            conj.append(np.allclose(np.identity(d), lifted(tot)))
            return [And(*conj)]
        ok = True
        for M in Ms:
            ok = ok and np.allclose(M, M.conj().T, rtol=1e-5, atol=1e-8) and bool(np.all(np.linalg.eigvalsh(M) >= -1e-8))
        return [bool(ok and np.allclose(np.identity(d), sum(Ms)))]

    def neg(e):
        return [~e[0] if isinstance(e[0], SymBool) else (not e[0])]
    return Obligation("is_povm.verdict_is_all_psd_and_sum_close_to_identity", cfg, build, call, oracle, neg=neg,
                      objzeros=("toqito.measurement_props.is_povm",), max_paths=600, tv=False)


def obligations(tier):
    T = tier == "thorough"
    obs = []
    # ---- (a) provenance: every generator function, seeded and unseeded, twice in a row -------------------------------------
    for seed in (SEED, None):
        for is_real in (False, True):
            obs.append(ob_prov("random_unitary", {"dim": 2, "is_real": is_real}, lambda s, r=is_real: random_unitary(2, r, seed=s), seed=seed))
            obs.append(ob_prov("random_density_matrix", {"dim": 2, "is_real": is_real, "metric": "haar"},
                               lambda s, r=is_real: random_density_matrix(2, r, None, "haar", seed=s), seed=seed))
            obs.append(ob_prov("random_density_matrix", {"dim": 2, "is_real": is_real, "metric": "bures"},
                               lambda s, r=is_real: random_density_matrix(2, r, None, "bures", seed=s), n_generators=2, seed=seed))
            obs.append(ob_prov("random_orthonormal_basis", {"dim": 2, "is_real": is_real}, lambda s, r=is_real: random_orthonormal_basis(2, r, seed=s), seed=seed))
            obs.append(ob_prov("random_psd_operator", {"dim": 2, "is_real": is_real}, lambda s, r=is_real: random_psd_operator(2, r, seed=s), seed=seed))
            obs.append(ob_prov("random_state_vector", {"dim": 2, "is_real": is_real, "k_param": 0}, lambda s, r=is_real: random_state_vector(2, r, 0, seed=s), seed=seed))
            obs.append(ob_prov("random_state_vector", {"dim": [2, 3], "is_real": is_real, "k_param": 1},
                               lambda s, r=is_real: random_state_vector([2, 3], r, 1, seed=s), seed=seed))
        obs.append(ob_prov("random_ginibre", {"dim_n": 2, "dim_m": 3}, lambda s: random_ginibre(2, 3, seed=s), seed=seed))
        obs.append(ob_prov("random_povm", {"dim": 2, "num_inputs": 2, "num_outputs": 2}, lambda s: random_povm(2, 2, 2, seed=s), seed=seed))
        obs.append(ob_prov("random_states", {"n": 2, "d": 2}, lambda s: random_states(2, 2, seed=s), seed=seed))
        obs.append(ob_prov("random_circulant_gram_matrix", {"dim": 3}, lambda s: random_circulant_gram_matrix(3, seed=s), seed=seed))
    # ---- random_density_matrix: every k_param in 1..dim+1 and the default -------------------------------------------------------
    for dim in range(1, (6 if T else 4) + 1):
        for is_real in (False, True):
            for k in [None] + list(range(1, dim + 2)):
                obs.append(ob_density(dim, is_real, k, "haar"))
    for dim in range(1, (4 if T else 3) + 1):
        for is_real in (False, True):
            if dim == 4 and is_real:
                continue            # 3^4 sign paths of the nested real random_unitary: covered up to dim 3
            for k in [None] + list(range(1, dim + 1)):
                if dim == 4 and k == dim:
                    continue        # same computation as the default (about a minute each)
                obs.append(ob_density(dim, is_real, k, "bures"))
            if dim < 4:
                pass  # demoted (demands the Bures construction itself, a distributional statement the property does not make): obs.append(ob_density(dim, is_real, None, "bures", definition=True))
    # ---- random_unitary / random_orthonormal_basis -------------------------------------------------------------------------------
    for dim in range(1, (4 if T else 3) + 1):
        for is_real in (False, True):
            for form in ("int", "list"):
                obs.append(ob_unitary(dim, is_real, form))
            obs.append(ob_basis(dim, is_real))
    for d0, d1 in [(2, 3), (1, 2), (2, 2)]:
        obs.append(ob_unitary_rejects_nonsquare(d0, d1))
    # ---- random_psd_operator, random_ginibre, random_circulant_gram_matrix, random_states ---------------------------------------
    for dim in range(1, (5 if T else 3) + 1):
        for is_real in (False, True):
            obs.append(ob_psd(dim, is_real))
    for dim in range(1, (8 if T else 6) + 1):
        obs.append(ob_circulant(dim))
    for n, m in [(1, 1), (2, 2), (2, 3), (3, 2)] + ([(4, 4), (6, 6), (1, 5)] if T else []):
        obs.append(ob_ginibre(n, m))
    for n, d in [(1, 1), (1, 2), (2, 2), (3, 2), (2, 3)] + ([(4, 3), (3, 4), (2, 6), (6, 2)] if T else []):
        obs.append(ob_states(n, d))
    # ---- random_state_vector: scalar and list dim, k_param over its whole range -------------------------------------------------
    for d in range(1, (6 if T else 4) + 1):
        for is_real in (False, True):
            for k in range(0, d + 1):
                if d * d * max(k, 1) > 64:
                    continue
                obs.append(ob_state_vector(d, is_real, k))
    for d0, d1 in [(2, 2), (2, 3), (3, 2)] + ([(3, 3), (2, 4), (3, 4), (4, 4)] if T else []):
        for is_real in (False, True):
            for k in range(0, min(d0, d1) + 1):
                obs.append(ob_state_vector([d0, d1], is_real, k))
    if not T:
        # unequal local dimensions with a Schmidt-rank bound >= 2 (the smallest case where the two dims can be confused)
        obs.append(ob_state_vector([3, 4], True, 2))
        obs.append(ob_state_vector([4, 3], True, 2))
    # ---- random_povm --------------------------------------------------------------------------------------------------------------
    shapes = [(1, 1, 1), (1, 1, 2), (1, 2, 2), (1, 1, 3), (2, 1, 1), (2, 1, 2), (2, 2, 2), (2, 1, 3), (3, 1, 2)]
    if T:
        shapes += [(2, 2, 3), (2, 1, 4), (3, 1, 1), (3, 2, 2), (3, 1, 3), (4, 1, 2)]
    for dim, ni, no in shapes:
        obs.append(ob_povm(dim, ni, no))
    # ---- measure ----------------------------------------------------------------------------------------------------------------------
    for d in ([2, 3] if T else [2]):
        for su in (False, True):
            obs.append(ob_measure(d, 1, "single", su))
            for r in ([1, 2, 3] if d == 2 else [2]):
                obs.append(ob_measure(d, r, "list", su))
            obs.append(ob_measure(d, 2, "tuple", su))
            obs.append(ob_measure_complete_family(d, su))
        obs.append(ob_measure(d, 2, "list", False, m=d + 1))
        pass  # demoted (the property does not demand rejection of incomplete Kraus lists): obs.append(ob_measure_incomplete_rejected(d, 2))
    if not T:
        obs.append(ob_measure(3, 2, "list", True))
        obs.append(ob_measure_complete_family(3, True))
    else:
        obs.append(ob_measure(4, 2, "list", True))
        obs.append(ob_measure(2, 4, "list", True))
    # ---- pretty good / pretty bad measurement, is_povm -------------------------------------------------------------------------
    ens = [(2, 2), (2, 3)] + ([(2, 4), (2, 5), (2, 6), (3, 3), (3, 4)] if T else [(3, 3)])
    for d, n in ens:
        for form in ("vec", "col", "dm"):
            for priors in ("uniform", "sym"):
                if form == "dm" and (n > 2 or d > 2) and not T:
                    continue
                if form == "dm" and d * n > 9:
                    continue
                if form == "col" and d == 3 and not T:
                    continue
                obs.append(ob_pgm(d, n, form, priors))
                obs.append(ob_pgm(d, n, form, priors, bad=True))
    if T:
        for priors in ("uniform", "sym"):
            obs.append(ob_pgm(3, 2, "dm", priors))       # two full-rank density operators span the space
            obs.append(ob_pgm(3, 2, "dm", priors, bad=True))
    obs.append(ob_pgm_len_mismatch(False))
    obs.append(ob_pgm_len_mismatch(True))
    for d, n in [(1, 2), (2, 1), (2, 2)] + ([(2, 3), (3, 2), (3, 3)] if T else []):
        for kind in ("h", "c"):
            if kind == "c" and d * n > 4:
                continue
            obs.append(ob_is_povm(d, n, kind))
    return obs
