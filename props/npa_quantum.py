"""T3 certificate shared by C07 and C09: an explicit quantum strategy with non-commuting measurements and a SYMBOLIC shared state is a
feasible point of the NPA program the real code builds, with objective equal to its winning probability."""
from __future__ import annotations

import itertools
import time

import numpy as np
import z3

from sdpcap.capture import capture_call, extract
from sdpcap.embed import coord_values, linear_constraints, objective_term, prove
from symnp.harness import jsonable
from props.common import Task


class NpaQuantumTask(Task):
    """soundness of the NPA relaxation with a referee system against GENUINELY QUANTUM strategies: Alice and Bob hold one qubit
    each and measure rank-one projectors with Gaussian-rational entries that do not commute between questions; the shared state
    rho on A (x) B (x) R is symbolic (64 real coordinates, Hermitian, trace one).  The moment point
        R[(r,i),(s,j)] = <r| Tr_AB( (S_i^* S_j (x) 1) rho ) |s>,   K_xy block (a,b) = Tr_AB( (A_a^x (x) B_b^y (x) 1) rho )
    (S_i = operator of the i-th word of the hierarchy; every PSD constraint of the program holds at it for rho >= 0 by the Gram
    construction) is substituted into the program captured from the real commuting_measurement_value_upper_bound(k); z3 decides
    that FOR EVERY rho every equality of the captured program holds there and the objective equals the winning probability
    sum_xyab pi(x,y) Tr( (A_a^x (x) B_b^y (x) V_abxy) rho ) computed with plain Kronecker products.  Hence the optimum is at least
    the value of each of these strategies.  If the certificate fails the real solver is run: an upper bound below the value of
    the best state for these measurements (largest eigenvalue of the game operator) is a reproduced violation."""
    engine = "E2-sdpcap (T3 certificate in z3: quantum strategy, symbolic state)"
    weight = 60
    wall_cap_s = 1500

    def __init__(self, variant, k):
        self.rd = 1 if variant.startswith("chsh") else 2
        super().__init__(("npa_referee" if self.rd == 2 else "npa") + ".quantum_strategy_with_noncommuting_measurements_is_feasible_with_its_own_value",
                         {"shape_A_B_X_Y": [2, 2, 2, 2], "referee_dim": self.rd, "local_dims": [2, 2], "game": variant, "k": k})
        self.variant, self.k = variant, k

    def _game(self, p, Vn):
        if self.rd == 1:
            from toqito.nonlocal_games.nonlocal_game import NonlocalGame
            return NonlocalGame(p, Vn)
        from toqito.nonlocal_games.extended_nonlocal_game import ExtendedNonlocalGame
        return ExtendedNonlocalGame(p, Vn)

    @staticmethod
    def _unit(u, ph=(1, 0)):
        """Gaussian-rational unit vector ((1-u^2)/(1+u^2), ph * 2u/(1+u^2)), ph = (re, im) of a unit complex number, as Fractions"""
        from fractions import Fraction as F
        u = F(u)
        c, s = (1 - u * u) / (1 + u * u), 2 * u / (1 + u * u)
        return [(c, F(0)), (F(ph[0]) * s, F(ph[1]) * s)]

    @staticmethod
    def _phase(w):
        from fractions import Fraction as F
        w = F(w)
        return ((1 - w * w) / (1 + w * w), 2 * w / (1 + w * w))

    @classmethod
    def _proj(cls, vec):
        """|v><v| as a 2x2 array of Python complex built from exact Fractions (object array of (re, im) Fraction pairs)"""
        out = np.empty((2, 2, 2), dtype=object)
        for i in range(2):
            for j in range(2):
                (a, b_), (c, d) = vec[i], vec[j]          # v_i conj(v_j)
                out[i, j, 0] = a * c + b_ * d
                out[i, j, 1] = b_ * c - a * d
        return out

    def _instance(self):
        from fractions import Fraction as F
        I = (1, 0)
        if self.rd == 1:
            # CHSH; Alice near the Z / X bases, Bob near +-pi/8 (u = tan(theta/2) rounded to a rational); the complex variant
            # rotates Alice's second and Bob's measurements into the X-Y plane (same value, complex moments)
            ua, ub = [F(0), F(5, 12)], [F(1, 5), F(-1, 5)]
            pa, pb = ([I, I], [I, I]) if self.variant == "chsh-real" else ([I, self._phase(F(1, 3))], [self._phase(F(1, 3)), self._phase(F(1, 3))])
            scalar1 = np.empty((1, 1, 2), dtype=object)
            scalar1[0, 0, 0], scalar1[0, 0, 1] = F(1), F(0)
            one = np.empty((2, 2, 2), dtype=object)
            for i in range(2):
                for j in range(2):
                    one[i, j, 0], one[i, j, 1] = F(int(i == j)), F(0)
            V = {(a, b_, x, y): (scalar1 if (a ^ b_) == (x & y) else scalar1 * F(0)) for a, b_, x, y in itertools.product(range(2), repeat=4)}
            A = {(x, 0): self._proj(self._unit(ua[x], pa[x])) for x in range(2)}
            B = {(y, 0): self._proj(self._unit(ub[y], pb[y])) for y in range(2)}
            for x in range(2):
                A[(x, 1)] = one - A[(x, 0)]
                B[(x, 1)] = one - B[(x, 0)]
            return V, A, B, one
        if self.variant == "real":
            ph_pred = lambda a, x: I
            u_pred = lambda a, x: F((-1) ** a * (1 + x), 10)
            ua, ub = [F(4, 7), F(8, 7)], [F(1, 18), F(-25, 12)]
            pa, pb = [I, I], [I, I]
        else:
            ph_pred = lambda a, x: (0, 1) if x else I
            u_pred = lambda a, x: F((-1) ** a, 4)
            ua, ub = [F(5, 9), F(-3, 10)], [F(-1, 2), F(-1, 4)]
            pa, pb = [self._phase(F(7, 6)), I], [I, self._phase(F(-3, 4))]
        one = np.empty((2, 2, 2), dtype=object)
        for i in range(2):
            for j in range(2):
                one[i, j, 0], one[i, j, 1] = F(int(i == j)), F(0)
        V = {}
        for a, b_, x, y in itertools.product(range(2), repeat=4):
            V[(a, b_, x, y)] = self._proj(self._unit(u_pred(a, x), ph_pred(a, x))) if (a ^ b_) == (x & y) else one * F(0)
        A = {(x, 0): self._proj(self._unit(ua[x], pa[x])) for x in range(2)}
        B = {(y, 0): self._proj(self._unit(ub[y], pb[y])) for y in range(2)}
        for x in range(2):
            A[(x, 1)] = one - A[(x, 0)]
            B[(x, 1)] = one - B[(x, 0)]
        return V, A, B, one

    @staticmethod
    def _c(M):
        return (M[..., 0].astype(float) + 1j * M[..., 1].astype(float))

    def _numbers(self):
        V, A, B, one = self._instance()
        p = np.full((2, 2), 0.25)
        rd = self.rd
        Vn = np.zeros((rd, rd, 2, 2, 2, 2), dtype=complex)
        for k_, M in V.items():
            Vn[(slice(None), slice(None)) + k_] = self._c(M)
        if self.variant == "real" or rd == 1:
            Vn = Vn.real.copy()
        if rd == 1:
            Vn = Vn[0, 0]
        G = np.zeros((4 * rd, 4 * rd), dtype=complex)
        for a, b_, x, y in itertools.product(range(2), repeat=4):
            G += p[x, y] * np.kron(np.kron(self._c(A[(x, a)]), self._c(B[(y, b_)])), self._c(V[(a, b_, x, y)]))
        return p, Vn, G

    def _run(self, rec, seed):
        from fractions import Fraction as F
        from toqito.helper.npa_hierarchy import _gen_words
        rd, nA, nB = self.rd, 2, 2
        p, Vn, G = self._numbers()
        V, Aop, Bop, one = self._instance()
        try:
            cap = capture_call(lambda: self._game(p, Vn).commuting_measurement_value_upper_bound(self.k))
        except Exception as e:  # noqa: BLE001
            rec["status"] = "violation"
            rec["violation"] = {"source": "the real function raises before reaching the solver", "inputs": jsonable(self.cfg),
                                "exception": f"{type(e).__name__}: {str(e)[:300]}"}
            return
        prog = extract(cap)
        rec["programs"] = 1
        Ks, Ri = {}, None
        for vi, v in enumerate(prog.vars):
            if v.name == "R":
                Ri = vi
            elif v.name.startswith(("K(a, b | ", "M(a, b | ")):
                x, y = [int(t) for t in v.name[len("K(a, b | "):-1].split(",")]
                Ks[(x, y)] = vi
        words = _gen_words(self.k, 2, 2, 2, 2)
        n = len(words)
        t0 = time.time()
        # symbolic Hermitian rho on (A (x) B) (x) R, index (m, r) -> m*rd + r
        D = nA * nB * rd
        rr = [[None] * D for _ in range(D)]
        ri = [[None] * D for _ in range(D)]
        for i in range(D):
            for j in range(i, D):
                rr[i][j] = rr[j][i] = z3.Real(f"rho_re_{i}_{j}")
                if i == j:
                    ri[i][j] = z3.RealVal(0)
                else:
                    ri[i][j] = z3.Real(f"rho_im_{i}_{j}")
                    ri[j][i] = -ri[i][j]
        dom = [z3.Sum([rr[i][i] for i in range(D)]) == 1]

        def cmul(X, Y):
            """product of 2x2x2 / 4x4x2 exact complex matrices"""
            m, k_, q = X.shape[0], X.shape[1], Y.shape[1]
            out = np.empty((m, q, 2), dtype=object)
            for i in range(m):
                for j in range(q):
                    re = sum((X[i, t, 0] * Y[t, j, 0] - X[i, t, 1] * Y[t, j, 1] for t in range(k_)), F(0))
                    im = sum((X[i, t, 0] * Y[t, j, 1] + X[i, t, 1] * Y[t, j, 0] for t in range(k_)), F(0))
                    out[i, j, 0], out[i, j, 1] = re, im
            return out

        def ckron(X, Y):
            m, q = X.shape[0], Y.shape[0]
            out = np.empty((m * q, m * q, 2), dtype=object)
            for i, j, k_, l in itertools.product(range(m), range(m), range(q), range(q)):
                out[i * q + k_, j * q + l, 0] = X[i, j, 0] * Y[k_, l, 0] - X[i, j, 1] * Y[k_, l, 1]
                out[i * q + k_, j * q + l, 1] = X[i, j, 0] * Y[k_, l, 1] + X[i, j, 1] * Y[k_, l, 0]
            return out

        def cdag(X):
            out = np.empty_like(X)
            for i in range(X.shape[0]):
                for j in range(X.shape[1]):
                    out[i, j, 0], out[i, j, 1] = X[j, i, 0], -X[j, i, 1]
            return out

        def word_op(word):
            a_, b_ = one, one
            for s_ in word:
                if s_.player == "Alice":
                    a_ = cmul(a_, Aop[(s_.question, s_.answer)])
                elif s_.player == "Bob":
                    b_ = cmul(b_, Bop[(s_.question, s_.answer)])
            return ckron(a_, b_)

        def q(fr):
            return z3.RealVal(f"{fr.numerator}/{fr.denominator}")

        def reduced(W):
            """Tr_AB((W (x) 1) rho): rd x rd matrices (re, im) of z3 terms; entry [r][s] = sum_{m,m'} W[m',m] rho[(m,r),(m',s)]"""
            re = [[None] * rd for _ in range(rd)]
            im = [[None] * rd for _ in range(rd)]
            M = W.shape[0]
            for r, s_ in itertools.product(range(rd), range(rd)):
                tr_, ti_ = [], []
                for m, m2 in itertools.product(range(M), range(M)):
                    wr, wi = W[m2, m, 0], W[m2, m, 1]
                    if wr == 0 and wi == 0:
                        continue
                    a_, b_ = rr[m * rd + r][m2 * rd + s_], ri[m * rd + r][m2 * rd + s_]
                    tr_.append(q(wr) * a_ - q(wi) * b_)
                    ti_.append(q(wr) * b_ + q(wi) * a_)
                re[r][s_] = z3.Sum(tr_) if tr_ else z3.RealVal(0)
                im[r][s_] = z3.Sum(ti_) if ti_ else z3.RealVal(0)
            return re, im
        ops = [word_op(w) for w in words]
        cv = [None] * len(prog.vars)
        Rre = [[None] * (rd * n) for _ in range(rd * n)]
        Rim = [[None] * (rd * n) for _ in range(rd * n)]
        for i, j in itertools.product(range(n), range(n)):
            re, im = reduced(cmul(cdag(ops[i]), ops[j]))
            for r, s_ in itertools.product(range(rd), range(rd)):
                Rre[r * n + i][s_ * n + j] = re[r][s_]
                Rim[r * n + i][s_ * n + j] = im[r][s_]
        cv[Ri] = coord_values(prog.vars[Ri], Rre, Rim)
        val_terms = []
        for (x, y), vi in Ks.items():
            N = 2 * rd
            kre = [[None] * N for _ in range(N)]
            kim = [[None] * N for _ in range(N)]
            for a, b_ in itertools.product(range(2), range(2)):
                re, im = reduced(ckron(Aop[(x, a)], Bop[(y, b_)]))
                for r, s_ in itertools.product(range(rd), range(rd)):
                    kre[a * rd + r][b_ * rd + s_] = re[r][s_]
                    kim[a * rd + r][b_ * rd + s_] = im[r][s_]
                # winning probability, independently: Tr((A (x) B (x) V) rho) with the full Kronecker product
                Wfull = ckron(ckron(Aop[(x, a)], Bop[(y, b_)]), V[(a, b_, x, y)])
                for i_, j_ in itertools.product(range(D), range(D)):
                    wr, wi = Wfull[i_, j_, 0], Wfull[i_, j_, 1]
                    if wr != 0 or wi != 0:          # Re( W[i,j] rho[j,i] )
                        val_terms.append(q(F(1, 4)) * (q(wr) * rr[j_][i_] - q(wi) * ri[j_][i_]))
            cv[vi] = coord_values(prog.vars[vi], kre, kim)
        val = z3.Sum(val_terms)
        conj, psd_list, _ = linear_constraints(prog, cv, include_psd_1x1=False)
        obj = objective_term(prog, cv)
        big = [1 for re, im in psd_list if re.shape != (rd, rd)]
        r_, m = prove(z3.Not(z3.And(z3.And(*conj), obj == val)), dom)
        r2, _ = prove(z3.Not(obj == val + 1), dom)
        r3, _ = prove(z3.BoolVal(True), dom)
        rec["queries"] = 3
        rec["neg_control"], rec["reachable"] = r2 == "sat", r3 == "sat"
        rec["solver_s"] = round(time.time() - t0, 3)
        rec["words"] = n
        # the measurements really do not commute (otherwise this is the classical certificate again)
        comm = cmul(Aop[(0, 0)], Aop[(1, 0)]) - cmul(Aop[(1, 0)], Aop[(0, 0)])
        noncomm = any(comm[i, j, t] != 0 for i in range(2) for j in range(2) for t in range(2))
        if r_ == "unsat" and r2 == "sat" and r3 == "sat" and len(big) == 1 and noncomm:
            rec["status"] = "discharged"
            return
        rec["notes"].append(f"solver {r_}; large PSD constraints {len(big)}; non-commuting {noncomm}")
        if r_ == "sat" and self._replay_value(rec):
            rec["status"] = "violation"

    def _replay_value(self, rec):
        p, Vn, G = self._numbers()
        achieved = float(np.linalg.eigvalsh((G + G.conj().T) / 2)[-1])
        try:
            ub = float(self._game(p, Vn).commuting_measurement_value_upper_bound(self.k))
        except Exception as e:  # noqa: BLE001
            rec["violation"] = {"source": "the real function raises (reproduced)", "inputs": jsonable(self.cfg),
                                "exception": f"{type(e).__name__}: {str(e)[:300]}"}
            return True
        rec["disagreements_checked"] = 1
        if ub < achieved - 1e-4:
            rec["violation"] = {"source": "the returned NPA upper bound is below the value achieved by an explicit quantum strategy "
                                          "(Gaussian-rational projective measurements, best shared state); reproduced with the real solver",
                                "inputs": jsonable(self.cfg), "actual": ub, "expected": f">= {achieved:.6f}"}
            return True
        rec["notes"].append(f"the program does not admit the quantum moment point, but the returned bound {ub:.6f} is not below the achieved value {achieved:.6f}")
        return False

    def replay(self, rp):
        rec = {"notes": []}
        bad = self._replay_value(rec)
        print(rec.get("violation", rec["notes"]))
        return not bad


