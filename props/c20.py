"""C20 Channel distance measures equal their definitions and known closed forms."""
from __future__ import annotations

import numpy as np

from sdpcap.affine import snap
from sdpcap.capture import SymProgram, specnorm
from sdpcap.task import SdpTask
from symnp.array import SymArray
from symnp.core import SymBool, lift
from symnp.harness import Obligation, eq, jsonable
from props.c02 import oracle_ptrace
from props.c10 import tr
from props.common import Task, dagger
from toqito.channel_metrics import channel_fidelity, completely_bounded_spectral_norm, completely_bounded_trace_norm, diamond_distance
from toqito.channel_metrics import fidelity_of_separability as channel_fidelity_of_separability

META = {
    "id": "C20",
    "level": "translation_validation",
    "files": ["toqito/channel_metrics/completely_bounded_trace_norm.py", "toqito/channel_metrics/diamond_distance.py",
              "toqito/channel_metrics/completely_bounded_spectral_norm.py", "toqito/channel_metrics/channel_fidelity.py",
              "toqito/channel_metrics/fidelity_of_separability.py",
              "toqito/channels/partial_trace.py", "toqito/channel_ops/dual_channel.py", "toqito/matrix_props/trace_norm.py"],
    "functions": ["toqito.channel_metrics.completely_bounded_trace_norm", "toqito.channel_metrics.diamond_distance",
                  "toqito.channel_metrics.completely_bounded_spectral_norm", "toqito.channel_metrics.channel_fidelity",
                  "toqito.channel_metrics.fidelity_of_separability"],
    "explanation": "E2: for each instance of a stated family of Choi matrices the program handed to the conic solver is captured and proved by z3 equal, for all "
                   "decision-variable values, to the definition's program: Watrous' SDP for the cb trace norm (Y0, Y1 >= 0, [[Y0,-J],[-J^dagger,Y1]] >= 0, objective "
                   "(||Tr_out Y0|| + ||Tr_out Y1||), halved on return; spectral norm = uninterpreted function of the proved partial traces); the channel-fidelity SDP "
                   "(max lambda, [[J1,Q^dagger],[Q,J2]] >= 0, Hermitian part of Tr_out Q >= lambda I in the Loewner order) for local dimension 2..5; diamond distance = "
                   "program of J1-J2; cb spectral norm = program of the dual map (oracle's own swap/conjugate). E1: branch structure of completely_bounded_trace_norm "
                   "on a symbolic Hermitian Choi matrix (channel => 1; CP => operator norm of Phi*(I); otherwise SDP). Channel fidelity of separability: "
                   "for pure tripartite product states with unequal dimensions (B, A, R) the captured picos program admits the constant channel "
                   "I_R (x) |a><a|^(x)k: every equality holds, each PSD-constrained operator at that point is an explicit Gram form, and the objective there "
                   "gives the returned value 2*obj - 1 = 1 (T3 certificate in z3; k = 1, 2; also on a second call with the same dimension list).",
    "bounds": {"quick": "cb trace norm: 3 Hermiticity-preserving and 1 general qubit maps (dyadic); channel fidelity: local dim 2, 3 (two instance pairs each) and 5 (one pair); "
                        "branch structure: qubit maps (4x4 symbolic Hermitian Choi matrix)",
               "thorough": "adds qutrit cb-trace-norm instances and channel fidelity for local dim 4, 6"},
    "trusted_base": ["picos / cvxpy evaluate their own affine expressions correctly (extraction)", "the SDP characterisations of the cb trace norm (Watrous) and of the channel "
                     "fidelity (Katariya-Wilde) are the definitions", "conic solvers (replay only)", "LAPACK norms as uninterpreted kernels", "z3 5.1.0"],
    "outside_claim": ["every numeric relation between optima (<= 2, Choi-norm bounds, closed form for unitary pairs, unitary invariance, symmetry of the value)",
                      "channel fidelity of separability: the upper half (objective <= 1 on the feasible set) and states that are not products",
                      "instance data is concrete: the claim is per instance, for all decision-variable values"],
    "assumptions": ["instance entries are dyadic so that extraction is exact"],
}


def choi_of(ks_left, ks_right=None):
    ks_right = ks_right or ks_left
    J = None
    for a, b in zip(ks_left, ks_right):
        va = np.asarray(a).reshape(-1, 1, order="C")     # row-major vec matches sum_ij E_ij (x) A E_ij B^dagger
        vb = np.asarray(b).reshape(-1, 1, order="C")
        # J = sum_ij E_ij (x) A E_ij B^dagger = vec_r(A^T) ... computed explicitly instead:
        d_out, d_in = np.asarray(a).shape
        Jt = np.zeros((d_in * d_out, d_in * d_out), dtype=complex)
        for i in range(d_in):
            for j in range(d_in):
                E = np.zeros((d_in, d_in)); E[i, j] = 1
                Jt += np.kron(E, np.asarray(a) @ E @ np.asarray(b).conj().T)
        J = Jt if J is None else J + Jt
    return J


def cb_instances(tier):
    I2 = np.eye(2)
    X = np.array([[0, 1], [1, 0.0]])
    Z = np.diag([1.0, -1.0])
    fam = []
    # Hermiticity preserving, not CP: difference of two CP maps
    fam.append(("id - (X conj)", choi_of([I2]) - choi_of([X])))
    fam.append(("transpose map", np.array([[1, 0, 0, 0], [0, 0, 1, 0], [0, 1, 0, 0], [0, 0, 0, 1.0]])))
    fam.append(("complex HP map", choi_of([np.array([[1, 0.5j], [0, 0.5]])]) - 0.5 * choi_of([np.array([[0, 1], [1j, 0]])])))
    fam.append(("general (non-Hermitian Choi) map", choi_of([np.array([[1, 0.5], [0, 1j]])], [np.array([[0.5, 0], [1, 1]])])))
    # Hermitian and TRACELESS Choi matrix whose output partial trace does not vanish: a non-unital CP map minus its dual
    JA = choi_of([np.array([[1, 0], [0, 0.5]]), np.array([[0, 0.5j], [0, 0]])])
    fam.append(("non-unital CP map minus its dual (traceless, Tr_out J != 0)", JA - dual_of(JA, 2)))
    # maps whose cb trace norm DIFFERS from that of their dual (every map above is of the form A X B^dagger or (anti)symmetric under
    # the dual, where the two coincide - tracing out the wrong tensor factor went unnoticed on them): dephasing minus reset-to-|0>
    # has diamond norm 2 and its dual 1; a generic two-term map with different left and right operators
    e2 = np.eye(2)
    reset = [np.outer(e2[0], e2[0]), np.outer(e2[0], e2[1])]
    deph = [np.diag([1.0, 0.0]), np.diag([0.0, 1.0])]
    fam.append(("dephasing minus reset-to-|0> (cb trace norm 2, dual 1)", choi_of(deph) - choi_of(reset)))
    fam.append(("two-term general map, norm differs from the dual's",
                choi_of([np.array([[1, 0.5], [0, 1j]]), np.array([[0, 0], [1, 0.5]])], [np.array([[0.5, 0], [1, 1]]), np.array([[1, 1j], [0, 0]])])))
    if tier == "thorough":
        S = np.roll(np.eye(3), 1, axis=0)
        fam.append(("qutrit id - shift", choi_of([np.eye(3)]) - choi_of([S])))
        import os
        rng = np.random.default_rng(2000 + int(os.environ.get("VERIF_SEED", "0") or 0))

        def dy(d):
            return (rng.integers(-2, 3, size=(d, d)) + 1j * rng.integers(-2, 3, size=(d, d))) / 2.0
        for t in range(12):
            if t % 3 == 0:      # difference of two CP maps (Hermiticity preserving, generically not CP)
                J = choi_of([dy(2)]) - choi_of([dy(2), dy(2)])
                nm = f"seeded difference of CP qubit maps #{t}"
            elif t % 3 == 1:    # general map with different left and right operators (non-Hermitian Choi matrix)
                J = choi_of([dy(2), dy(2)], [dy(2), dy(2)])
                nm = f"seeded general qubit map #{t}"
            else:               # real Choi matrix stored as float64
                a, b = np.real(dy(2)), np.real(dy(2))
                J = np.real(choi_of([a]) - choi_of([b])).astype(float)
                nm = f"seeded real HP qubit map stored as float64 #{t}"
            if np.any(J):
                fam.append((nm, J))
    return fam


def cbtn_value(J):
    """independent value of Watrous' program for replay: lambda_max(Tr_out Y0) + lambda_max(Tr_out Y1) (twice the cb trace norm),
    written with the harness' own partial trace; used when the captured program cannot be matched structurally"""
    import cvxpy
    J = np.asarray(J, dtype=complex)
    n = J.shape[0]
    d = int(round(np.sqrt(n)))
    y0, y1 = cvxpy.Variable((n, n), hermitian=True), cvxpy.Variable((n, n), hermitian=True)

    def tr_out(y):
        return cvxpy.bmat([[sum(y[a * d + b, c * d + b] for b in range(d)) for c in range(d)] for a in range(d)])
    prob = cvxpy.Problem(cvxpy.Minimize(cvxpy.lambda_max(tr_out(y0)) + cvxpy.lambda_max(tr_out(y1))),
                         [cvxpy.bmat([[y0, -J], [-J.conj().T, y1]]) >> 0])
    return float(prob.solve())


def ref_cbtn(V, J):
    n = J.shape[0]
    d = int(round(np.sqrt(n)))
    Js = snap(J)
    y0, y1 = V.herm("y0"), V.herm("y1")
    blk = np.empty((2 * n, 2 * n), dtype=object)
    blk[:n, :n] = y0
    blk[:n, n:] = -Js
    blk[n:, :n] = -dagger(Js)
    blk[n:, n:] = y1
    cons = [("psd", y0), ("psd", y1), ("psd", blk)]
    t0 = oracle_ptrace(y0, [d, d], [1])
    t1 = oracle_ptrace(y1, [d, d], [1])
    obj = specnorm(t0) + specnorm(t1)
    return SymProgram("min", np.array([[obj]], dtype=object), cons)


def dual_of(J, d):
    """oracle's own dual map in Choi form: entrywise conjugate, tensor factors exchanged"""
    n = d * d
    out = np.zeros((n, n), dtype=complex)
    for a in range(d):
        for b in range(d):
            for c in range(d):
                for e in range(d):
                    out[b * d + a, e * d + c] = np.conj(J[a * d + b, c * d + e])
    return out


def fid_instances(tier):
    def ks(d, seed):
        rng = np.random.default_rng(seed)
        return [rng.integers(-2, 3, size=(d, d)) / 2 + 1j * rng.integers(-2, 3, size=(d, d)) / 4 for _ in range(2)]
    fam = []
    for d in [2, 3, 5] + ([4, 6] if tier == "thorough" else []):
        n_pairs = 2 if d <= 3 else 1
        for s in range(n_pairs):
            fam.append((f"local dim {d}, pair {s}", choi_of(ks(d, 10 * d + s)), choi_of(ks(d, 10 * d + s + 5)), d))
    if tier == "thorough":
        for s in range(8):
            d = 2 + s % 2
            fam.append((f"seeded pair #{s}, local dim {d}", choi_of(ks(d, 400 + s)), choi_of(ks(d, 500 + s)), d))
    # mixed storage: one Choi matrix held in a REAL (float64) array, the other complex - both orders
    for d in [2, 3]:
        rng = np.random.default_rng(77 + d)
        real_ks = [rng.integers(-2, 3, size=(d, d)) / 2 for _ in range(2)]
        Jr = np.real(choi_of(real_ks)).astype(float)
        Jc = choi_of(ks(d, 31 * d))
        fam.append((f"local dim {d}, first Choi matrix stored as a float array, second complex", Jr, Jc, d))
        fam.append((f"local dim {d}, first Choi matrix complex, second stored as a float array", Jc, Jr, d))
    return fam


def ref_fid(V, inst):
    J1, J2, d = inst
    n = d * d
    lam = np.asarray(V[0]).reshape(-1)[0]
    Q = np.asarray(V.cplx(1))        # the definition's Q ranges over all complex matrices
    blk = np.empty((2 * n, 2 * n), dtype=object)
    blk[:n, :n] = snap(J1)
    blk[:n, n:] = dagger(Q)
    blk[n:, :n] = Q
    blk[n:, n:] = snap(J2)
    T = oracle_ptrace(Q, [d, d], [1])
    H = (T + dagger(T)) * lift(1) / 2
    cons = [("psd", blk), ("psd", H - lam * np.identity(d)), ("ge0", np.array([[lam]], dtype=object))]
    return SymProgram("max", np.array([[lam]], dtype=object), cons)


def _dual_at_identity(J):
    """Phi*(I) for a qubit map with Choi matrix J = sum E_pq (x) Phi(E_pq): entry (q,p) = conj-free trace pairing <I, Phi(E_pq)>^*"""
    J = np.asarray(J)
    T = np.empty((2, 2), dtype=object)
    for p in range(2):
        for q in range(2):
            T[p, q] = (J[p * 2 + 0, q * 2 + 0] + J[p * 2 + 1, q * 2 + 1]).conjugate()
    return T


def ob_branch(case):
    """branch structure on a symbolic Hermitian qubit Choi matrix whose eigenvalue symbols are assumed >= 0 (CP):
    'channel'  : Tr_out J = I exactly      => the function returns 1
    'cp_not_tp': Tr_out J misses I by margin => the function returns the OPERATOR norm of Phi*(I)"""
    cfg = {"choi": "symbolic Hermitian 4x4, eigenvalues >= 0", "case": case}

    def build(b):
        return {"J": b.array("J", (4, 4), "h")}

    def call(i):
        from sdpcap.capture import Captured, capture
        try:
            with capture():
                return ["value", completely_bounded_trace_norm(i["J"])]
        except Captured:
            return ["sdp", 0]

    def oracle(i):
        return None

    def tp_res(J):
        J = np.asarray(J)
        return np.array([[J[p * 2, q * 2] + J[p * 2 + 1, q * 2 + 1] - (1 if p == q else 0) for q in range(2)] for p in range(2)], dtype=object)

    def assume(i):
        from symnp.core import Or
        w = np.linalg.eigvalsh(i["J"])
        pre = [x >= 0 for x in w]
        R = tp_res(i["J"])
        if case == "channel":
            return pre + [eq(R, np.zeros((2, 2)))]
        ds = []
        for v in R.flat:
            v = lift(v)
            ds += [v.real > 1e-3, v.real < -1e-3] + ([v.imag > 1e-3, v.imag < -1e-3] if v.im.t else [])
        bnd = [c for v in np.asarray(i["J"]).flat for c in (lift(v).real <= 10, lift(v).real >= -10, lift(v).imag <= 10, lift(v).imag >= -10)]
        return pre + bnd + [Or(*ds)]

    def valid(ni):
        J = ni["J"]
        if np.min(np.linalg.eigvalsh(J)) < -1e-12:
            return False
        R = np.array(tp_res(J), dtype=complex)
        return bool(np.allclose(R, 0, atol=1e-12)) if case == "channel" else bool(np.max(np.abs(R)) > 2e-3)

    def post(res, exp, i):
        kind, val = res
        if kind == "sdp":
            return False     # a CP map never needs the SDP
        if case == "channel":
            return lift(val).eq_solver(1) if not isinstance(val, (int, float, np.floating)) else abs(val - 1) < 1e-7
        T = _dual_at_identity(i["J"])
        if isinstance(val, (int, float, np.floating)):
            return abs(val - np.linalg.norm(np.array(T, dtype=complex), 2)) < 1e-6
        return lift(val).eq_solver(np.linalg.norm(T.view(SymArray), 2))

    def witness():
        if case == "channel":
            return [{"J": np.eye(4, dtype=complex) / 2}]
        return [{"J": 2.0 * np.array([[1, 0, 0, 1], [0, 0, 0, 0], [0, 0, 0, 0], [1, 0, 0, 1]], dtype=complex)},
                {"J": np.eye(4, dtype=complex)}]
    return Obligation("completely_bounded_trace_norm.shortcut_branches", cfg, build, call, oracle, post=post, assume=assume, valid=valid,
                      neg_control=False, tv=False, max_paths=200, witness=witness)


class FosProductTask(Task):
    """channel fidelity of separability of a pure tripartite PRODUCT state |b>|a>|r> (systems B, A, R, unequal dimensions): the
    program the real function hands to the solver is captured; z3 decides that the constant channel R -> A' preparing |a><a|
    (Choi operator I_R (x) |a><a|^{(x)k}) satisfies every equality of the captured program, that each PSD-constrained operator at
    that point is one of the explicit Gram forms I (x) (|a><a| or its transpose)^{(x)k}, and that the objective there is exactly
    (1 + 1)/2, i.e. the returned value 2*obj - 1 attains 1.  (The matching upper bound - objective <= 1 on the feasible set - is a
    statement about PSD operators and is outside what the uninterpreted PSD predicate can show; the real solver's value is used
    on replay only.)"""
    engine = "E2-sdpcap (T3 certificate in z3)"
    weight = 40

    def __init__(self, dims, k=1, earlier_calls=0):
        cfg = {"dims_B_A_R": list(dims), "k": k}
        if earlier_calls:
            cfg["earlier_calls_with_the_same_dims_list"] = earlier_calls
        super().__init__("channel_fidelity_of_separability.product_state_program_admits_the_constant_channel_with_value_one", cfg)
        self.dims, self.k, self.earlier = tuple(dims), k, earlier_calls

    def _instance(self):
        unit = {2: np.array([3, 4j]) / 5, 3: np.array([2, -2j, 1]) / 3, 4: np.array([1, 1j, -1, 1]) / 2}
        dB, dA, dR = self.dims
        b, a, r = unit[dB], unit[dA].conj(), unit[dR] * (1j if dR == 2 else 1)
        proj = lambda v: np.outer(v, v.conj())   # noqa: E731
        return np.kron(np.kron(proj(b), proj(a)), proj(r)), a

    def _call(self, psi, dl):
        return channel_fidelity_of_separability(psi, dl, self.k)

    def _run(self, rec, seed):
        import itertools
        import z3
        from sdpcap.capture import capture_call, extract
        from sdpcap.embed import coord_values, linear_constraints, objective_term, prove, rv
        dB, dA, dR = self.dims
        psi, a = self._instance()
        dl = list(self.dims)
        for _ in range(self.earlier):
            self._call(psi, dl)            # solved for real; the same list object is passed again below
        cap = capture_call(lambda: self._call(psi, dl))
        if cap is None:
            rec["notes"].append("no Problem.solve was reached: zero coverage")
            return
        prog = extract(cap)
        rec["programs"] = 1
        rec["program"] = prog.summary()
        n = dR * dA ** self.k
        if len(prog.vars) != 1 or tuple(prog.vars[0].shape) != (n, n):
            rec["status"] = "violation" if self._replay_value(rec, psi) else rec["status"]
            rec["notes"].append(f"captured variable {[(v.name, v.shape) for v in prog.vars]} is not the {n}x{n} Choi operator of a channel R -> A^k")
            return
        aa = np.outer(a, a.conj())

        def point(transposed):
            M = np.eye(dR)
            for c in range(self.k):
                M = np.kron(M, aa.T if c in transposed else aa)
            return M
        S0 = point(())
        cv = [coord_values(prog.vars[0], [[rv(x) for x in row] for row in S0.real], [[rv(x) for x in row] for row in S0.imag])]
        conj, psd_list, _ = linear_constraints(prog, cv)
        obj = objective_term(prog, cv)
        gram_ok = []
        for re, im in psd_list:
            alts = []
            for sz in range(self.k + 1):
                for T in itertools.combinations(range(self.k), sz):
                    G = point(T)
                    if G.shape != re.shape:
                        continue
                    alts.append(z3.And(*[z3.And(re[i, j] == rv(G[i, j].real), im[i, j] == rv(G[i, j].imag)) for i in range(n) for j in range(n)]))
            gram_ok.append(z3.Or(*alts) if alts else z3.BoolVal(False))
        goal = z3.And(*conj, *gram_ok, obj == 1)
        r, _ = prove(z3.Not(goal))
        r2, _ = prove(z3.Not(z3.And(*conj, *gram_ok, obj == rv(0.5))))      # negative control: a wrong objective value must be refuted
        r3, _ = prove(z3.BoolVal(True), conj)                                  # reachability: the equalities are satisfiable at the point
        rec["queries"], rec["neg_control"], rec["reachable"] = 3, r2 == "sat", r3 == "sat"
        if r == "unsat" and r2 == "sat" and r3 == "sat":
            rec["status"] = "discharged"
            return
        rec["notes"].append(f"certificate query: {r}")
        if r == "sat" and self._replay_value(rec, psi):
            rec["status"] = "violation"

    def _replay_value(self, rec, psi):
        """the real function with the real solver: the value on a product state must be 1"""
        dl = list(self.dims)
        try:
            for _ in range(self.earlier):
                self._call(psi, dl)
            got = float(np.real(self._call(psi, dl)))
        except Exception as e:  # noqa: BLE001
            rec["violation"] = {"source": "the real function raises on a pure tripartite product state (reproduced)", "inputs": jsonable(self.cfg),
                                "exception": f"{type(e).__name__}: {str(e)[:300]}"}
            return True
        if abs(got - 1) > 1e-4:
            rec["violation"] = {"source": "certificate mismatch reproduced numerically with the real solver", "inputs": jsonable(self.cfg),
                                "actual": got, "expected": 1.0}
            return True
        rec["notes"].append(f"the program does not admit the constant-channel certificate but the real value is {got:.6f}")
        return False

    def replay(self, rp):
        rec = {"notes": []}
        bad = self._replay_value(rec, self._instance()[0])
        print(rec.get("violation", rec["notes"]))
        return not bad


def obligations(tier):
    obs = []
    for dims in [(2, 2, 3), (3, 2, 2), (2, 3, 2)] + ([(2, 2, 4), (4, 2, 2), (3, 3, 2)] if tier == "thorough" else []):
        obs.append(FosProductTask(dims, 1))
    obs.append(FosProductTask((3, 2, 2), 1, earlier_calls=1))
    obs.append(FosProductTask((2, 2, 3), 2))
    for name, J in cb_instances(tier):
        d = int(round(np.sqrt(J.shape[0])))
        obs.append(SdpTask("completely_bounded_trace_norm.program_is_watrous_sdp", {"map": name}, (lambda J=J: completely_bounded_trace_norm(J)),
                           (lambda V, inst: ref_cbtn(V, inst)), instance=J, value_of=lambda r: 2 * float(r), replay_oracle=cbtn_value, tol=2e-3))
        obs.append(SdpTask("completely_bounded_spectral_norm.is_cb_trace_norm_of_dual", {"map": name}, (lambda J=J: completely_bounded_spectral_norm(J)),
                           (lambda V, inst, d=d: ref_cbtn(V, dual_of(inst, d))), instance=J, value_of=lambda r: 2 * float(r),
                           replay_oracle=(lambda inst, d=d: cbtn_value(dual_of(inst, d))), tol=2e-3))
    fam = cb_instances(tier)
    for (n1, J1), (n2, J2) in [(fam[0], fam[1]), (fam[2], fam[0])]:
        obs.append(SdpTask("diamond_distance.is_cb_trace_norm_of_difference", {"maps": [n1, n2]}, (lambda J1=J1, J2=J2: diamond_distance(J1 + np.eye(4), J2)),
                           (lambda V, inst: ref_cbtn(V, inst)), instance=(J1 + np.eye(4)) - J2, value_of=lambda r: 2 * float(r),
                           replay_oracle=cbtn_value, tol=2e-3))
    # pairs of unitary channels in dimension 3 (closed form 2 sqrt(1 - delta^2), delta = distance from 0 to the convex hull of spec(U^* V))
    U3 = [("identity", np.eye(3)), ("diag(1, i, -1)", np.diag([1, 1j, -1])), ("cyclic shift", np.roll(np.eye(3), 1, axis=0)),
          ("diag(1, i, i)", np.diag([1, 1j, 1j]))]
    for (n1, Ua), (n2, Ub) in [(U3[0], U3[1]), (U3[2], U3[3]), (U3[0], U3[3])]:
        Jd = choi_of([Ua.astype(complex)]) - choi_of([Ub.astype(complex)])
        obs.append(SdpTask("diamond_distance.is_cb_trace_norm_of_difference", {"maps": [f"qutrit unitary channel {n1}", f"qutrit unitary channel {n2}"]},
                           (lambda Ua=Ua, Ub=Ub: diamond_distance(choi_of([Ua.astype(complex)]), choi_of([Ub.astype(complex)]))),
                           (lambda V, inst: ref_cbtn(V, inst)), instance=Jd, value_of=lambda r: 2 * float(r), replay_oracle=cbtn_value, tol=2e-3))
    for name, J1, J2, d in fid_instances(tier):
        t = SdpTask("channel_fidelity.program_is_definition", {"pair": name}, (lambda J1=J1, J2=J2: channel_fidelity(J1, J2)),
                    ref_fid, instance=(J1, J2, d), value_of=lambda r: float(r), tol=5e-4)
        t.weight = d * d
        obs.append(t)
    obs.append(ob_branch("channel"))
    obs.append(ob_branch("cp_not_tp"))
    return obs
