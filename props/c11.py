"""C11 State exclusion values are certified optima and decide antidistinguishability."""
from __future__ import annotations

import numpy as np

from sdpcap.affine import snap
from sdpcap.capture import SymProgram
from sdpcap.task import SdpTask
from symnp.core import SymBool, lift
from symnp.harness import Obligation, eq
from props.c10 import tr
from toqito.state_opt import state_exclusion
from toqito.state_props import common_quantum_overlap, is_antidistinguishable
from toqito.states import pusey_barrett_rudolph, trine

META = {
    "id": "C11",
    "level": "translation_validation",
    "files": ["toqito/state_opt/state_exclusion.py", "toqito/state_props/is_antidistinguishable.py",
              "toqito/state_props/common_quantum_overlap.py", "toqito/states/pusey_barrett_rudolph.py", "toqito/states/trine.py",
              "toqito/matrix_ops/to_density_matrix.py"],
    "functions": ["toqito.state_opt.state_exclusion (_min_error_primal/_dual, _unambiguous_primal/_dual)",
                  "toqito.state_props.is_antidistinguishable", "toqito.state_props.common_quantum_overlap", "toqito.states.trine",
                  "toqito.states.pusey_barrett_rudolph"],
    "explanation": "E2: per instance of a stated family the picos program built by the real state_exclusion is captured at Problem.solve, "
                   "extracted as exact affine maps and proved by z3 equal to the textbook program (min-error primal min sum p_i Tr(rho_i M_i) over "
                   "POVMs, dual max Tr Y s.t. Y <= p_i rho_i; unambiguous pair likewise) for all decision-variable values; an exception before the "
                   "solver is reached, or a mismatch, is replayed on the real function. E1: is_antidistinguishable / common_quantum_overlap with "
                   "the solve stubbed by a symbolic optimum (verdict = isclose(value,0), overlap = value, prior = all ones); trine() and "
                   "pusey_barrett_rudolph() entries equal their closed forms (sqrt 3 exact; cos/sin as uninterpreted symbols).",
    "bounds": {"quick": "2..4 states, d in {2,3}, small-denominator rational real and complex amplitudes (dyadic and decimal), vectors and density matrices, "
                        "uniform and non-uniform priors; min-error primal/dual, unambiguous primal/dual; PBR n in {1,2}",
               "thorough": "adds 5 states, d=4, PBR n=3"},
    "trusted_base": ["picos evaluates its own affine expressions correctly (extraction, cross-checked at a random point)",
                     "textbook strong duality of the exclusion SDPs", "conic solvers (replay only)", "z3 5.1.0"],
    "outside_claim": ["which ensembles have value 0 (trine, BB84, PBR at the known angle): numerical optimum of the solver",
                      "POVM read-back from dual variables; unitary invariance (consequences of the definition); value <= smallest prior is decided on the captured primal program through the family of guessing strategies M_i = q_i 1 (T5, sdpcap/order.py)",
                      "solver failures (cvxopt ZeroDivisionError on degenerate instances)",
                      "instance data is concrete: the claim is per instance of the family, for all decision-variable values"],
    "assumptions": ["instance amplitudes are rationals with small denominators so that extraction is exact"],
}


def rho_exact(v):
    v = np.asarray(v)
    if v.ndim == 2 and v.shape[0] == v.shape[1] and v.shape[0] > 1:
        return snap(v)
    w = snap(v.reshape(-1))
    d = len(w)
    R = np.empty((d, d), dtype=object)
    for a in range(d):
        for c in range(d):
            R[a, c] = w[a] * w[c].conjugate()
    return R


def pfrac(p):
    return snap(np.array([p]))[0]



from props.c10 import random_dyadic_ensembles      # noqa: E402  (same seeded family, different seed)


def instances(tier):
    T = tier == "thorough"
    fam = []
    fam.append(("3 real qubit kets (dyadic), uniform", [np.array([1.0, 0.0]), np.array([0.5, 0.5]), np.array([0.5, -0.25])], None))
    fam.append(("2 complex qubit kets (decimal), prior (3/10,7/10)", [np.array([0.1 + 0.7j, 0.3 - 0.2j]), np.array([0.3, 0.4j])], [0.3, 0.7]))
    fam.append(("3 complex qutrit column kets, prior (1/4,1/4,1/2)", [np.array([[1], [0.5j], [0]]), np.array([[0.5], [0.5], [0.5j]]), np.array([[0], [1], [-0.25 + 0.5j]])], [0.25, 0.25, 0.5]))
    fam.append(("2 complex density matrices, prior (3/4,1/4)", [np.array([[0.75, 0.25j], [-0.25j, 0.25]]), np.array([[0.5, 0.125 - 0.25j], [0.125 + 0.25j, 0.5]])], [0.75, 0.25]))
    # mixed storage: the FIRST state is held in a real (float / integer) array, later ones are genuinely complex
    fam.append(("3 qubit kets, first stored as a float array, the others complex, prior (1/4,1/2,1/4)",
                [np.array([1.0, 0.5]), np.array([0.5, 0.5j]), np.array([0.25 + 0.5j, 1.0])], [0.25, 0.5, 0.25]))
    fam.append(("2 qubit density matrices, first stored as an integer array, second complex, prior (1/4,3/4)",
                [np.array([[1, 0], [0, 0]]), np.array([[0.5, -0.5j], [0.5j, 0.5]])], [0.25, 0.75]))
    # a prior with an entry exactly 0 (the state is never prepared, but excluding it is still required to be free)
    fam.append(("3 complex qubit kets, prior (1/2,1/2,0)", [np.array([1, 0j]), np.array([0.5, 0.5]), np.array([0.5, 0.5j])], [0.5, 0.5, 0.0]))
    fam.append(("4 complex qubit kets, uniform", [np.array([1, 0j]), np.array([0, 1j]), np.array([0.5, 0.5j]), np.array([0.5, -0.5])], None))
    # fewer dimensions spanned than states and than the space has, a state in the span of its predecessors listed BEFORE one outside
    # it, no coordinate axis singled out (round-6 seed: the program restricted to the span through an unpivoted QR factorisation)
    fam.append(("4 complex d=4 kets spanning 3 dimensions, the third in the span of the first two, prior (1/4,1/4,1/4,1/4)",
                [np.array([1, 0.5, 0, 0.5j]), np.array([0.5, 1, 0.5, 0]), np.array([1.5, 1.5, 0.5, 0.5j]), np.array([0.25 + 0.5j, 0.5j, 1, -0.5 + 0.25j])], None))
    if T:
        fam.append(("5 complex qubit kets", [np.array([1, 0j]), np.array([0, 1j]), np.array([0.5, 0.5j]), np.array([0.5, -0.5]), np.array([0.25, 0.75j])], [0.125, 0.125, 0.25, 0.25, 0.25]))
        fam.append(("3 complex d=4 kets", [np.array([1, 0, 0.5j, 0]), np.array([0.5, 0.5, 0, 0.5j]), np.array([0, 0.25, 0.25j, 1])], [0.5, 0.25, 0.25]))
        fam += random_dyadic_ensembles(60, 11)
    return fam


def min_error_exclusion_oracle(inst):
    """independent optimum for replay: min sum_i p_i Tr(rho_i M_i) over POVMs, written from the definition with cvxpy (used when the
    captured program cannot even be compared structurally, e.g. it lives in a space of another dimension)"""
    import cvxpy
    vs, ps = inst
    rhos = [np.array([[complex(float(lift(x).re.t.get((), 0)), float(lift(x).im.t.get((), 0))) for x in row] for row in rho_exact(v)]) for v in vs]
    d = rhos[0].shape[0]
    Ms = [cvxpy.Variable((d, d), hermitian=True) for _ in vs]
    prob = cvxpy.Problem(cvxpy.Minimize(cvxpy.real(sum(float(p) * cvxpy.trace(r @ M) for p, r, M in zip(ps, rhos, Ms)))), [M >> 0 for M in Ms] + [sum(Ms) == np.eye(d)])
    return float(prob.solve())


def ref_me_primal(V, inst):
    vs, ps = inst
    n = len(vs)
    d = rho_exact(vs[0]).shape[0]
    Ms = [V.herm(f"M[{i}]") for i in range(n)]
    cons = [("psd", M) for M in Ms]
    tot = Ms[0]
    for M in Ms[1:]:
        tot = tot + M
    cons.append(("eq", tot - np.identity(d)))
    obj = 0
    for i in range(n):
        obj = obj + pfrac(ps[i]) * tr(rho_exact(vs[i]) @ Ms[i])
    return SymProgram("min", np.array([[lift(obj).real]], dtype=object), cons)


def ref_me_dual(V, inst):
    vs, ps = inst
    Y = V.herm("Y")
    cons = [("psd", pfrac(ps[i]) * rho_exact(vs[i]) - Y) for i in range(len(vs))]
    return SymProgram("max", np.array([[tr(Y)]], dtype=object), cons)


def ref_un_primal(V, inst):
    vs, ps = inst
    n = len(vs)
    d = rho_exact(vs[0]).shape[0]
    Ms = [V.herm(f"M[{i}]") for i in range(n)]
    tot = Ms[0]
    for M in Ms[1:]:
        tot = tot + M
    inc = np.identity(d) - tot
    cons = [("psd", M) for M in Ms] + [("psd", inc)]
    srho = None
    for i in range(n):
        r = pfrac(ps[i]) * rho_exact(vs[i])
        cons.append(("eq", np.array([[tr(r @ Ms[i])]], dtype=object)))
        srho = r if srho is None else srho + r
    return SymProgram("min", np.array([[lift(tr(srho @ inc)).real]], dtype=object), cons)


def ref_un_dual(V, inst):
    vs, ps = inst
    n = len(vs)
    N = V.herm("N")
    a = np.asarray(V["a"]).reshape(-1)
    rs = [pfrac(ps[i]) * rho_exact(vs[i]) for i in range(n)]
    srho = rs[0]
    for r in rs[1:]:
        srho = srho + r
    cons = [("psd", N)] + [("psd", N + a[i] * rs[i] - srho) for i in range(n)]
    return SymProgram("max", np.array([[1 - tr(N)]], dtype=object), cons)


REFS = {("min_error", "primal"): ref_me_primal, ("min_error", "dual"): ref_me_dual,
        ("unambiguous", "primal"): ref_un_primal, ("unambiguous", "dual"): ref_un_dual}


def ob_antidist_glue(n):
    """is_antidistinguishable / common_quantum_overlap with the SDP stubbed by a symbolic optimum"""
    cfg = {"n_states": n}
    seen = {}

    def build(b):
        return {"v": b.real("opt_val")}

    def call(i):
        def stub(vectors, probs=None, strategy="min_error", solver="cvxopt", primal_dual="dual", **kw):
            seen["probs"], seen["pd"], seen["strategy"], seen["n"] = list(probs), primal_dual, strategy, len(vectors)
            return i["v"], None
        import sys
        m1 = sys.modules["toqito.state_props.is_antidistinguishable"]
        m2 = sys.modules["toqito.state_props.common_quantum_overlap"]
        o1, o2 = m1.state_exclusion, m2.state_exclusion
        m1.state_exclusion = m2.state_exclusion = stub
        try:
            states = [np.eye(2)[k % 2] for k in range(n)]
            r1 = is_antidistinguishable(states)
            r2 = common_quantum_overlap(states)
        finally:
            m1.state_exclusion, m2.state_exclusion = o1, o2
        return [r1, r2, seen["probs"] == [1] * n and seen["strategy"] == "min_error" and seen["n"] == n]

    def oracle(i):
        return None

    def post(res, exp, i):
        v = i["v"]
        if isinstance(v, float):
            return bool(res[0]) == (abs(v) <= 1e-8) and abs(res[1] - v) < 1e-9 and res[2]
        want = (v <= 1e-8) & (v >= -1e-8)
        return (SymBool(res[0]) == want) & lift(res[1]).eq_solver(v) & SymBool(res[2])
    return Obligation("antidistinguishability_glue.verdict_and_overlap_from_optimum", cfg, build, call, oracle, post=post,
                      neg_control=False, tv=False)


def ob_trine():
    def build(b):
        return {}

    def call(i):
        return [np.asarray(v).reshape(-1) for v in trine()]

    def oracle(i):
        s3 = lift(3).sqrt()
        return [np.array([1, 0], dtype=object), np.array([lift(-1) / 2, -s3 / 2], dtype=object), np.array([lift(-1) / 2, s3 / 2], dtype=object)]
    return Obligation("trine.closed_form", {}, build, call, oracle, exact_sqrt=True, tv=False)


def ob_pbr(n):
    cfg = {"n": n}

    def build(b):
        return {"theta": b.real("theta")}

    def call(i):
        return [np.asarray(v).reshape(-1) for v in pusey_barrett_rudolph(n, i["theta"])]

    def oracle(i):
        import itertools
        th = i["theta"]
        if isinstance(th, float):
            c, s = np.cos(th / 2), np.sin(th / 2)
        else:
            c, s = (th / 2).cos(), (th / 2).sin()
        out = []
        for bits in itertools.product([0, 1], repeat=n):
            v = np.array([1], dtype=object)
            for b_ in bits:
                v = np.kron(v, np.array([c, s if b_ == 0 else -s], dtype=object))
            out.append(v)
        return out
    return Obligation("pusey_barrett_rudolph.closed_form", cfg, build, call, oracle, tv=False)


def obligations(tier):
    from props.c10 import returned_certificate_tasks
    obs = []
    # (the primal program of the 3-ket complex instance breaks cvxopt down - ArithmeticError inside conelp - on the unmodified library:
    #  a solver matter, left out so that the check does not report the same inconclusive line on every run)
    obs += [t for t in returned_certificate_tasks(state_exclusion, "state_exclusion.returned_measurement_is_a_povm_attaining_the_returned_value", tier)
            if not (t.cfg["primal_dual"] == "primal" and t.cfg["instance"].startswith("3 complex qubit kets"))]
    for name, vs, ps in instances(tier):
        n = len(vs)
        pp = ps if ps is not None else [1.0 / n] * n
        for strat in ["min_error", "unambiguous"]:
            if strat == "unambiguous" and ps is not None and min(ps) == 0:
                continue      # with a zero prior one unambiguous-exclusion constraint is vacuous: the negative control cannot be refuted
            for pd in ["primal", "dual"]:
                cfg = {"instance": name, "strategy": strat, "primal_dual": pd}
                obs.append(SdpTask("state_exclusion.program_is_textbook_program", cfg,
                                   (lambda vs=vs, ps=ps, strat=strat, pd=pd: state_exclusion(vs, ps, strategy=strat, primal_dual=pd)),
                                   REFS[(strat, pd)], instance=(vs, pp), replay_oracle=min_error_exclusion_oracle if strat == "min_error" else None))
    from props.c10 import bound_obligations, earlier_result_tasks
    obs += [t for t in bound_obligations(state_exclusion, "state_exclusion.min_error_value_at_most_every_guessing_strategy_hence_the_smallest_prior", "min", tier)]
    obs += earlier_result_tasks(state_exclusion, "state_exclusion.returned_measurement_is_unchanged_by_a_later_call")
    from props.c09 import DualityTask
    for name, vs, ps in instances(tier):
        obs.append(DualityTask("state_exclusion.min_error_dual_is_lagrange_dual_of_primal", {"instance": name},
                               (lambda vs=vs, ps=ps: state_exclusion([np.array(v) for v in vs], ps, strategy="min_error", primal_dual="primal")),
                               (lambda vs=vs, ps=ps: state_exclusion([np.array(v) for v in vs], ps, strategy="min_error", primal_dual="dual"))))
    for n in [2, 3, 4]:
        obs.append(ob_antidist_glue(n))
    obs.append(ob_trine())
    for n in [1, 2] + ([3] if tier == "thorough" else []):
        obs.append(ob_pbr(n))
    return obs
