"""C13 State distance and fidelity measures equal their documented defining formulas (glue decided modulo kernel contracts)."""
from __future__ import annotations

import numpy as np
import scipy.linalg

from symnp.array import NP_OVERRIDES, SymArray, _sym_sqrt, as0d, h_eigvalsh, h_norm, has_sym, kernel, sarr, sp_inv, sp_sqrtm
from symnp.core import And, Not, Or, Sym, SymBool
from symnp.harness import Obligation, eq, jsonable
from props.common import Task
from toqito.state_metrics import (bures_angle, bures_distance, fidelity, fidelity_of_separability, helstrom_holevo,
                                  hilbert_schmidt, hilbert_schmidt_inner_product, matsumoto_fidelity, sub_fidelity,
                                  trace_distance)

META = {
    "id": "C13",
    "level": "other",
    "files": ["toqito/state_metrics/fidelity.py", "toqito/state_metrics/trace_distance.py", "toqito/state_metrics/hilbert_schmidt.py",
              "toqito/state_metrics/hilbert_schmidt_inner_product.py", "toqito/state_metrics/helstrom_holevo.py",
              "toqito/state_metrics/bures_distance.py", "toqito/state_metrics/bures_angle.py", "toqito/state_metrics/sub_fidelity.py",
              "toqito/state_metrics/matsumoto_fidelity.py", "toqito/state_metrics/fidelity_of_separability.py",
              "toqito/matrix_props/trace_norm.py", "toqito/matrix_props/is_density.py",
              "toqito/matrix_props/is_positive_semidefinite.py", "toqito/matrix_props/is_hermitian.py"],
    "functions": ["toqito.state_metrics.fidelity", "toqito.state_metrics.trace_distance", "toqito.state_metrics.hilbert_schmidt",
                  "toqito.state_metrics.hilbert_schmidt_inner_product", "toqito.state_metrics.helstrom_holevo",
                  "toqito.state_metrics.bures_distance", "toqito.state_metrics.bures_angle", "toqito.state_metrics.sub_fidelity",
                  "toqito.state_metrics.matsumoto_fidelity", "toqito.state_metrics.fidelity_of_separability",
                  "toqito.matrix_props.trace_norm", "toqito.matrix_props.is_density"],
    "explanation": "Bounded symbolic execution of the real state_metrics functions. (1) On pairs of density operators given by "
                   "construction (rho = A A^dagger / Tr(A A^dagger), every entry of A a solver variable, every rank up to d, real "
                   "and complex) z3 decides that the returned value equals the documented formula, where each LAPACK/scipy kernel "
                   "(sqrtm, inv, nuclear norm, spectral norm, eigh) is an uninterpreted function of its argument's normal form: the "
                   "oracle applies the same kernel to its own, explicitly looped argument, so equality holds iff toqito's glue hands "
                   "the kernel an entry-wise equal argument; polynomial formulas (Hilbert-Schmidt distance and inner product, "
                   "sub-fidelity) are written out exactly. (2) On arbitrary Hermitian and arbitrary complex inputs every path of "
                   "is_density is explored: a normal return implies both inputs are density operators within a stated window, an "
                   "exception is a ValueError and implies that an input is not exactly a density operator (same eigenvalue kernel).",
    "bounds": {
        "quick": "density pairs: d=2 real and complex A with ranks (2,2), (1,2), (2,1), (1,1), d=3 real full rank (sub-fidelity complex "
                 "only d=2); Matsumoto d=2; rejection paths d=2 Hermitian and general complex (entries bounded by 10), d=3 Hermitian; "
                 "inner product shapes up to 3x3",
        "thorough": "adds d=3 complex (ranks (3,3), (1,3), (2,1)), d=3 real (2,3), d=4 real and complex for the kernel-argument "
                    "obligations, Matsumoto d=3 real, rejection paths d=4, inner product 4x4",
    },
    "trusted_base": ["numpy object-array semantics = numeric semantics (translator validation per obligation)",
                     "congruence of kernels: the same LAPACK/scipy routine on entry-wise equal arguments returns equal values",
                     "z3 5.1.0"],
    "outside_claim": [
        "symmetry in the arguments, invariance under a common unitary, extreme values on identical / orthogonal states, reduction to "
        "the overlap formula on pure states: spectral theorems about the definitions (they rest on the numerical output of "
        "sqrtm / svd, not on toqito's glue)",
        "trace distance is a metric, 1-F <= T <= sqrt(1-F^2), sub-fidelity <= F^2, Matsumoto <= F: inequalities between kernel outputs",
        "fidelity's docstring form ||sqrt(rho) sqrt(sigma)||_1 = Tr sqrt(sqrt(rho) sigma sqrt(rho)): a theorem, the check uses the "
        "anchored mechanism Tr sqrtm(sqrtm(rho) sigma sqrtm(rho))",
        "symmetry of the matrix geometric mean (rho # sigma = sigma # rho): the Matsumoto obligation fixes the argument order that the "
        "determinant comparison selects",
        "singular inputs of matsumoto_fidelity (LinAlgError fallback adding 1e-7): property is stated for full-rank states",
        "fidelity_of_separability: the picos SDP and its value 1 on pure product states (conic solver), the purity / separability "
        "rejections (is_pure takes np.max over complex eig output, is_separable is a numerical cascade); only the non-density "
        "rejection prefix is decided",
        "cvxpy-expression branches of fidelity / matsumoto_fidelity",
        "np.round(F, 10) inside bures_distance / bures_angle is modelled as the identity",
        "floating-point effect seen by translator validation, not decidable over the reals: sub_fidelity(rho, sigma) with real dtype "
        "and a pure rho returns nan in about a third of random cases (2(Tr(rho sigma)^2 - Tr(rho sigma rho sigma)) is 0 in exact "
        "arithmetic, rounds to -1e-17, np.sqrt of a negative real float is nan)",
        "dimensions above the bound",
    ],
    "assumptions": ["floats modelled as reals",
                    "eigvalsh of a Gram matrix A A^dagger / Tr returns non-negative values (stated as precondition on the kernel "
                    "symbols in the by-construction family; without it the rejection paths are covered by the rejection obligations)",
                    "radicands of real square roots are non-negative on the paths that take the root (1 - F >= 0, F >= 0, "
                    "Tr(rho sigma)^2 >= Tr(rho sigma rho sigma))"],
}


# ---- engine extension registered from this module: principal square root of a complex scalar -----------------
def _sqrt_with_complex(x, *a, **k):
    """np.sqrt inside toqito: real values as in symnp (symbol s >= 0, s*s = x); a value with a non-zero imaginary part
    (sub_fidelity on an almost-Hermitian input) is an uninterpreted complex function of the normal form"""
    if isinstance(x, Sym) and x.im.t:
        return kernel("csqrt", [as0d(x)], [((), "c")], concrete=lambda v: np.sqrt(complex(v)))[0]
    return _sym_sqrt(x, *a, **k)


NP_OVERRIDES["sqrt"] = _sqrt_with_complex


# ---- polymorphic helpers (symbolic and numeric) -------------------------------------------------------------
def _sym(x):
    return has_sym(x) if not isinstance(x, (Sym, SymBool)) else True


def k_nuc(x):
    x = np.asarray(x)
    return h_norm(sarr(x), "nuc") if has_sym(x) else np.linalg.norm(x, "nuc")


def k_sqrtm(x):
    x = np.asarray(x)
    return np.asarray(sp_sqrtm(sarr(x) if has_sym(x) else x))


def k_inv(x):
    x = np.asarray(x)
    return np.asarray(sp_inv(sarr(x) if has_sym(x) else x))


def k_eigvalsh(x):
    x = np.asarray(x)
    return h_eigvalsh(sarr(x)) if has_sym(x) else np.linalg.eigvalsh(x)


def psqrt(x):
    if isinstance(x, Sym):
        return x.real.sqrt()
    return np.sqrt(complex(x)).real


def parccos(x):
    if isinstance(x, Sym):
        return x.arccos()
    return np.arccos(min(1.0, float(np.real(x))))


def pabs(x):
    return abs(x)


def preal(x):
    return x.real


def mm(*ms):
    """explicit matrix product"""
    r = np.asarray(ms[0])
    for m in ms[1:]:
        m = np.asarray(m)
        out = np.empty((r.shape[0], m.shape[1]), dtype=object)
        for i in range(r.shape[0]):
            for j in range(m.shape[1]):
                t = 0
                for k in range(r.shape[1]):
                    t = t + r[i, k] * m[k, j]
                out[i, j] = t
        r = out
    if not has_sym(r):
        r = r.astype(complex)
    return r


def tr(m):
    m = np.asarray(m)
    t = 0
    for i in range(m.shape[0]):
        t = t + m[i, i]
    return t


def sub(a, b):
    a, b = np.asarray(a), np.asarray(b)
    out = np.empty(a.shape, dtype=object)
    for idx in np.ndindex(a.shape):
        out[idx] = a[idx] - b[idx]
    if not has_sym(out):
        out = out.astype(complex)
    return out


def det(m):
    m = np.asarray(m)
    n = m.shape[0]
    if n == 1:
        return m[0, 0]
    t = 0
    for j in range(n):
        minor = np.delete(np.delete(m, 0, 0), j, 1)
        t = t + (-1) ** j * m[0, j] * det(minor)
    return t


# ---- the documented formulas -----------------------------------------------------------------------------------
def F_fidelity(rho, sigma):
    s = k_sqrtm(rho)
    return preal(tr(k_sqrtm(mm(s, sigma, s))))


def F_trace_distance(rho, sigma):
    return k_nuc(sub(rho, sigma)) / 2


def F_hilbert_schmidt(rho, sigma):
    """Tr((rho - sigma)^2), polynomial"""
    d = sub(rho, sigma)
    t = 0
    n = d.shape[0]
    for i in range(n):
        for j in range(n):
            t = t + d[i, j] * d[j, i]
    return t


def F_helstrom(rho, sigma):
    return 0.5 + 0.25 * k_nuc(sub(rho, sigma))


def F_bures_distance(rho, sigma):
    return psqrt(2 * (1 - F_fidelity(rho, sigma)))


def F_bures_angle(rho, sigma):
    return parccos(psqrt(F_fidelity(rho, sigma)))


def F_sub_fidelity(rho, sigma):
    rho, sigma = np.asarray(rho), np.asarray(sigma)
    n = rho.shape[0]
    t1 = 0
    for i in range(n):
        for j in range(n):
            t1 = t1 + rho[i, j] * sigma[j, i]
    rs = mm(rho, sigma)
    t2 = 0
    for i in range(n):
        for j in range(n):
            t2 = t2 + rs[i, j] * rs[j, i]
    return preal(t1) + psqrt(2 * (t1 * t1 - t2))


def geo_mean_trace(a, b):
    """Re Tr a^{1/2} sqrt(a^{-1/2} b a^{-1/2}) a^{1/2}"""
    s = k_sqrtm(a)
    si = k_inv(s)
    return preal(tr(mm(s, k_sqrtm(mm(si, b, si)), s)))


FORMULA = {"fidelity": (fidelity, F_fidelity), "trace_distance": (trace_distance, F_trace_distance),
           "hilbert_schmidt": (hilbert_schmidt, F_hilbert_schmidt), "helstrom_holevo": (helstrom_holevo, F_helstrom),
           "bures_distance": (bures_distance, F_bures_distance), "bures_angle": (bures_angle, F_bures_angle),
           "sub_fidelity": (sub_fidelity, F_sub_fidelity), "matsumoto_fidelity": (matsumoto_fidelity, None)}


# ---- inputs ------------------------------------------------------------------------------------------------------
def gram_density(b, name, d, r, field):
    """rho = A A^dagger / Tr(A A^dagger): every density operator of rank <= r arises, and every generic A gives one"""
    A = np.asarray(b.array(name, (d, r), "c" if field == "complex" else "r"))
    G = np.empty((d, d), dtype=object)
    for i in range(d):
        for j in range(d):
            t = 0
            for k in range(r):
                t = t + A[i, k] * A[j, k].conjugate()
            G[i, j] = t
    t = 0
    for i in range(d):
        t = t + G[i, i]
    out = np.empty((d, d), dtype=object)
    for i in range(d):
        for j in range(d):
            out[i, j] = G[i, j] / t
    return out.view(SymArray)


def psd_kernel_assume(i):
    out = []
    for m in (i["rho"], i["sigma"]):
        out += [w >= 0 for w in k_eigvalsh(m)]
    return out


def valid_density_pair(ni):
    """replay candidates must be density operators (the abstraction may hand back A = 0)"""
    for m in (ni["rho"], ni["sigma"]):
        m = np.asarray(m, dtype=complex)
        if not (np.all(np.isfinite(m)) and abs(np.trace(m) - 1) < 1e-9 and np.allclose(m, m.conj().T, atol=1e-12)
                and np.linalg.eigvalsh(m).min() > -1e-12):
            return False
    return True


def ob_formula(fname, d, field, r1, r2):
    f, F = FORMULA[fname]
    cfg = {"d": d, "field": field, "rank_rho": r1, "rank_sigma": r2}

    def build(b):
        return {"rho": gram_density(b, "A", d, r1, field), "sigma": gram_density(b, "B", d, r2, field)}

    def call(i):
        return f(i["rho"], i["sigma"])

    def oracle(i):
        return F(i["rho"], i["sigma"])
    def witness():
        # mixed storage: one operand held in a REAL (float64) array, the other genuinely complex - both orders
        rng = np.random.default_rng(7 * d + r1 + 3 * r2)
        out = []
        for _ in range(2):
            A = rng.integers(-4, 5, size=(d, max(r1, 2 if d > 1 else 1))) / 4.0
            B = (rng.integers(-4, 5, size=(d, max(r2, 2 if d > 1 else 1))) + 1j * rng.integers(-4, 5, size=(d, max(r2, 2 if d > 1 else 1)))) / 4.0
            if np.trace(A @ A.T) == 0 or np.trace(B @ B.conj().T) == 0:
                continue
            re_ = (A @ A.T) / np.trace(A @ A.T)
            cx_ = (B @ B.conj().T) / np.trace(B @ B.conj().T).real
            if field == "complex":
                out += [{"rho": re_.astype(float), "sigma": cx_}, {"rho": cx_, "sigma": re_.astype(float)}]
        if min(r1, r2) == 1 and d >= 3:
            # exactly one pure state against a full-rank mixed one, both orders (where pure-state shortcuts must not fire)
            # (complex storage also for the real field: scipy.linalg.sqrtm fails - "Failed to find a square root", NaN - on some
            #  singular matrices in real arithmetic; that is a property of the kernel, not of toqito's glue, see DESIGN.md section 6)
            v = rng.integers(-4, 5, size=(d, 1)) / 4.0 + 1j * rng.integers(-4, 5, size=(d, 1)) / 4.0
            v[0, 0] += 1.0
            pure = (v @ v.conj().T) / np.vdot(v, v).real
            M = rng.integers(-4, 5, size=(d, d)) / 4.0 + 1j * rng.integers(-4, 5, size=(d, d)) / 4.0 + 2 * np.eye(d)
            mixed_ = (M @ M.conj().T) / np.trace(M @ M.conj().T).real
            out += [{"rho": pure, "sigma": mixed_}, {"rho": mixed_, "sigma": pure}]
        if d >= 3 and min(r1, r2) >= 2:
            # a dense state with a REPEATED non-zero eigenvalue (Fourier basis times diag(.4, .4, .2, 0..)): eigen-solvers for general
            # matrices return non-orthogonal vectors inside the degenerate eigenspace
            Fm = np.array([[np.exp(2j * np.pi * a * c_ / d) for c_ in range(d)] for a in range(d)]) / np.sqrt(d)
            lam = np.array(([0.4, 0.4, 0.2] + [0.0] * d)[:d])
            deg = Fm @ np.diag(lam / lam.sum()) @ Fm.conj().T
            M2 = rng.integers(-4, 5, size=(d, d)) / 4.0 + 1j * rng.integers(-4, 5, size=(d, d)) / 4.0 + 2 * np.eye(d)
            gen = (M2 @ M2.conj().T) / np.trace(M2 @ M2.conj().T).real
            out += [{"rho": deg, "sigma": gen}, {"rho": gen, "sigma": deg}]
        return out
    return Obligation(f"{fname}.equals_documented_formula", cfg, build, call, oracle, assume=psd_kernel_assume,
                      valid=valid_density_pair, witness=witness,
                      weight=d * d * (3 if field == "complex" else 1) * (20 if fname == "sub_fidelity" else 1))


def ob_matsumoto(d, field):
    """value = Re Tr(a # b) with (a, b) = (rho, sigma) unless |det sigma| > |det rho|, then (sigma, rho)"""
    cfg = {"d": d, "field": field, "rank_rho": d, "rank_sigma": d}

    def build(b):
        return {"rho": gram_density(b, "A", d, d, field), "sigma": gram_density(b, "B", d, d, field)}

    def call(i):
        return matsumoto_fidelity(i["rho"], i["sigma"])

    def oracle(i):
        return [geo_mean_trace(i["rho"], i["sigma"]), geo_mean_trace(i["sigma"], i["rho"])]

    def post(res, exp, i):
        swap = pabs(det(i["sigma"])) > pabs(det(i["rho"]))
        if isinstance(swap, (bool, np.bool_)):
            return eq(res, exp[1] if swap else exp[0])
        return (swap & eq(res, exp[1])) | (~swap & eq(res, exp[0]))

    def neg(exp):
        return [exp[1], exp[0]]
    return Obligation("matsumoto_fidelity.equals_documented_formula", cfg, build, call, oracle, post=post, neg=neg,
                      assume=psd_kernel_assume, valid=valid_density_pair, weight=d * d * (3 if field == "complex" else 1))


# ---- rejection of non-density inputs -------------------------------------------------------------------------------
def _herm_exact(m):
    m = np.asarray(m)
    n = m.shape[0]
    cs = []
    for a in range(n):
        for c in range(a, n):
            dlt = m[a, c] - m[c, a].conjugate()
            if isinstance(dlt, Sym):
                cs.append(dlt.eq(0))
            else:
                cs.append(bool(dlt == 0))
    return And(*cs)


def _herm_window(m, w=1e-3):
    m = np.asarray(m)
    n = m.shape[0]
    cs = []
    for a in range(n):
        for c in range(a, n):
            dlt = m[a, c] - m[c, a].conjugate()
            cs += [dlt.real <= w, dlt.real >= -w, dlt.imag <= w, dlt.imag >= -w]
    return And(*cs)


def density_exact(m):
    t = tr(m)
    return And(_herm_exact(m), *[x >= 0 for x in k_eigvalsh(m)], (t.eq(1) if isinstance(t, Sym) else bool(t == 1)))


def density_window(m):
    """what an accepted input certainly satisfies: tolerances of is_density (1e-8 absolute / 1e-5 relative) with slack"""
    t = tr(m)
    return And(_herm_window(m), *[x >= -1e-7 for x in k_eigvalsh(m)],
               t.real - 1 <= 1e-4, t.real - 1 >= -1e-4, t.imag <= 1e-4, t.imag >= -1e-4)


def ob_reject(fname, d, kind):
    f = FORMULA[fname][0]
    cfg = {"d": d, "inputs": {"h": "arbitrary Hermitian", "c": "arbitrary complex, entries bounded by 10"}[kind]}

    def build(b):
        return {"rho": b.array("R", (d, d), kind), "sigma": b.array("S", (d, d), kind)}

    def call(i):
        f(i["rho"], i["sigma"])
        return [True]

    def oracle(i):
        return [True]

    def post(res, exp, i):
        return And(density_window(i["rho"]), density_window(i["sigma"]))

    def exc_post(e, i):
        if not isinstance(e, ValueError):
            return False
        return Not(And(density_exact(i["rho"]), density_exact(i["sigma"])))

    def assume(i):
        if kind != "c":
            return []
        out = []
        for m in (i["rho"], i["sigma"]):
            for v in np.asarray(m).flat:
                out += [v.real <= 10, v.real >= -10, v.imag <= 10, v.imag >= -10]
        return out
    def witness():
        # (valid, invalid), (invalid, valid), (valid, valid): each argument on its own must be validated
        diag = {2: [0.75, 0.25], 3: [0.5, 0.25, 0.25], 4: [0.25, 0.25, 0.25, 0.25]}.get(d, [1.0 / d] * d)
        good = np.diag(np.array(diag, dtype=complex))
        good[0, 1], good[1, 0] = 0.125j, -0.125j
        good2 = np.diag(np.array(diag[::-1], dtype=complex))
        good2[0, 1], good2[1, 0] = 0.125, 0.125
        neg = np.diag(np.array([1.5, -0.5] + [0.0] * (d - 2), dtype=complex))
        big = 2 * good
        nonh = good.copy()
        nonh[0, 1] = 0.375
        out = [{"rho": good, "sigma": good2}]
        for bad in (neg, big, nonh):
            out += [{"rho": good, "sigma": bad}, {"rho": bad, "sigma": good2}]
        return out
    return Obligation(f"{fname}.rejects_exactly_the_non_density_inputs", cfg, build, call, oracle, post=post, exc_post=exc_post,
                      assume=assume, tv=False, neg_control=False, max_paths=400, weight=d * d, witness=witness)


def ob_shape_mismatch(fname, d1, d2):
    f = FORMULA[fname][0]
    cfg = {"d_rho": d1, "d_sigma": d2}

    def build(b):
        return {"rho": gram_density(b, "A", d1, d1, "real"), "sigma": gram_density(b, "B", d2, d2, "real")}

    def call(i):
        f(i["rho"], i["sigma"])
        return [True]

    def post(res, exp, i):
        return False

    def exc_post(e, i):
        return isinstance(e, ValueError)
    return Obligation(f"{fname}.rejects_shape_mismatch", cfg, build, call, lambda i: [True], post=post, exc_post=exc_post,
                      neg_control=False, assume=psd_kernel_assume, valid=valid_density_pair)


# ---- Hilbert-Schmidt inner product -------------------------------------------------------------------------------
def ob_hs_inner(m, n):
    cfg = {"rows": m, "cols": n}

    def build(b):
        return {"A": b.array("A", (m, n), "c"), "B": b.array("B", (m, n), "c")}

    def call(i):
        return hilbert_schmidt_inner_product(i["A"], i["B"])

    def oracle(i):
        A, B = np.asarray(i["A"]), np.asarray(i["B"])
        t = 0
        for a in range(m):
            for c in range(n):
                t = t + A[a, c].conjugate() * B[a, c]
        return t

    return Obligation("hilbert_schmidt_inner_product.equals_trace_of_A_dagger_B", cfg, build, call, oracle)


# ---- sub-fidelity on every accepted Hermitian input ------------------------------------------------------------------
def ob_sub_fidelity_hermitian(d):
    cfg = {"d": d, "inputs": "arbitrary Hermitian, all accepting paths"}

    def build(b):
        return {"rho": b.array("R", (d, d), "h"), "sigma": b.array("S", (d, d), "h")}

    def call(i):
        return sub_fidelity(i["rho"], i["sigma"])

    def oracle(i):
        return F_sub_fidelity(i["rho"], i["sigma"])

    def exc_post(e, i):
        return isinstance(e, ValueError)
    return Obligation("sub_fidelity.equals_documented_formula_on_accepted_hermitian_inputs", cfg, build, call, oracle,
                      exc_post=exc_post, tv=False, weight=d * d)


# ---- fidelity_of_separability: the non-density rejection prefix -----------------------------------------------------
class _PastDensityGuard(Exception):
    pass


def _stop(*a, **k):
    raise _PastDensityGuard()


def ob_fos_reject(dims):
    d = dims[0] * dims[1]
    cfg = {"dims": list(dims), "inputs": "arbitrary Hermitian"}

    def build(b):
        return {"rho": b.array("R", (d, d), "h")}

    def call(i):
        fidelity_of_separability(i["rho"], list(dims))
        return [True]

    def post(res, exp, i):
        return False    # under the stub the function cannot return normally

    def exc_post(e, i):
        if isinstance(e, _PastDensityGuard):
            return density_window(i["rho"])
        if not isinstance(e, ValueError):
            return False
        return Not(density_exact(i["rho"]))
    return Obligation("fidelity_of_separability.non_density_inputs_rejected_before_anything_else", cfg, build, call,
                      lambda i: [True], post=post, exc_post=exc_post, tv=False, neg_control=False,
                      extra_patch={"toqito.state_metrics.fidelity_of_separability": {"is_pure": _stop}}, weight=d)


class FosStateProductTask(Task):
    """fidelity of separability of a pure PRODUCT state |a>|b> with unequal local dimensions: the picos program the real function
    hands to the solver is captured; z3 decides that X = rho, sigma = |a><a| (x) |b><b|^{(x)k} satisfies every equality of the
    captured program, that each PSD-constrained operator at that point is an explicit Gram form ([[1,1],[1,1]] (x) rho for the
    block constraint; |a><a| (x) (|b><b| or its transpose)^{(x)k} for sigma and its partial transposes) and that the objective
    there is 1, i.e. the returned value (objective squared) attains 1.  The upper half (objective <= 1 on the feasible set) is
    outside what the uninterpreted PSD predicate can show."""
    engine = "E2-sdpcap (T3 certificate in z3)"
    weight = 40

    def __init__(self, dims, k):
        super().__init__("fidelity_of_separability.product_state_program_admits_the_product_extension_with_value_one",
                         {"dims_A_B": list(dims), "k": k})
        self.dims, self.k = tuple(dims), k

    def _instance(self):
        unit = {2: np.array([3, 4j]) / 5, 3: np.array([2, -2j, 1]) / 3, 4: np.array([1, 1j, -1, 1]) / 2}
        dA, dB = self.dims
        a, b = unit[dA], unit[dB].conj()
        return np.kron(np.outer(a, a.conj()), np.outer(b, b.conj())), a, b

    def _run(self, rec, seed):
        import itertools
        import z3
        from sdpcap.capture import capture_call, extract
        from sdpcap.embed import coord_values, linear_constraints, objective_term, prove, rv
        dA, dB = self.dims
        k = self.k
        rho, a, b = self._instance()
        cap = capture_call(lambda: fidelity_of_separability(rho, list(self.dims), k))
        if cap is None:
            rec["notes"].append("no Problem.solve was reached: zero coverage")
            return
        prog = extract(cap)
        rec["programs"] = 1
        rec["program"] = prog.summary()
        N, n = dA * dB, dA * dB ** k
        byname = {v.name: i for i, v in enumerate(prog.vars)}
        if set(byname) != {"x_ab", "s_ab_k"} or tuple(prog.vars[byname["s_ab_k"]].shape) != (n, n) or tuple(prog.vars[byname["x_ab"]].shape) != (N, N):
            rec["notes"].append(f"captured variables {[(v.name, v.shape) for v in prog.vars]} are not X ({N}x{N}) and sigma ({n}x{n})")
            if self._replay_value(rec, rho):
                rec["status"] = "violation"
            return
        aa, bb = np.outer(a, a.conj()), np.outer(b, b.conj())

        def point(transposed):
            M = aa
            for c in range(k):
                M = np.kron(M, bb.T if c in transposed else bb)
            return M
        S0 = point(())

        def zr(M):
            return [[rv(x) for x in row] for row in np.real(M)], [[rv(x) for x in row] for row in np.imag(M)]
        cv = [None, None]
        cv[byname["x_ab"]] = coord_values(prog.vars[byname["x_ab"]], *zr(rho))
        cv[byname["s_ab_k"]] = coord_values(prog.vars[byname["s_ab_k"]], *zr(S0))
        conj, psd_list, _ = linear_constraints(prog, cv)
        obj = objective_term(prog, cv)
        grams = [np.kron(np.ones((2, 2)), rho)]
        for sz in range(k + 1):
            for Tt in itertools.combinations(range(k), sz):
                grams.append(point(Tt))
        gram_ok = []
        for re, im in psd_list:
            alts = [z3.And(*[z3.And(re[i, j] == rv(G[i, j].real), im[i, j] == rv(G[i, j].imag)) for i in range(G.shape[0]) for j in range(G.shape[1])])
                    for G in grams if G.shape == re.shape]
            gram_ok.append(z3.Or(*alts) if alts else z3.BoolVal(False))
        r, _ = prove(z3.Not(z3.And(*conj, *gram_ok, obj == 1)))
        r2, _ = prove(z3.Not(z3.And(*conj, *gram_ok, obj == rv(0.5))))
        r3, _ = prove(z3.BoolVal(True), conj)
        rec["queries"], rec["neg_control"], rec["reachable"] = 3, r2 == "sat", r3 == "sat"
        if r == "unsat" and r2 == "sat" and r3 == "sat":
            rec["status"] = "discharged"
            return
        rec["notes"].append(f"certificate query: {r}")
        if r == "sat" and self._replay_value(rec, rho):
            rec["status"] = "violation"

    def _replay_value(self, rec, rho):
        try:
            got = float(np.real(fidelity_of_separability(rho, list(self.dims), self.k)))
        except Exception as e:  # noqa: BLE001
            rec["violation"] = {"source": "the real function raises on a pure product state (reproduced)", "inputs": jsonable(self.cfg),
                                "exception": f"{type(e).__name__}: {str(e)[:300]}"}
            return True
        if abs(got - 1) > 1e-4:
            rec["violation"] = {"source": "certificate mismatch reproduced numerically with the real solver", "inputs": jsonable(self.cfg),
                                "actual": got, "expected": 1.0}
            return True
        rec["notes"].append(f"the program does not admit the product certificate but the real value is {got:.6f}")
        return False

    def replay(self, rp):
        rec = {"notes": []}
        bad = self._replay_value(rec, self._instance()[0])
        print(rec.get("violation", rec["notes"]))
        return not bad


def obligations(tier):
    T = tier == "thorough"
    obs = []
    for dims, k in [((2, 3), 1), ((2, 3), 2), ((3, 2), 1)] + ([((3, 2), 2), ((2, 4), 2), ((2, 3), 3)] if T else []):
        obs.append(FosStateProductTask(dims, k))
    kernel_fns = ["fidelity", "trace_distance", "helstrom_holevo", "bures_distance", "bures_angle"]
    poly_fns = ["hilbert_schmidt", "sub_fidelity"]
    # (d, field, ranks)
    # (one pure, one mixed state in dimension 3: the smallest case where pure-state shortcuts stop coinciding with the definition)
    fam = [(2, "real", 2, 2), (2, "complex", 2, 2), (2, "complex", 1, 2), (2, "complex", 2, 1), (2, "complex", 1, 1), (3, "real", 3, 3),
           (3, "complex", 1, 3), (3, "real", 3, 1)]
    if T:
        fam += [(3, "complex", 3, 3), (3, "complex", 2, 1), (3, "real", 2, 3), (4, "real", 4, 4), (4, "real", 1, 2), (4, "complex", 4, 4)]
    for fn in kernel_fns:
        for (d, fld, r1, r2) in fam:
            obs.append(ob_formula(fn, d, fld, r1, r2))
    pfam = [(2, "real", 2, 2), (2, "complex", 2, 2), (2, "complex", 1, 2), (2, "complex", 1, 1), (3, "real", 3, 3)]
    if T:
        pfam += [(3, "real", 1, 2), (3, "complex", 1, 1)]
    for (d, fld, r1, r2) in pfam:
        obs.append(ob_formula("hilbert_schmidt", d, fld, r1, r2))
        # real-dtype pure states: in floating point the radicand of sub_fidelity (identically 0 there) can round below zero and
        # np.sqrt returns nan - a float effect outside the real-arithmetic model (see outside_claim); pure states are covered
        # over the complex field, where the same code takes the complex root
        if not (fld == "real" and min(r1, r2) == 1):
            obs.append(ob_formula("sub_fidelity", d, fld, r1, r2))
    if T:
        obs.append(ob_formula("hilbert_schmidt", 3, "complex", 3, 3))
        obs.append(ob_formula("sub_fidelity", 3, "complex", 1, 2))
    for (d, fld) in [(2, "real"), (2, "complex")] + ([(3, "real")] if T else []):
        obs.append(ob_matsumoto(d, fld))
    for fn in FORMULA:
        for d in [2, 3] + ([4] if T else []):
            obs.append(ob_reject(fn, d, "h"))
        obs.append(ob_reject(fn, 2, "c"))
    for fn in ["fidelity", "bures_distance", "bures_angle", "sub_fidelity", "matsumoto_fidelity"]:
        obs.append(ob_shape_mismatch(fn, 2, 3))
    for (m, n) in [(1, 1), (2, 2), (2, 3), (3, 2), (3, 3)] + ([(4, 4), (1, 4)] if T else []):
        obs.append(ob_hs_inner(m, n))
    for d in [2, 3] + ([4] if T else []):
        obs.append(ob_sub_fidelity_hermitian(d))
    for dims in [(2, 2)] + ([(2, 3)] if T else []):
        obs.append(ob_fos_reject(dims))
    return obs
