"""C17 Named states and standard matrices satisfy their defining identities."""
from __future__ import annotations

import builtins
import cmath
import contextlib
import itertools
import math
from fractions import Fraction

import numpy as np
import z3

from symnp.array import NP_OVERRIDES, HANDLERS, ModProxy, SymArray, has_sym, lifted, sarr, _map, _sym_sqrt
from symnp.core import _CTX, ONE, ZERO, And, Or, Poly, Sym, SymBool, SymError, cur, lift
from symnp.harness import Obligation, eq, implies
from props.common import dagger, kron_all, prod

META = {
    "id": "C17",
    "level": "other",
    "files": [],
    "functions": [],
    "explanation": "",
    "bounds": {},
    "trusted_base": [],
    "outside_claim": [],
    "assumptions": [],
}

TOL = Fraction(1, 10 ** 9)

# ================================================================================================
# exact algebraic numbers: constants of Q(i, sqrt2, sqrt3, sqrt5, ...) as Sym over sqrt-of-prime atoms
# ================================================================================================
_MODE = {"exact": False}


@contextlib.contextmanager
def exact_mode(on=True):
    old = _MODE["exact"]
    _MODE["exact"] = on
    try:
        yield
    finally:
        _MODE["exact"] = old


def _active():
    return bool(_CTX) and _MODE["exact"]


def _squarefree(n):
    """n = m*m*k with k squarefree"""
    m, k, p = 1, 1, 2
    while p * p <= n:
        e = 0
        while n % p == 0:
            n //= p
            e += 1
        m *= p ** (e // 2)
        if e % 2:
            k *= p
        p += 1
    return m, k * n


def _prime_factors(k):
    out, p = [], 2
    while k > 1:
        if k % p == 0:
            out.append(p)
            k //= p
        else:
            p += 1
    return out


def _sqrt_bounds(n, digits=14):
    """rational lo < sqrt(n) < hi for a non-square positive integer n"""
    sc = 10 ** digits
    r = math.isqrt(n * sc * sc)
    return Fraction(r, sc), Fraction(r + 1, sc)


def _alg_atom_ids():
    return cur().by_key.setdefault("c17_alg_atoms", {})   # atom id -> prime


def _bound_mono(mono):
    """tell the solver the (1e-14 wide) interval of a product of distinct sqrt(prime) atoms (always true facts)"""
    c = cur()
    done = c.by_key.setdefault("c17_bounded", set())
    if mono in done or not mono:
        return
    ids = _alg_atom_ids()
    if any(a not in ids for a in mono) or len(set(mono)) != len(mono):
        return
    done.add(mono)
    n = 1
    for a in mono:
        n *= ids[a]
    lo, hi = _sqrt_bounds(n)
    v = c.mono_z3(mono)
    c.side.append(z3.And(v > z3.RealVal(str(lo)), v < z3.RealVal(str(hi))))


def _sqrt_prime(p):
    s = lift(p).sqrt()           # core atom: s >= 0, s*s -> p in the normal form
    (mono,) = s.re.t.keys()
    _alg_atom_ids()[mono[0]] = p
    _bound_mono(mono)
    return s


def alg_sqrt(fr):
    """exact sqrt of a non-negative rational as an element of Q(sqrt primes)"""
    fr = Fraction(fr)
    n = fr.numerator * fr.denominator          # sqrt(p/q) = sqrt(p*q)/q
    m, k = _squarefree(n)
    r = lift(Fraction(m, fr.denominator))
    for p in _prime_factors(k):
        r = r * _sqrt_prime(p)
    for mono in r.re.t:
        _bound_mono(mono)
    return AlgSym(r.re, r.im)


def _is_alg_const(x):
    ids = _alg_atom_ids()
    return all(a in ids for a in (x.re.atoms() | x.im.atoms()))


def _flip(x, aid):
    """Galois conjugate sqrt(p) -> -sqrt(p)"""
    def f(p):
        return Poly({m: (-c if m.count(aid) % 2 else c) for m, c in p.t.items()})
    return Sym(f(x.re), f(x.im))


def alg_recip(x):
    """exact inverse of a non-zero constant of Q(i, sqrt primes): multiply by conjugates until rational"""
    if x.im.t:
        n2 = Sym(x.re * x.re + x.im * x.im)
        return x.conjugate() * alg_recip(n2)
    if x.re.is_const():
        v = x.re.cval()
        if v == 0:
            raise ZeroDivisionError("division by exact zero")
        return Sym(Poly.const(1 / v))
    aid = sorted(x.re.atoms())[0]
    xc = _flip(x, aid)
    return xc * alg_recip(x * xc)


class AlgSym(Sym):
    """Sym that stays in the class under arithmetic and whose reciprocal is rationalised when it is an algebraic constant"""

    def recip(self):
        if _CTX and _is_alg_const(self):
            r = alg_recip(self)
            return AlgSym(r.re, r.im)
        return Sym.recip(self)

    def conjugate(self):
        return AlgSym(self.re, -self.im) if self.im.t else self

    conj = conjugate


def _rewrap(name):
    base = getattr(Sym, name)

    def op(self, o):
        r = base(self, o)
        if isinstance(r, Sym) and type(r) is Sym:
            return AlgSym(r.re, r.im)
        return r
    op.__name__ = name
    return op


for _n in ("__add__", "__radd__", "__sub__", "__rsub__", "__mul__", "__rmul__", "__pow__"):
    setattr(AlgSym, _n, _rewrap(_n))
AlgSym.__neg__ = lambda self: AlgSym(-self.re, -self.im)
AlgSym.__truediv__ = lambda self, o: (NotImplemented if _lift_or_none(o) is None else
                                      self * (_as_alg(_lift_or_none(o)).recip()))
AlgSym.__rtruediv__ = lambda self, o: (NotImplemented if _lift_or_none(o) is None else _as_alg(_lift_or_none(o)) * self.recip())
AlgSym.__hash__ = object.__hash__


def _lift_or_none(o):
    try:
        return lift(o)
    except TypeError:
        return None


def _as_alg(x):
    return x if isinstance(x, AlgSym) else AlgSym(x.re, x.im)


def _small_rational(x, maxden=100000):
    """the small rational a double stands for (within 4 ulp), or None"""
    x = float(x)
    if not math.isfinite(x):
        return None
    fr = Fraction(x).limit_denominator(maxden)
    if abs(float(fr) - x) <= 4 * abs(math.ulp(x)):
        return fr
    return None


def c17_sqrt(x, *a, **k):
    """np.sqrt inside toqito modules: a plain non-square rational gives the exact algebraic number"""
    if isinstance(x, Sym) or has_sym(x):
        return _sym_sqrt(x, *a, **k)
    if _active() and not a and not k and isinstance(x, (int, float, np.integer, np.floating)) and not isinstance(x, (bool, np.bool_)):
        fr = _small_rational(x)
        if fr is not None and fr > 0:
            n, d = fr.numerator, fr.denominator
            if not (math.isqrt(n) ** 2 == n and math.isqrt(d) ** 2 == d):
                cur().stubs.add("np.sqrt(q) of a plain non-square rational q: exact algebraic number over sqrt(prime) symbols "
                                "(s*s rewritten to the prime, 1/s rationalised, 1e-14 interval known to the solver)")
                return alg_sqrt(fr)
    return np.sqrt(x, *a, **k)


# twelfth roots of unity: exp(i*pi*k/6) = cos + i sin with values in {0, +-1/2, +-sqrt3/2, +-1}
def _w12(k):
    k %= 12
    half, one = Fraction(1, 2), Fraction(1)
    s3 = None

    def val(code):
        nonlocal s3
        if code == "0":
            return lift(0)
        if code in ("1", "-1"):
            return lift(int(code))
        if code in ("h", "-h"):
            return lift(half if code == "h" else -half)
        if s3 is None:
            s3 = alg_sqrt(3)
        return s3 * half if code == "r" else s3 * (-half)
    cos = ["1", "r", "h", "0", "-h", "-r", "-1", "-r", "-h", "0", "h", "r"][k]
    sin = ["0", "h", "r", "1", "r", "h", "0", "-h", "-r", "-1", "-r", "-h"][k]
    c, s = val(cos), val(sin)
    return AlgSym(c.re, s.re)


def c17_exp(z, *a, **k):
    """exp of a (numerically exact) multiple of 2*pi*i/12 -> exact algebraic number; everything else unchanged"""
    if isinstance(z, Sym) or has_sym(z):
        if isinstance(z, Sym):
            return z.exp()
        return _map(sarr(z), lambda v: lift(v).exp())
    if _active() and not a and not k and isinstance(z, (complex, np.complexfloating, float, int)) and not isinstance(z, bool):
        zc = complex(z)
        if abs(zc.real) <= 1e-12:
            q = zc.imag / (math.pi / 6)
            kk = round(q)
            if abs(q - kk) <= 1e-12:
                cur().stubs.add("exp(2*pi*i*k/12) for a float argument within 1e-12 of the lattice: exact element of Q(i, sqrt3)")
                return _w12(kk)
    if isinstance(z, (complex, float, int)):
        return cmath.exp(z) if isinstance(z, complex) else np.exp(z)
    return np.exp(z, *a, **k)


def c17_norm(x, ord=None, axis=None, keepdims=False):
    """np.linalg.norm of a plain float vector whose squared length is a small rational: exact algebraic number"""
    if has_sym(x):
        return HANDLERS[np.linalg.norm](x, ord=ord, axis=axis, keepdims=keepdims)
    if _active() and ord is None and axis is None and not keepdims:
        v = np.asarray(x)
        if v.dtype.kind in "fiu" and v.ndim == 1:
            tot = Fraction(0)
            ok = True
            for e in v:
                fr = _small_rational(e)
                if fr is None:
                    ok = False
                    break
                tot += fr * fr
            if ok and tot > 0:
                n, d = tot.numerator, tot.denominator
                if not (math.isqrt(n) ** 2 == n and math.isqrt(d) ** 2 == d):
                    cur().stubs.add("np.linalg.norm of a plain rational vector: exact algebraic number")
                    return alg_sqrt(tot)
    return np.linalg.norm(x, ord=ord, axis=axis, keepdims=keepdims)


def _obj_identity(n, *a, **k):
    """np.identity / np.eye as an object array (the code subtracts symbolic matrices from it in place)"""
    if _active() and _MODE.get("objident") and not a and not set(k) - {"dtype"}:
        out = np.empty((n, n), dtype=object)
        for i in range(n):
            for j in range(n):
                out[i, j] = lift(1 if i == j else 0)
        return out.view(SymArray)
    return np.identity(n, *a, **k)


NP_OVERRIDES["sqrt"] = c17_sqrt
NP_OVERRIDES["exp"] = c17_exp
NP_OVERRIDES["identity"] = _obj_identity
NP_OVERRIDES["linalg"] = ModProxy(np.linalg, {"norm": c17_norm})

EXTRA = {"toqito.matrices.gen_pauli_z": {"exp": c17_exp}}


def obligations(tier):
    return []
