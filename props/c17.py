"""C17 Named states and standard matrices satisfy their defining identities."""
from __future__ import annotations

import builtins
import cmath
import contextlib
import itertools
import math
from fractions import Fraction

import numpy as np
import z3

from symnp.array import NP_OVERRIDES, HANDLERS, ModProxy, SymArray, has_sym, sarr, _map, _sym_sqrt
from symnp.core import _CTX, ONE, And, Poly, Sym, SymBool, cur, lift
from symnp.harness import Obligation, eq
from props.common import kron_all

_ST = ["basis", "bb84", "bell", "brauer", "breuer", "chessboard", "dicke", "domino", "gen_bell", "ghz", "gisin", "horodecki", "isotropic",
       "max_entangled", "max_mixed", "mutually_unbiased_basis", "pusey_barrett_rudolph", "singlet", "tile", "trine", "w_state", "werner"]
_MX = ["cnot", "cyclic_permutation_matrix", "fourier", "gell_mann", "gen_gell_mann", "gen_pauli", "gen_pauli_x", "gen_pauli_z", "hadamard",
       "pauli", "standard_basis"]

META = {
    "id": "C17",
    "level": "other",
    "files": [f"toqito/states/{n}.py" for n in _ST] + [f"toqito/matrices/{n}.py" for n in _MX] +
             ["toqito/channels/partial_trace.py", "toqito/channels/partial_transpose.py", "toqito/perms/swap_operator.py", "toqito/perms/swap.py",
              "toqito/perms/permutation_operator.py", "toqito/perms/permute_systems.py", "toqito/perms/symmetric_projection.py",
              "toqito/perms/perfect_matchings.py", "toqito/matrix_ops/tensor.py", "toqito/matrix_ops/vec.py"],
    "functions": [f"toqito.states.{n}" for n in _ST] + [f"toqito.matrices.{n}" for n in _MX],
    "explanation": "Every constructor exported by toqito.states and toqito.matrices is executed (the real code) and its output is compared "
                   "with the documented closed form and with the defining identities, for every index / index pair of the bound. "
                   "(A) Constructors with real parameters (werner, isotropic, horodecki, gisin, pusey_barrett_rudolph, breuer, chessboard, "
                   "ghz / w_state with coefficient vectors) get symbolic parameters: z3 decides entry-wise equality with the closed form "
                   "written with explicit loops for ALL parameter values, unit trace / unit norm (nonlinear arithmetic where a norm is "
                   "divided out), the documented rejections outside [0,1] on every path, and the PPT thresholds by certificate: the "
                   "partial transpose computed by the real partial_transpose equals sum_k lambda_k(alpha) P_k with concrete orthogonal "
                   "projectors, and all lambda_k >= 0 iff alpha <= 1/d (Werner) resp. alpha <= 1/(d+1) (isotropic); Horodecki: "
                   "y*PT(rho_a) = t*(y*a*sum v v^T + u u^T) with y, t > 0, a >= 0 on [0,1] (Gram certificate of positive "
                   "semidefiniteness, sqrt(1-a^2) a symbol with s*s rewritten). sin/cos of the parameter angle are symbols on the unit "
                   "circle (s*s rewritten to 1-c*c, double angle expanded). (B) Parameter-free constructors: inside toqito modules "
                   "np.sqrt(q) of a plain non-square rational, np.linalg.norm of a plain rational vector and exp(2*pi*i*k/12) return "
                   "exact algebraic numbers (polynomials over sqrt(prime) symbols with s*s rewritten to the prime, reciprocals "
                   "rationalised), so the real code computes bell(0), fourier(3), gell_mann(8), dicke(4,2)... over Q(i, sqrt primes) "
                   "and orthonormality, maximally mixed marginals (real partial_trace), trace-orthogonality, the Weyl relation "
                   "Z X = w X Z, F X F^dagger = Z and unitarity are exact identities decided on the normal form / by z3. Where the code "
                   "path cannot be made exact (python float powers in hadamard, rounding in w_state, LAPACK eig in "
                   "mutually_unbiased_basis, fifth roots of unity, double factors such as 1/3) the cfg says 'float-lifted' or "
                   "'algebraic entries with double factors' and the obligation is |residual| <= 1e-9 in exact rational arithmetic over "
                   "the exact binary values of the returned doubles (with 1e-14 enclosures of the sqrt symbols).",
    "bounds": {
        "quick": "d in 2..4 (basis / max_mixed / singlet also 5), qubit counts 1..4, MUB d in {2,3,5}, hadamard n in 0..4, cyclic shift n in "
                 "1..5 with all powers 0..n+1, Pauli strings on 1..2 qubits, brauer (d,p) in {(2,1),(2,2),(3,1),(3,2),(2,3)}, Horodecki 3x3 "
                 "and 2x4, breuer d in {2,4}, PBR n in 1..3, ghz/w coefficient vectors of length 2..4; all index pairs; every real "
                 "parameter value (symbolic)",
        "thorough": "d in 2..6 (d = 5 float-lifted: fifth roots of unity are not in Q(i, sqrt3)), qubit counts 1..5, MUB d = 7, hadamard n = 5, "
                    "Pauli strings on 3 qubits, brauer (4,2),(5,1), breuer d = 6, PBR n = 4",
    },
    "trusted_base": ["numpy object-array semantics = numeric semantics (translator validation per obligation: the symbolic run evaluated "
                     "numerically equals the plain numpy run)",
                     "np.sqrt(q) / np.linalg.norm / exp(2 pi i k/12) on plain doubles denote the exact algebraic number (the double is its "
                     "rounding): overrides registered by props/c17.py through symnp NP_OVERRIDES and a patch of cmath.exp in gen_pauli_z",
                     "trigonometric contract: sin^2 + cos^2 = 1 and the double-angle formulas",
                     "isinstance(alpha, float) is true for a real symbolic scalar (patched name in toqito.states.werner)",
                     "z3 nonlinear real arithmetic for the obligations in mode nra (Werner threshold, Horodecki certificate, unit norm of "
                     "coefficient forms)", "z3 5.1.0"],
    "outside_claim": ["invariance of Werner states under ALL U(x)U and of isotropic states under ALL U(x)conj(U): a consequence of the closed "
                      "forms (I, swap resp. I, |psi+><psi+|) by representation theory, not of toqito's glue code",
                      "fifth (and seventh) roots of unity as exact algebraic numbers: d = 5 is checked float-lifted",
                      "unextendibility of the tile basis (an existence statement); orthonormality and product form are checked",
                      "eigenvectors returned by LAPACK in mutually_unbiased_basis: checked on the returned doubles only",
                      "rounding: np.around is the identity on symbolic values (the symbolic w_state obligations speak about unrounded "
                      "entries; the float-lifted ones about the returned doubles)",
                      "dimensions / qubit counts above the bound"],
    "assumptions": ["floats modelled as reals in the symbolic obligations", "chessboard parameters real (documented type list[float])",
                    "Werner alpha in [-1,1], isotropic alpha in [-1/(d^2-1),1] for the threshold statements (the admissible ranges)"],
}

TOL = Fraction(1, 10 ** 9)

# ================================================================================================
# exact algebraic numbers: constants of Q(i, sqrt2, sqrt3, sqrt5, ...) as Sym over sqrt-of-prime atoms
# ================================================================================================
_MODE = {"exact": False}


@contextlib.contextmanager
def exact_mode(on=True):
    old = _MODE["exact"]
    _MODE["exact"] = on
    try:
        yield
    finally:
        _MODE["exact"] = old


def _active():
    return bool(_CTX) and _MODE["exact"]


def _squarefree(n):
    """n = m*m*k with k squarefree"""
    m, k, p = 1, 1, 2
    while p * p <= n:
        e = 0
        while n % p == 0:
            n //= p
            e += 1
        m *= p ** (e // 2)
        if e % 2:
            k *= p
        p += 1
    return m, k * n


def _prime_factors(k):
    out, p = [], 2
    while k > 1:
        if k % p == 0:
            out.append(p)
            k //= p
        else:
            p += 1
    return out


def _sqrt_bounds(n, digits=14):
    """rational lo < sqrt(n) < hi for a non-square positive integer n"""
    sc = 10 ** digits
    r = math.isqrt(n * sc * sc)
    return Fraction(r, sc), Fraction(r + 1, sc)


def _alg_atom_ids():
    return cur().by_key.setdefault("c17_alg_atoms", {})   # atom id -> prime


def _bound_mono(mono):
    """tell the solver the (1e-14 wide) interval of a product of distinct sqrt(prime) atoms (always true facts)"""
    c = cur()
    done = c.by_key.setdefault("c17_bounded", set())
    if mono in done or not mono:
        return
    ids = _alg_atom_ids()
    if any(a not in ids for a in mono) or len(set(mono)) != len(mono):
        return
    done.add(mono)
    n = 1
    for a in mono:
        n *= ids[a]
    lo, hi = _sqrt_bounds(n)
    v = c.mono_z3(mono)
    c.side.append(z3.And(v > z3.RealVal(str(lo)), v < z3.RealVal(str(hi))))


def _sqrt_prime(p):
    s = lift(p).sqrt()           # core atom: s >= 0, s*s -> p in the normal form
    (mono,) = s.re.t.keys()
    _alg_atom_ids()[mono[0]] = p
    _bound_mono(mono)
    return s


def alg_sqrt(fr):
    """exact sqrt of a non-negative rational as an element of Q(sqrt primes)"""
    fr = Fraction(fr)
    n = fr.numerator * fr.denominator          # sqrt(p/q) = sqrt(p*q)/q
    m, k = _squarefree(n)
    r = lift(Fraction(m, fr.denominator))
    for p in _prime_factors(k):
        r = r * _sqrt_prime(p)
    if k > 1:
        cur().stubs.add("sqrt(q) of a rational constant: exact algebraic number over sqrt(prime) symbols (s*s rewritten to the "
                        "prime, 1/s rationalised, 1e-14 interval known to the solver)")
    for mono in r.re.t:
        _bound_mono(mono)
    return AlgSym(r.re, r.im)


def _norm_poly(p):
    """finish the rewriting s*s -> prime for the sqrt(prime) atoms (core stops after one atom when the radicand is constant)"""
    ids = _alg_atom_ids()
    if not any(len(m) != len(set(m)) for m in p.t):
        return p
    out = {}
    for m, c in p.t.items():
        if len(m) != len(set(m)):
            keep = []
            for a in sorted(set(m)):
                k = m.count(a)
                if a in ids:
                    c = c * ids[a] ** (k // 2)
                    keep += [a] * (k % 2)
                else:
                    keep += [a] * k
            m = tuple(keep)
        v = out.get(m, 0) + c
        if v == 0:
            out.pop(m, None)
        else:
            out[m] = v
    return Poly(out)


def norm_sym(x):
    if not _CTX or "c17_alg_atoms" not in cur().by_key:
        return x
    return type(x)(_norm_poly(x.re), _norm_poly(x.im)) if isinstance(x, Sym) else x


def _is_alg_const(x):
    ids = _alg_atom_ids()
    return all(a in ids for a in (x.re.atoms() | x.im.atoms()))


def _flip(x, aid):
    """Galois conjugate sqrt(p) -> -sqrt(p)"""
    def f(p):
        return Poly({m: (-c if m.count(aid) % 2 else c) for m, c in p.t.items()})
    return Sym(f(x.re), f(x.im))


def alg_recip(x):
    """exact inverse of a non-zero constant of Q(i, sqrt primes): multiply by conjugates until rational"""
    if x.im.t:
        n2 = Sym(x.re * x.re + x.im * x.im)
        return x.conjugate() * alg_recip(n2)
    if x.re.is_const():
        v = x.re.cval()
        if v == 0:
            raise ZeroDivisionError("division by exact zero")
        return Sym(Poly.const(1 / v))
    aid = sorted(x.re.atoms())[0]
    xc = _flip(x, aid)
    return norm_sym(xc * alg_recip(norm_sym(x * xc)))


class AlgSym(Sym):
    """Sym that stays in the class under arithmetic and whose reciprocal is rationalised when it is an algebraic constant"""

    def recip(self):
        if _CTX and _is_alg_const(self):
            r = alg_recip(self)
            return AlgSym(r.re, r.im)
        return Sym.recip(self)

    def conjugate(self):
        return AlgSym(self.re, -self.im) if self.im.t else self

    conj = conjugate


def _rewrap(name):
    base = getattr(Sym, name)

    def op(self, o):
        r = base(self, o)
        if isinstance(r, Sym):
            return AlgSym(_norm_poly(r.re), _norm_poly(r.im)) if _CTX else AlgSym(r.re, r.im)
        return r
    op.__name__ = name
    return op


for _n in ("__add__", "__radd__", "__sub__", "__rsub__", "__mul__", "__rmul__", "__pow__"):
    setattr(AlgSym, _n, _rewrap(_n))
AlgSym.__neg__ = lambda self: AlgSym(-self.re, -self.im)
AlgSym.__truediv__ = lambda self, o: (NotImplemented if _lift_or_none(o) is None else
                                      self * (_as_alg(_lift_or_none(o)).recip()))
AlgSym.__rtruediv__ = lambda self, o: (NotImplemented if _lift_or_none(o) is None else _as_alg(_lift_or_none(o)) * self.recip())
AlgSym.__hash__ = object.__hash__


def _lift_or_none(o):
    try:
        return lift(o)
    except TypeError:
        return None


def _as_alg(x):
    return x if isinstance(x, AlgSym) else AlgSym(x.re, x.im)


def _small_rational(x, maxden=100000):
    """the small rational a double stands for (within 4 ulp), or None"""
    x = float(x)
    if not math.isfinite(x):
        return None
    fr = Fraction(x).limit_denominator(maxden)
    if abs(float(fr) - x) <= 4 * abs(math.ulp(x)):
        return fr
    return None


def c17_sqrt(x, *a, **k):
    """np.sqrt inside toqito modules: a plain non-square rational gives the exact algebraic number"""
    if isinstance(x, Sym) or has_sym(x):
        return _sym_sqrt(x, *a, **k)
    if _active() and not a and not k and isinstance(x, (int, float, np.integer, np.floating)) and not isinstance(x, (bool, np.bool_)):
        fr = _small_rational(x)
        if fr is not None and fr > 0:
            n, d = fr.numerator, fr.denominator
            if not (math.isqrt(n) ** 2 == n and math.isqrt(d) ** 2 == d):
                cur().stubs.add("np.sqrt(q) of a plain non-square rational q: exact algebraic number over sqrt(prime) symbols "
                                "(s*s rewritten to the prime, 1/s rationalised, 1e-14 interval known to the solver)")
                return alg_sqrt(fr)
    return np.sqrt(x, *a, **k)


# twelfth roots of unity: exp(i*pi*k/6) = cos + i sin with values in {0, +-1/2, +-sqrt3/2, +-1}
def _w12(k):
    k %= 12
    half = Fraction(1, 2)
    s3 = None

    def val(code):
        nonlocal s3
        if code == "0":
            return lift(0)
        if code in ("1", "-1"):
            return lift(int(code))
        if code in ("h", "-h"):
            return lift(half if code == "h" else -half)
        if s3 is None:
            s3 = alg_sqrt(3)
        return s3 * half if code == "r" else s3 * (-half)
    cos = ["1", "r", "h", "0", "-h", "-r", "-1", "-r", "-h", "0", "h", "r"][k]
    sin = ["0", "h", "r", "1", "r", "h", "0", "-h", "-r", "-1", "-r", "-h"][k]
    c, s = val(cos), val(sin)
    return AlgSym(c.re, s.re)


def c17_exp(z, *a, **k):
    """exp of a (numerically exact) multiple of 2*pi*i/12 -> exact algebraic number; everything else unchanged"""
    if isinstance(z, Sym) or has_sym(z):
        if isinstance(z, Sym):
            return z.exp()
        return _map(sarr(z), lambda v: lift(v).exp())
    if _active() and not a and not k and isinstance(z, (complex, np.complexfloating, float, int)) and not isinstance(z, bool):
        zc = complex(z)
        if abs(zc.real) <= 1e-12:
            q = zc.imag / (math.pi / 6)
            kk = round(q)
            if abs(q - kk) <= 1e-12:
                cur().stubs.add("exp(2*pi*i*k/12) for a float argument within 1e-12 of the lattice: exact element of Q(i, sqrt3)")
                return _w12(kk)
    if isinstance(z, (complex, float, int)):
        return cmath.exp(z) if isinstance(z, complex) else np.exp(z)
    return np.exp(z, *a, **k)


def c17_norm(x, ord=None, axis=None, keepdims=False):
    """np.linalg.norm of a plain float vector whose squared length is a small rational: exact algebraic number"""
    if has_sym(x):
        flat = list(np.asarray(x, dtype=object).flat)
        if _active() and ord is None and axis is None and np.ndim(x) == 1 and all(lift(v).is_const() and not lift(v).im.t for v in flat):
            tot = sum((lift(v).re.cval() ** 2 for v in flat), Fraction(0))
            return alg_sqrt(tot)
        return HANDLERS[np.linalg.norm](x, ord=ord, axis=axis, keepdims=keepdims)
    if _active() and ord is None and axis is None and not keepdims:
        v = np.asarray(x)
        if v.dtype.kind in "fiu" and v.ndim == 1:
            tot = Fraction(0)
            ok = True
            for e in v:
                fr = _small_rational(e)
                if fr is None:
                    ok = False
                    break
                tot += fr * fr
            if ok and tot > 0:
                n, d = tot.numerator, tot.denominator
                if not (math.isqrt(n) ** 2 == n and math.isqrt(d) ** 2 == d):
                    cur().stubs.add("np.linalg.norm of a plain rational vector: exact algebraic number")
                    return alg_sqrt(tot)
    return np.linalg.norm(x, ord=ord, axis=axis, keepdims=keepdims)


def _obj_identity(n, *a, **k):
    """np.identity / np.eye as an object array (the code subtracts symbolic matrices from it in place)"""
    if _active() and _MODE.get("objident") and not a and not set(k) - {"dtype"}:
        out = np.empty((n, n), dtype=object)
        for i in range(n):
            for j in range(n):
                out[i, j] = lift(1 if i == j else 0)
        return out.view(SymArray)
    return np.identity(n, *a, **k)


NP_OVERRIDES["sqrt"] = c17_sqrt
NP_OVERRIDES["exp"] = c17_exp
NP_OVERRIDES["identity"] = _obj_identity
NP_OVERRIDES["linalg"] = ModProxy(np.linalg, {"norm": c17_norm})

EXTRA = {"toqito.matrices.gen_pauli_z": {"exp": c17_exp}}




# ================================================================================================
# trigonometric contract: sin/cos of a registered base angle are symbols on the unit circle
# ================================================================================================
def trig_base(x):
    """register x as base angle: (cos x, sin x) = (c, s) with s*s rewritten to 1 - c*c; sin 2x = 2sc, cos 2x = c*c - s*s"""
    c = cur()
    reg = c.by_key.setdefault("c17_trig", {})
    x = lift(x)
    k = x.key()
    if k in reg or x.is_const():
        return
    ca = c.new_atom("cos", "uf", key=("c17cos", k))
    sa = c.new_atom("sin", "uf", key=("c17sin", k))
    p = x.re
    ca.evalf = lambda vals, p=p: math.cos(float(p.evalf(vals)))
    sa.evalf = lambda vals, p=p: math.sin(float(p.evalf(vals)))
    rew = c.by_key.setdefault("rewrites", {})
    rew[sa.id] = ONE - Poly.atom(ca.id) * Poly.atom(ca.id)
    c.side.append(z3.And(ca.z3 >= -1, ca.z3 <= 1, sa.z3 >= -1, sa.z3 <= 1))
    c.stubs.add("sin/cos of the parameter angle: symbols (c, s) with s*s rewritten to 1 - c*c; double angle sin 2x = 2sc, "
                "cos 2x = c*c - s*s (trigonometric contract)")
    reg[k] = (Sym(Poly.atom(ca.id)), Sym(Poly.atom(sa.id)))


def _trig_lookup(x):
    reg = cur().by_key.get("c17_trig", {}) if _CTX else {}
    if not reg or not isinstance(x, Sym):
        return None
    k = x.key()
    if k in reg:
        return reg[k]
    h = (x * Fraction(1, 2)).key()
    if h in reg:
        c, s = reg[h]
        return (c * c - s * s, 2 * s * c)
    return None


def _mk_trig(fname, idx):
    def f(x, *a, **k):
        if isinstance(x, Sym):
            r = _trig_lookup(x)
            if r is not None:
                return r[idx]
            return getattr(x, fname)()
        if has_sym(x):
            return _map(sarr(x), lambda v: f(lift(v)))
        return getattr(np, fname)(x, *a, **k)
    return f


NP_OVERRIDES["cos"] = _mk_trig("cos", 0)
NP_OVERRIDES["sin"] = _mk_trig("sin", 1)


def cs(x):
    """(cos x, sin x) for the oracle: the registered symbols, or numbers"""
    if isinstance(x, Sym):
        r = _trig_lookup(x)
        if r is not None:
            return r
        return x.cos(), x.sin()
    return math.cos(x), math.sin(x)


# ================================================================================================
# polymorphic helpers (symbolic constants / plain numbers)
# ================================================================================================
def rt(n):
    """sqrt(n): exact algebraic number under a solver context, a double otherwise"""
    return alg_sqrt(n) if (_CTX and _MODE["exact"]) else math.sqrt(n)


def fr(p, q=1):
    return Fraction(p, q) if _CTX else p / q


def cj(x):
    return x.conjugate()


def iszero(x):
    if isinstance(x, Sym):
        return not x.re.t and not x.im.t
    return x == 0


def inner(u, v):
    tot = 0
    for a, b in zip(np.asarray(u).flat, np.asarray(v).flat):
        if iszero(a) or iszero(b):
            continue
        tot = tot + cj(a) * b
    return tot


def gram(vs):
    n = len(vs)
    out = np.empty((n, n), dtype=object)
    for i in range(n):
        for j in range(n):
            out[i, j] = inner(vs[i], vs[j])
    return out


def absq(a):
    """entry-wise |x|^2"""
    a = np.asarray(a, dtype=object)
    out = np.empty(a.shape, dtype=object)
    for idx in np.ndindex(a.shape):
        x = a[idx]
        v = x * cj(x)
        out[idx] = v.real if not isinstance(v, (int, Fraction)) else v
    return out


def mm(A, B):
    """matrix product with explicit loops that skip zeros"""
    A, B = np.asarray(A, dtype=object), np.asarray(B, dtype=object)
    n, k = A.shape
    k2, m = B.shape
    assert k == k2
    rowsB = [[(j, B[l, j]) for j in range(m) if not iszero(B[l, j])] for l in range(k)]
    out = np.empty((n, m), dtype=object)
    for i in range(n):
        acc = {}
        for l in range(k):
            a = A[i, l]
            if iszero(a):
                continue
            for j, b in rowsB[l]:
                acc[j] = acc[j] + a * b if j in acc else a * b
        for j in range(m):
            out[i, j] = acc.get(j, 0)
    return out


def dag(A):
    A = np.asarray(A, dtype=object)
    out = np.empty(A.shape[::-1], dtype=object)
    for i in range(A.shape[0]):
        for j in range(A.shape[1]):
            out[j, i] = cj(A[i, j])
    return out


def ex(x):
    """doubles / ints as exact rationals (under a solver context) so that products with Fractions stay exact"""
    if _CTX and isinstance(x, (int, float, np.integer, np.floating)) and not isinstance(x, (bool, np.bool_)):
        return Fraction(x)
    return x


def scale(c, A):
    A = np.asarray(A, dtype=object)
    out = np.empty(A.shape, dtype=object)
    c = ex(c)
    for idx in np.ndindex(A.shape):
        out[idx] = 0 if iszero(A[idx]) else c * ex(A[idx])
    return out


def sub(A, B):
    A, B = np.asarray(A, dtype=object), np.asarray(B, dtype=object)
    assert A.shape == B.shape
    out = np.empty(A.shape, dtype=object)
    for idx in np.ndindex(A.shape):
        out[idx] = ex(A[idx]) - ex(B[idx])
    return out


def tr(A):
    A = np.asarray(A, dtype=object)
    tot = 0
    for i in range(A.shape[0]):
        tot = tot + A[i, i]
    return tot


def cell(x):
    a = np.empty((1,), dtype=object)
    a[0] = x
    return a


def dense(x):
    return x.toarray() if hasattr(x, "toarray") else x


def shape_arr(x):
    return np.asarray(np.shape(x))


def ident(n):
    return np.identity(n)


def unit_vec(n, k):
    v = np.zeros((n, 1))
    v[k, 0] = 1
    return v


def swap_mat(d):
    """W|i,j> = |j,i> written out"""
    W = np.zeros((d * d, d * d))
    for i in range(d):
        for j in range(d):
            W[j * d + i, i * d + j] = 1
    return W


def maxent_proj(d):
    """|psi+><psi+| with psi+ = sum_i |ii>/sqrt(d): entries 1/d"""
    P = np.zeros((d * d, d * d), dtype=object)
    for i in range(d):
        for j in range(d):
            P[i * d + i, j * d + j] = Fraction(1, d) if _CTX else 1 / d
    return P


def pt_own(M, dA, dB, which):
    """partial transpose written out: which=1 transposes the second factor"""
    M = np.asarray(M, dtype=object)
    out = np.empty(M.shape, dtype=object)
    for i in range(dA):
        for j in range(dB):
            for k in range(dA):
                for l in range(dB):
                    if which == 1:
                        out[i * dB + l, k * dB + j] = M[i * dB + j, k * dB + l]
                    else:
                        out[k * dB + j, i * dB + l] = M[i * dB + j, k * dB + l]
    return out


# ---- comparison ---------------------------------------------------------------------------------
_TOLZ = z3.RealVal(str(TOL))


def _zero(d, how):
    r = SymBool(True)
    for p in (d.re, d.im):
        if p.is_zero():
            continue
        if how == "exact":
            if p.is_const():
                return SymBool(False)
            r = r & SymBool(p.to_z3() == 0)
        else:
            if p.is_const():
                if abs(p.cval()) > TOL:
                    return SymBool(False)
            else:
                for m in p.t:
                    _bound_mono(m)
                z = p.to_z3()
                r = r & SymBool(z3.And(z <= _TOLZ, z >= -_TOLZ))
    return r


def near(a, b, how):
    """exact: equal as algebraic numbers (decided on the normal form / by z3); tol: |difference| <= 1e-9 in re and im"""
    if isinstance(a, (list, tuple)) and isinstance(b, (list, tuple)):
        if len(a) != len(b):
            return False
        r = True
        for x, y in zip(a, b):
            e = near(x, y, how)
            if isinstance(e, bool):
                if not e:
                    return False
                continue
            if e.const is False:
                return False
            r = e if r is True else r & e
        return r
    A, B = np.asarray(dense(a), dtype=object), np.asarray(dense(b), dtype=object)
    if A.shape != B.shape:
        return False
    if not _CTX:
        return bool(np.allclose(A.astype(complex), B.astype(complex), rtol=0, atol=1e-9))
    conj = []
    for x, y in zip(A.flat, B.flat):
        d = norm_sym(lift(x) - lift(y))
        z = _zero(d, how)
        if z.const is False:
            return SymBool(False)
        if z.const is None:
            conj.append(z)
    return And(*conj)


def _neg(exp):
    """wrong oracle for the negative control: first cell of the first array off by one"""
    if isinstance(exp, (list, tuple)):
        return [_neg(exp[0])] + list(exp[1:])
    a = np.array(np.asarray(dense(exp), dtype=object), dtype=object, copy=True)
    a.flat[0] = a.flat[0] + 1
    return a


LIFTING = {"exact": "exact-algebraic (real code run over Q(i, sqrt primes); identities exact)",
           "mixed": "algebraic entries with double factors such as 1/3: |residual| <= 1e-9 decided over the exact values",
           "float": "float-lifted: |residual| <= 1e-9 over the exact binary rationals of the returned doubles"}


def cob(name, cfg, call, expect, how="exact", objzeros=(), weight=1, exc_post=None, extra=None, flags=None, post=None):
    """obligation about a parameter-free constructor family"""
    cfg = dict(cfg)
    cfg["lifting"] = LIFTING[how].split(":")[0].split(" (")[0]
    ex = dict(EXTRA)
    if extra:
        ex.update(extra)

    def build(b):
        return {}

    def _call(i):
        with exact_mode(how != "float"):
            return call()

    def _oracle(i):
        with exact_mode(how != "float"):
            return expect()

    def _post(res, exp, i):
        return near(res, exp, how)
    return Obligation(name, cfg, build, _call, _oracle if expect is not None else None, post=post or _post, neg=_neg,
                      objzeros=objzeros, extra_patch=ex, weight=weight, exc_post=exc_post,
                      neg_control=expect is not None)


def pob(name, cfg, build, call, oracle, extra=None, flags=(), **kw):
    """obligation with symbolic parameters; exact algebraic constants switched on"""
    ex = dict(EXTRA)
    if extra:
        ex.update(extra)

    def _call(i):
        with exact_mode(True):
            old = {f: _MODE.get(f) for f in flags}
            for f in flags:
                _MODE[f] = True
            try:
                return call(i)
            finally:
                _MODE.update(old)

    def _oracle(i):
        with exact_mode(True):
            return oracle(i)
    return Obligation(name, cfg, build, _call, _oracle if oracle is not None else None, extra_patch=ex, **kw)


def rejects(name, cfg, f, exc=ValueError):
    """documented rejection: the call must raise `exc`"""
    def build(b):
        return {}

    def call(i):
        return f()

    def exc_post(e, i):
        return isinstance(e, exc)

    def post(res, exp, i):
        return False
    return Obligation(name, cfg, build, call, None, post=post, exc_post=exc_post, neg_control=False, extra_patch=dict(EXTRA))


# ================================================================================================
# (B) parameter-free states
# ================================================================================================
def _imports():
    import toqito.states as S
    import toqito.matrices as Mx
    from toqito.channels import partial_trace, partial_transpose
    return S, Mx, partial_trace, partial_transpose


def outer(v):
    v = np.asarray(v, dtype=object).reshape(-1, 1)
    return mm(v, dag(v))


def marginals(rho, d, partial_trace):
    """both reduced states through the real partial_trace"""
    return [np.asarray(partial_trace(rho, [0], [d, d])), np.asarray(partial_trace(rho, [1], [d, d]))]


def view(a):
    """object array -> SymArray when it holds symbols (so that toqito code sees an ndarray it can dispatch on)"""
    a = np.asarray(a)
    if a.dtype == object:
        if has_sym(a):
            return a.view(SymArray)
        return a.astype(complex) if any(isinstance(x, complex) for x in a.flat) else a.astype(float)
    return a


def ob_basis(d):
    from toqito.states import basis
    from toqito.matrices import standard_basis

    def call():
        vs = [basis(d, p) for p in range(d)]
        sb = standard_basis(d)
        sbf = standard_basis(d, flatten=True)
        return [np.hstack(vs), np.hstack(sb), np.stack(sbf, axis=1), shape_arr(vs[0]), shape_arr(sb[0]), shape_arr(sbf[0]),
                np.asarray([len(sb), len(sbf)])]

    def expect():
        return [ident(d), ident(d), ident(d), np.asarray((d, 1)), np.asarray((d, 1)), np.asarray((d,)), np.asarray([d, d])]
    return cob("basis_and_standard_basis.are_the_canonical_kets", {"d": d}, call, expect)


def ob_bb84():
    from toqito.states import bb84

    def call():
        (e0, e1), (ep, em) = bb84()
        vs = [e0, e1, ep, em]
        return [absq(gram(vs)), np.hstack([e0, e1]), scale(rt(2), np.hstack([ep, em]))]

    def expect():
        h = fr(1, 2)
        return [np.array([[1, 0, h, h], [0, 1, h, h], [h, h, 1, 0], [h, h, 0, 1]], dtype=object), ident(2),
                np.array([[1, 1], [1, -1]])]
    return cob("bb84.two_orthonormal_mutually_unbiased_bases", {}, call, expect)


def ob_bell():
    S, Mx, partial_trace, _ = _imports()

    def call():
        us = [S.bell(k) for k in range(4)]
        res = [gram(us), scale(rt(2), np.hstack(us))]
        for u in us:
            res += marginals(view(outer(u)), 2, partial_trace)
        res.append(shape_arr(us[0]))
        return res

    def expect():
        closed = np.array([[1, 1, 0, 0], [0, 0, 1, 1], [0, 0, 1, -1], [1, -1, 0, 0]])
        return [ident(4), closed] + [scale(fr(1, 2), ident(2))] * 8 + [np.asarray((4, 1))]
    return cob("bell.orthonormal_basis_closed_form_maximally_mixed_marginals", {}, call, expect)


def ob_gen_bell(d, how):
    S, Mx, partial_trace, _ = _imports()

    def call():
        Gs = [np.asarray(S.gen_bell(k1, k2, d)) for k1 in range(d) for k2 in range(d)]
        n = len(Gs)
        hs = np.empty((n, n), dtype=object)
        for a in range(n):
            for b in range(n):
                hs[a, b] = inner(Gs[a], Gs[b])       # Tr(G_a^dagger G_b) = |<phi_a|phi_b>|^2
        res = [hs, np.asarray([tr(G) for G in Gs], dtype=object)]
        proj, herm, marg = [], [], []
        for G in Gs:
            proj.append(sub(mm(G, G), G))
            herm.append(sub(G, dag(G)))
            marg += marginals(view(G), d, partial_trace)
        return res + [np.stack(proj), np.stack(herm), np.stack([np.asarray(m, dtype=object) for m in marg])]

    def expect():
        n = d * d
        z = np.zeros((n, n, n))
        return [ident(n), np.ones(n), z, z, np.stack([scale(fr(1, d), ident(d))] * (2 * n))]
    return cob("gen_bell.orthonormal_basis_of_maximally_entangled_projectors", {"d": d}, call, expect, how, weight=d ** 3)


def ob_gen_bell_is_bell():
    from toqito.states import bell, gen_bell

    def call():
        return [np.stack([np.asarray(gen_bell(k1, k2, 2)) for k1 in range(2) for k2 in range(2)])]

    def expect():
        return [np.stack([outer(bell(k)) for k in range(4)])]
    return cob("gen_bell.dimension_two_recovers_the_bell_states_as_documented", {}, call, expect)


def ob_max_entangled(d):
    S, Mx, partial_trace, _ = _imports()

    def call():
        v = S.max_entangled(d)
        w = S.max_entangled(d, False, False)
        return [scale(rt(d), v), cell(inner(v, v)), w, shape_arr(v)] + marginals(view(outer(v)), d, partial_trace)

    def expect():
        ind = np.zeros((d * d, 1))
        for i in range(d):
            ind[i * d + i, 0] = 1
        return [ind, cell(1), ind, np.asarray((d * d, 1))] + [scale(fr(1, d), ident(d))] * 2
    return cob("max_entangled.closed_form_norm_and_maximally_mixed_marginals", {"d": d}, call, expect)


def ob_max_entangled_sparse(d):
    from toqito.states import max_entangled

    def call():
        return [dense(max_entangled(d, True, True)), dense(max_entangled(d, True, False))]

    def expect():
        return [max_entangled(d, False, True), max_entangled(d, False, False)]
    return cob("max_entangled.sparse_form_equals_dense_form", {"d": d}, call, expect, "float")


def ob_max_mixed(d):
    from toqito.states import max_mixed
    how = "exact" if d & (d - 1) == 0 else "float"

    def call():
        r = max_mixed(d)
        return [r, cell(tr(r)), dense(max_mixed(d, is_sparse=True))]

    def expect():
        return [scale(fr(1, d), ident(d)), cell(1), scale(fr(1, d), ident(d))]
    return cob("max_mixed.is_identity_over_d", {"d": d}, call, expect, how)


def ghz_index(d, n, i):
    return sum(i * d ** k for k in range(n))


def ob_ghz(d, n):
    from toqito.states import ghz

    def call():
        v = ghz(d, n)
        return [scale(rt(d), v), cell(inner(v, v)), shape_arr(v)]

    def expect():
        ind = np.zeros((d ** n, 1))
        for i in range(d):
            idx = 0
            for _ in range(n):
                idx = idx * d + i          # |i,i,...,i>
            ind[idx, 0] = 1
        return [ind, cell(1), np.asarray((d ** n, 1))]
    return cob("ghz.default_is_equal_superposition_of_the_d_diagonal_kets", {"d": d, "parties": n}, call, expect,
               objzeros=("toqito.states.ghz",))


def popcount(x):
    return bin(x).count("1")


def ob_dicke(n, k):
    from toqito.states import dicke
    N = math.comb(n, k)

    def perm_index(idx, a, b):
        """index after swapping qubits a and b"""
        ba, bb = (idx >> a) & 1, (idx >> b) & 1
        if ba != bb:
            idx ^= (1 << a) | (1 << b)
        return idx

    def call():
        v = dicke(n, k)
        dm = dicke(n, k, return_dm=True)
        res = [scale(rt(N), v), cell(inner(v, v)), sub(np.asarray(dm, dtype=object), outer(v)), shape_arr(v)]
        va = np.asarray(v, dtype=object)
        for a in range(n - 1):              # adjacent transpositions generate the symmetric group
            pv = np.empty(va.shape, dtype=object)
            for idx in range(2 ** n):
                pv[perm_index(idx, a, a + 1)] = va[idx]
            res.append(sub(pv, va))
        return res

    def expect():
        ind = np.array([1.0 if popcount(i) == k else 0.0 for i in range(2 ** n)])
        z = np.zeros(2 ** n)
        return [ind, cell(1), np.zeros((2 ** n, 2 ** n)), np.asarray((2 ** n,))] + [z] * (n - 1)
    return cob("dicke.weight_k_support_equal_amplitudes_permutation_symmetric", {"qubits": n, "excitations": k}, call, expect,
               objzeros=("toqito.states.dicke",), weight=2 ** n // 4)


def ob_w_state(n):
    from toqito.states import w_state

    def call():
        return [w_state(n)]

    def post(res, exp, i):
        """support {2^i}, equal amplitudes (permutation symmetry), amplitude = 1/sqrt(n) up to the documented 4 decimals"""
        if exp is not None:   # negative control
            return near(res, exp, "float")
        w = np.asarray(res[0])
        if w.shape != (2 ** n, 1):
            return False
        vals = [Fraction(float(x)) for x in w[:, 0]]
        amp = vals[1]
        ok = amp > 0
        for idx, v in enumerate(vals):
            ok = ok and (v == amp if popcount(idx) == 1 else v == 0)
        dl = Fraction(51, 10 ** 6)
        ok = ok and (amp - dl) ** 2 * n <= 1 <= (amp + dl) ** 2 * n
        return bool(ok)
    o = cob("w_state.single_excitation_support_equal_amplitudes_4_decimals", {"qubits": n}, call, None, "float", post=post)
    return o


def ob_w_state_norm(n):
    from toqito.states import w_state

    def call():
        w = w_state(n)
        return [cell(inner(w, w))]

    def expect():
        return [cell(1)]
    return cob("w_state.has_unit_norm", {"qubits": n}, call, expect, "float")


_DOMINO = [((0, 1, 0), (0, 1, 0), 1), ((1, 0, 0), (1, 1, 0), 2), ((1, 0, 0), (1, -1, 0), 2), ((0, 0, 1), (0, 1, 1), 2),
           ((0, 0, 1), (0, 1, -1), 2), ((0, 1, 1), (1, 0, 0), 2), ((0, 1, -1), (1, 0, 0), 2), ((1, 1, 0), (0, 0, 1), 2),
           ((1, -1, 0), (0, 0, 1), 2)]
_TILE = [((1, 0, 0), (1, -1, 0), 2), ((1, -1, 0), (0, 0, 1), 2), ((0, 0, 1), (0, 1, -1), 2), ((0, 1, -1), (1, 0, 0), 2),
         ((1, 1, 1), (1, 1, 1), 9)]


def ob_product_basis(which):
    from toqito.states import domino, tile
    f, table = (domino, _DOMINO) if which == "domino" else (tile, _TILE)
    how = "exact" if which == "domino" else "mixed"

    def call():
        vs = [f(k) for k in range(len(table))]
        scaled = [scale(rt(sq), v) if math.isqrt(sq) ** 2 != sq else scale(math.isqrt(sq), v) for v, (_, _, sq) in zip(vs, table)]
        return [gram(vs), np.hstack(scaled), shape_arr(vs[0])]

    def expect():
        cols = [np.kron(np.array(a).reshape(3, 1), np.array(b).reshape(3, 1)) for a, b, _ in table]
        return [ident(len(table)), np.hstack(cols), np.asarray((9, 1))]
    return cob(f"{which}.orthonormal_product_states", {}, call, expect, how)


def ob_trine():
    from toqito.states import trine

    def call():
        us = trine()
        frame = None
        for u in us:
            o = outer(u)
            frame = o if frame is None else frame + o
        return [gram(us), frame, np.hstack([us[0], scale(-2, us[1]), scale(-2, us[2])])]

    def expect():
        h = fr(-1, 2)
        s3 = rt(3)
        closed = np.empty((2, 3), dtype=object)
        closed[0, :] = [1, 1, 1]
        closed[1, :] = [0, s3, -s3]
        return [np.array([[1, h, h], [h, 1, h], [h, h, 1]], dtype=object), scale(fr(3, 2), ident(2)), closed]
    return cob("trine.three_unit_vectors_at_120_degrees_tight_frame", {}, call, expect)


def ob_singlet(d):
    from toqito.states import singlet, bell
    how = "exact" if d == 2 else "float"

    def call():
        s = singlet(d)
        res = [scale(d * d - d, s), cell(tr(s))]
        if d == 2:
            res.append(sub(np.asarray(s, dtype=object), outer(bell(3))))
        return res

    def expect():
        return [sub(ident(d * d), swap_mat(d)), cell(1)] + ([np.zeros((4, 4))] if d == 2 else [])
    return cob("singlet.is_normalised_antisymmetric_projector", {"d": d}, call, expect, how)


def all_matchings(items):
    if not items:
        yield []
        return
    a = items[0]
    for k in range(1, len(items)):
        b = items[k]
        rest = items[1:k] + items[k + 1:]
        for m in all_matchings(rest):
            yield [(a, b)] + m


def ob_brauer(d, p):
    from toqito.states import brauer

    def call():
        B = brauer(d, p)
        cols = {tuple(int(round(float(x))) for x in B[:, c]) for c in range(B.shape[1])}
        want = set()
        for m in all_matchings(list(range(2 * p))):
            col = []
            for multi in itertools.product(range(d), repeat=2 * p):
                col.append(1 if all(multi[a] == multi[b] for a, b in m) else 0)
            want.add(tuple(col))
        # every column is (exactly) the unnormalised state of one perfect matching, every matching occurs once
        exactness = np.asarray([float(np.max(np.abs(B - np.round(B))))])
        return [np.asarray([B.shape[0], B.shape[1], len(cols), len(cols & want), len(want)]), exactness]

    def expect():
        n = math.factorial(2 * p) // (math.factorial(p) * 2 ** p)
        return [np.asarray([d ** (2 * p), n, n, n, n]), np.asarray([0.0])]
    return cob("brauer.columns_are_the_perfect_matching_states_each_once", {"d": d, "p": p}, call, expect)


def ob_mub(d):
    from toqito.states import mutually_unbiased_basis

    def call():
        vs = mutually_unbiased_basis(d)
        return [np.asarray([len(vs)]), absq(gram(vs))]

    def expect():
        n = d * (d + 1)
        G = np.empty((n, n), dtype=object)
        for a in range(n):
            for b in range(n):
                G[a, b] = (1 if a == b else 0) if a // d == b // d else fr(1, d)
        return [np.asarray([n]), G]
    return cob("mutually_unbiased_basis.orthonormal_within_unbiased_across", {"d": d}, call, expect, "float", weight=d * d)


# ================================================================================================
# (B) standard matrices
# ================================================================================================
def hs_gram(Ms):
    n = len(Ms)
    out = np.empty((n, n), dtype=object)
    for a in range(n):
        for b in range(n):
            out[a, b] = inner(Ms[a], Ms[b])
    return out


def omega(d):
    """primitive d-th root of unity exp(2 pi i / d) for the oracle"""
    if _CTX and _MODE["exact"] and 12 % d == 0:
        return _w12(12 // d)
    return cmath.exp(2j * cmath.pi / d)


def wpow(w, k):
    r = 1
    for _ in range(k):
        r = r * w
    return r


PAULI_CLOSED = {0: [[1, 0], [0, 1]], 1: [[0, 1], [1, 0]], 2: [[0, -1j], [1j, 0]], 3: [[1, 0], [0, -1]]}


def ob_pauli_single():
    from toqito.matrices import pauli

    def call():
        P = [np.asarray(pauli(k)) for k in range(4)]
        names = [np.asarray(pauli(s)) for s in ["I", "X", "Y", "Z", "x", "y", "z"]]
        sp = [dense(pauli(k, True)) for k in range(4)]
        alg = [sub(mm(P[1], P[2]), scale(1j, P[3])), sub(mm(P[2], P[3]), scale(1j, P[1])), sub(mm(P[3], P[1]), scale(1j, P[2]))]
        return [hs_gram(P), np.stack(P), np.stack(names), np.stack(sp), np.stack([mm(p, p) for p in P]), np.stack(alg)]

    def expect():
        C = [np.array(PAULI_CLOSED[k]) for k in range(4)]
        return [scale(2, ident(2 * 2)), np.stack(C), np.stack([C[0], C[1], C[2], C[3], C[1], C[2], C[3]]), np.stack(C),
                np.stack([ident(2)] * 4), np.zeros((3, 2, 2))]
    return cob("pauli.closed_forms_trace_orthogonal_and_algebra", {}, call, expect)


def ob_pauli_strings(n):
    from toqito.matrices import pauli

    def call():
        idxs = list(itertools.product(range(4), repeat=n))
        Ps = [np.asarray(pauli(list(ix))) for ix in idxs]
        return [hs_gram(Ps), np.stack(Ps)]

    def expect():
        idxs = list(itertools.product(range(4), repeat=n))
        own = [kron_all([np.array(PAULI_CLOSED[k]) for k in ix]) for ix in idxs]
        return [scale(2 ** n, ident(4 ** n)), np.stack(own)]
    return cob("pauli.n_qubit_strings_are_tensor_products_and_trace_orthogonal", {"qubits": n}, call, expect, weight=4 ** n)


def ob_pauli_sparse_string(ix):
    """is_sparse=True with a list of indices: the same operator as the dense form"""
    from toqito.matrices import pauli

    def call():
        return [np.asarray(dense(pauli(list(ix), True)))]

    def expect():
        return [kron_all([np.array(PAULI_CLOSED[k]) for k in ix])]
    return cob("pauli.sparse_string_equals_dense_string", {"indices": list(ix)}, call, expect)


def ob_weyl(d, how):
    """clock/shift closed forms, Weyl relation, Fourier intertwiner, unitarity"""
    from toqito.matrices import fourier, gen_pauli_x, gen_pauli_z

    def call():
        X, Z, F = np.asarray(gen_pauli_x(d)), np.asarray(gen_pauli_z(d)), np.asarray(fourier(d))
        w = omega(d)
        Fd = dag(F)
        return [X, Z, scale(rt(d), F), sub(mm(Z, X), scale(w, mm(X, Z))), sub(mm(mm(F, X), Fd), Z), mm(F, Fd), mm(X, dag(X)),
                mm(Z, dag(Z)), shape_arr(F)]

    def expect():
        w = omega(d)
        Xc = np.zeros((d, d))
        Zc = np.zeros((d, d), dtype=object)
        Fc = np.empty((d, d), dtype=object)
        for j in range(d):
            Xc[(j + 1) % d, j] = 1            # X|j> = |j+1 mod d>
            Zc[j, j] = wpow(w, j)             # Z|j> = w^j |j>
            for k in range(d):
                Fc[j, k] = wpow(w, (j * k) % d)
        z = np.zeros((d, d))
        return [Xc, Zc, Fc, z, z, ident(d), ident(d), ident(d), np.asarray((d, d))]
    return cob("clock_shift_fourier.closed_forms_weyl_relation_intertwiner_unitarity", {"d": d}, call, expect, how)


def ob_gen_pauli(d, how):
    from toqito.matrices import gen_pauli, gen_pauli_x, gen_pauli_z

    def call():
        Ws = [np.asarray(gen_pauli(k1, k2, d)) for k1 in range(d) for k2 in range(d)]
        X, Z = np.asarray(gen_pauli_x(d)), np.asarray(gen_pauli_z(d))
        own = []
        for k1 in range(d):
            for k2 in range(d):
                m = ident(d)
                for _ in range(k1):
                    m = mm(m, X)
                for _ in range(k2):
                    m = mm(m, Z)
                own.append(m)
        return [hs_gram(Ws), np.stack([sub(a, b) for a, b in zip(Ws, own)]), np.stack([mm(W, dag(W)) for W in Ws])]

    def expect():
        n = d * d
        return [scale(d, ident(n)), np.zeros((n, d, d)), np.stack([ident(d)] * n)]
    return cob("gen_pauli.is_X_pow_k1_Z_pow_k2_unitary_trace_orthogonal_basis", {"d": d}, call, expect, how, weight=d ** 3)


GM_CLOSED = [
    [[1, 0, 0], [0, 1, 0], [0, 0, 1]], [[0, 1, 0], [1, 0, 0], [0, 0, 0]], [[0, -1j, 0], [1j, 0, 0], [0, 0, 0]],
    [[1, 0, 0], [0, -1, 0], [0, 0, 0]], [[0, 0, 1], [0, 0, 0], [1, 0, 0]], [[0, 0, -1j], [0, 0, 0], [1j, 0, 0]],
    [[0, 0, 0], [0, 0, 1], [0, 1, 0]], [[0, 0, 0], [0, 0, -1j], [0, 1j, 0]]]


def ob_gell_mann():
    from toqito.matrices import gell_mann

    def call():
        L = [np.asarray(gell_mann(k)) for k in range(9)]
        sp = [np.asarray(dense(gell_mann(k, True)), dtype=object) for k in range(8)]   # index 8 holds symbols: dense only
        return [hs_gram(L), np.stack(L[:8]), scale(rt(3), L[8]), np.stack([sub(l, dag(l)) for l in L]), np.stack(sp)]

    def expect():
        g = scale(2, ident(9))
        g[0, 0] = 3
        return [g, np.stack([np.array(m) for m in GM_CLOSED]), np.diag([1, 1, -2]), np.zeros((9, 3, 3)),
                np.stack([np.array(m) for m in GM_CLOSED])]
    return cob("gell_mann.closed_forms_hermitian_trace_orthogonal", {}, call, expect)


def ob_gen_gell_mann(d):
    from toqito.matrices import gen_gell_mann, gell_mann, pauli

    def call():
        pairs = [(a, b) for a in range(d) for b in range(d)]
        G = [np.asarray(gen_gell_mann(a, b, d)) for a, b in pairs]
        res = [hs_gram(G), np.stack([sub(g, dag(g)) for g in G])]
        # symmetric / antisymmetric / diagonal closed forms
        offd = []
        for (a, b), g in zip(pairs, G):
            if a != b:
                offd.append(g)
        res.append(np.stack(offd))
        diag = []
        for k in range(1, d):
            g = G[pairs.index((k, k))]
            diag.append(scale(rt(k * (k + 1) // 2), g))          # sqrt(k(k+1)/2) * G_kk = diag(1,...,1,-k,0,...)
        res.append(np.stack(diag))
        if d == 2:
            res.append(np.stack([sub(G[pairs.index(p)], np.asarray(pauli(k))) for p, k in [((0, 0), 0), ((0, 1), 1), ((1, 0), 2), ((1, 1), 3)]]))
        if d == 3:
            order = [(0, 0), (0, 1), (1, 0), (1, 1), (0, 2), (2, 0), (1, 2), (2, 1), (2, 2)]
            res.append(np.stack([sub(G[pairs.index(p)], np.asarray(gell_mann(k))) for k, p in enumerate(order)]))
        return res

    def expect():
        pairs = [(a, b) for a in range(d) for b in range(d)]
        g = scale(2, ident(d * d))
        g[0, 0] = d
        res = [g, np.zeros((d * d, d, d))]
        offd = []
        for a, b in pairs:
            if a == b:
                continue
            m = np.zeros((d, d), dtype=complex)
            if a < b:
                m[a, b] = m[b, a] = 1
            else:
                m[a, b] = 1j
                m[b, a] = -1j
            offd.append(m)
        res.append(np.stack(offd))
        res.append(np.stack([np.diag([1] * k + [-k] + [0] * (d - k - 1)) for k in range(1, d)]))
        if d == 2:
            res.append(np.zeros((4, 2, 2)))
        if d == 3:
            res.append(np.zeros((9, 3, 3)))
        return res
    return cob("gen_gell_mann.hermitian_trace_orthogonal_basis_closed_forms", {"d": d}, call, expect, weight=d ** 3)


def ob_hadamard(n):
    from toqito.matrices import hadamard
    how = "exact" if n % 2 == 0 else "float"

    def call():
        H = np.asarray(hadamard(n))
        N = 2 ** n
        sq = absq(H)
        signs = np.array([[1 if float(np.real(H[i, j])) > 0 else -1 for j in range(N)] for i in range(N)])
        return [mm(H, dag(H)), scale(N, sq), signs, shape_arr(H)]

    def expect():
        N = 2 ** n
        signs = np.array([[(-1) ** popcount(i & j) for j in range(N)] for i in range(N)])
        return [ident(N), np.ones((N, N)), signs, np.asarray((N, N))]
    return cob("hadamard.sign_pattern_entries_and_unitarity", {"n": n}, call, expect, how, weight=4 ** n // 4)


def ob_cnot():
    from toqito.matrices import cnot

    def call():
        C = np.asarray(cnot())
        return [C, mm(C, dag(C))]

    def expect():
        M = np.zeros((4, 4))
        for a in range(2):
            for b in range(2):
                M[2 * a + (a ^ b), 2 * a + b] = 1        # |a,b> -> |a, a xor b>
        return [M, ident(4)]
    return cob("cnot.is_the_controlled_not_permutation", {}, call, expect)


def ob_cyclic(n):
    from toqito.matrices import cyclic_permutation_matrix

    def call():
        Ps = [np.asarray(cyclic_permutation_matrix(n, k)) for k in range(0, n + 2)]
        return [np.stack(Ps), np.stack([mm(P, dag(P)) for P in Ps]), np.asarray(cyclic_permutation_matrix(n))]

    def expect():
        out = []
        for k in range(0, n + 2):
            M = np.zeros((n, n))
            for j in range(n):
                M[(j + k) % n, j] = 1                    # |j> -> |j+k mod n>
            out.append(M)
        return [np.stack(out), np.stack([ident(n)] * (n + 2)), out[1]]
    return cob("cyclic_permutation_matrix.is_kth_power_of_the_cyclic_shift", {"n": n}, call, expect)


# ================================================================================================
# (A) constructors with real parameters: symbolic parameters
# ================================================================================================
def _sym_isinstance(obj, cls):
    if cls is float and isinstance(obj, Sym) and not obj.im.t:
        cur().stubs.add("isinstance(alpha, float): a real symbolic scalar counts as a float")
        return True
    return builtins.isinstance(obj, cls)


WERNER_PATCH = {"toqito.states.werner": {"isinstance": _sym_isinstance}}


def sq(x):
    return x.sqrt() if isinstance(x, Sym) else math.sqrt(x)


def werner_closed(d, alpha):
    W = swap_mat(d)
    den = d * (d - alpha)
    out = np.empty((d * d, d * d), dtype=object)
    for i in range(d * d):
        for j in range(d * d):
            out[i, j] = ((1 if i == j else 0) - alpha * W[i, j]) / den
    return out


def ob_werner_closed(d):
    from toqito.states import werner

    def build(b):
        return {"alpha": b.real("alpha")}

    def call(i):
        r = werner(d, i["alpha"])
        return [np.asarray(r), cell(tr(r))]

    def oracle(i):
        return [werner_closed(d, i["alpha"]), cell(1)]
    return pob("werner.scalar_form_is_identity_minus_alpha_swap_normalised", {"d": d}, build, call, oracle, extra=WERNER_PATCH)


def ob_werner_list1(d):
    from toqito.states import werner

    def build(b):
        return {"alpha": b.real("alpha")}

    def call(i):
        return np.asarray(werner(d, [i["alpha"]]))

    def oracle(i):
        return np.asarray(werner(d, i["alpha"]))
    return pob("werner.one_parameter_list_form_equals_scalar_form", {"d": d}, build, call, oracle, extra=WERNER_PATCH,
               flags=("objident",))


def ob_werner_multi(d):
    """documented: normalisation of I - alpha(1)P(2) - ... - alpha(p!-1)P(p!), permutations in lexicographic order (p = 3)"""
    from toqito.states import werner
    from toqito.perms import permutation_operator

    def build(b):
        return {"alpha": [b.real(f"alpha{k}") for k in range(5)]}

    def call(i):
        return np.asarray(werner(d, list(i["alpha"])))

    def documented(i, inverse):
        perms = list(itertools.permutations(range(3)))
        M = np.asarray(ident(d ** 3), dtype=object)
        for j in range(1, 6):
            P = np.asarray(permutation_operator(d, list(perms[j]), inverse))
            M = M - scale(i["alpha"][j - 1], P)
        t = tr(M)
        out = np.empty(M.shape, dtype=object)
        for idx in np.ndindex(M.shape):
            out[idx] = M[idx] / t
        return out

    def oracle(i):
        return [documented(i, False), documented(i, True)]

    def post(res, exp, i):
        a, b = eq(res, exp[0]), eq(res, exp[1])   # either reading of "permutes according to the i-th permutation"
        if isinstance(a, bool) and isinstance(b, bool):
            return a or b
        return SymBool(a) | SymBool(b)

    def neg(exp):
        return [np.roll(np.asarray(e, dtype=object).ravel(), 1).reshape(np.shape(e)) for e in exp]
    return pob("werner.multipartite_list_form_matches_documented_formula", {"d": d, "parties": 3}, build, call, oracle,
               extra=WERNER_PATCH, flags=("objident",), post=post, neg=neg)


def ob_werner_ppt(d):
    """PT(rho_alpha) = l1(alpha) P + l2(alpha) (I - P), P = |psi+><psi+| ; l1, l2 >= 0  <=>  alpha <= 1/d"""
    from toqito.states import werner
    from toqito.channels import partial_transpose

    def build(b):
        return {"alpha": b.real("alpha")}

    def call(i):
        return np.asarray(partial_transpose(werner(d, i["alpha"]), [1], [d, d]))

    def eigs(i):
        a = i["alpha"]
        t = 1 / (d * (d - a))
        return (1 - d * a) * t, t

    def oracle(i):
        l1, l2 = eigs(i)
        P = maxent_proj(d)
        Q = sub(ident(d * d), P)
        return np.asarray(scale(l1, P), dtype=object) + np.asarray(scale(l2, Q), dtype=object)

    def post(res, exp, i):
        P = maxent_proj(d)
        cert = near(mm(P, P), P, "exact")            # P is a projector (constants)
        cert = cert if isinstance(cert, bool) else cert.const
        l1, l2 = eigs(i)
        a = i["alpha"]
        e = eq(res, exp)
        if isinstance(a, Sym):
            return SymBool(e) & SymBool(bool(cert)) & (((l1 >= 0) & (l2 >= 0)) == (a <= Fraction(1, d)))
        return bool(e) and bool(cert) and ((l1 >= -1e-12 and l2 >= 0) == (a <= 1 / d + 1e-12) or abs(a - 1 / d) < 1e-9)

    def assume(i):
        return [i["alpha"] >= -1, i["alpha"] <= 1]

    def valid(ni):
        return -1 <= ni["alpha"] <= 1
    return pob("werner.ppt_iff_alpha_at_most_one_over_d_by_eigen_certificate", {"d": d}, build, call, oracle,
               extra=WERNER_PATCH, post=post, assume=assume, valid=valid, mode="nra")


def iso_closed(d, alpha):
    out = np.empty((d * d, d * d), dtype=object)
    for i in range(d):
        for j in range(d):
            for k in range(d):
                for l in range(d):
                    v = 0
                    if i == k and j == l:
                        v = v + (1 - alpha) / (d * d)
                    if i == j and k == l:
                        v = v + alpha / d
                    out[i * d + j, k * d + l] = v
    return out


def ob_iso_closed(d):
    from toqito.states import isotropic

    def build(b):
        return {"alpha": b.real("alpha")}

    def call(i):
        r = isotropic(d, i["alpha"])
        return [np.asarray(r), cell(tr(r))]

    def oracle(i):
        return [iso_closed(d, i["alpha"]), cell(1)]
    return pob("isotropic.closed_form_and_unit_trace", {"d": d}, build, call, oracle)


def ob_iso_ppt(d):
    """PT(rho_alpha) = m+ P_sym + m- P_asym ; m+, m- >= 0  <=>  alpha <= 1/(d+1)   (admissible alpha in [-1/(d^2-1), 1])"""
    from toqito.states import isotropic
    from toqito.channels import partial_transpose

    def build(b):
        return {"alpha": b.real("alpha")}

    def call(i):
        return np.asarray(partial_transpose(isotropic(d, i["alpha"]), [1], [d, d]))

    def eigs(i):
        a = i["alpha"]
        return (1 - a) / (d * d) + a / d, (1 - a) / (d * d) - a / d

    def projs():
        W = swap_mat(d)
        h = fr(1, 2)
        return scale(h, ident(d * d) + W), scale(h, ident(d * d) - W)

    def oracle(i):
        mp, mn = eigs(i)
        Ps, Pa = projs()
        return np.asarray(scale(mp, Ps), dtype=object) + np.asarray(scale(mn, Pa), dtype=object)

    def post(res, exp, i):
        Ps, Pa = projs()
        cert = near([mm(Ps, Ps), mm(Pa, Pa), mm(Ps, Pa)], [Ps, Pa, np.zeros((d * d, d * d))], "exact")
        cert = cert if isinstance(cert, bool) else cert.const
        mp, mn = eigs(i)
        a = i["alpha"]
        e = eq(res, exp)
        if isinstance(a, Sym):
            return SymBool(e) & SymBool(bool(cert)) & (((mp >= 0) & (mn >= 0)) == (a <= Fraction(1, d + 1)))
        return bool(e) and bool(cert) and ((mp >= 0 and mn >= -1e-12) == (a <= 1 / (d + 1) + 1e-12) or abs(a - 1 / (d + 1)) < 1e-9)

    def assume(i):
        return [i["alpha"] >= Fraction(-1, d * d - 1), i["alpha"] <= 1]

    def valid(ni):
        return -1 / (d * d - 1) <= ni["alpha"] <= 1
    return pob("isotropic.ppt_iff_alpha_at_most_one_over_d_plus_one_by_eigen_certificate", {"d": d}, build, call, oracle,
               post=post, assume=assume, valid=valid)


def horodecki_closed(a, dims):
    b = (1 + a) / 2
    c = sq(1 - a * a) / 2
    if dims == (3, 3):
        n = 8 * a + 1
        M = [[a, 0, 0, 0, a, 0, 0, 0, a], [0, a, 0, 0, 0, 0, 0, 0, 0], [0, 0, a, 0, 0, 0, 0, 0, 0], [0, 0, 0, a, 0, 0, 0, 0, 0],
             [a, 0, 0, 0, a, 0, 0, 0, a], [0, 0, 0, 0, 0, a, 0, 0, 0], [0, 0, 0, 0, 0, 0, b, 0, c], [0, 0, 0, 0, 0, 0, 0, a, 0],
             [a, 0, 0, 0, a, 0, c, 0, b]]
    else:
        n = 7 * a + 1
        M = [[a, 0, 0, 0, 0, a, 0, 0], [0, a, 0, 0, 0, 0, a, 0], [0, 0, a, 0, 0, 0, 0, a], [0, 0, 0, a, 0, 0, 0, 0],
             [0, 0, 0, 0, b, 0, 0, c], [a, 0, 0, 0, 0, a, 0, 0], [0, a, 0, 0, 0, 0, a, 0], [0, 0, a, 0, c, 0, 0, b]]
    N = len(M)
    out = np.empty((N, N), dtype=object)
    for i in range(N):
        for j in range(N):
            out[i, j] = M[i][j] / n
    return out


def _unit_interval_exc(e, i, name="a"):
    a = i[name]
    return isinstance(e, ValueError) and ((a < 0) | (a > 1) if isinstance(a, Sym) else (a < 0 or a > 1))


def ob_horodecki_closed(dims, default=False):
    from toqito.states import horodecki

    def build(b):
        return {"a": b.real("a")}

    def call(i):
        r = horodecki(i["a"]) if default else horodecki(i["a"], list(dims))
        return [np.asarray(r), cell(tr(r))]

    def oracle(i):
        return [horodecki_closed(i["a"], dims), cell(1)]
    return pob("horodecki.documented_matrix_unit_trace_and_rejection_outside_unit_interval",
               {"dims": list(dims), "dim_argument": "default" if default else "given"}, build, call, oracle,
               exc_post=_unit_interval_exc)


def ob_horodecki_ppt(dims):
    """PSD certificate of the partial transpose on [0,1]:  y * PT(rho_a) = t * ( y*a*sum_k v_k v_k^T + u u^T ),
    y = (1+a)/2 > 0, t = 1/(8a+1) resp. 1/(7a+1) > 0, a >= 0, u = c e_p + y e_q with c = sqrt(1-a^2)/2"""
    from toqito.states import horodecki
    from toqito.channels import partial_transpose
    N = dims[0] * dims[1]
    if dims == (3, 3):
        sysarg, vs, (p, q), nn = [1], [(0,), (4,), (1, 3), (5, 7), (2, 6)], (6, 8), 8
    else:
        # transposing the first factor swaps the off-diagonal 4x4 blocks a*S, a*S^T (S = shift): PT = a [I;S][I;S]^T + 0 (+) R
        sysarg, vs, (p, q), nn = [0], [(0,), (1, 4), (2, 5), (3, 6)], (4, 7), 7

    def build(b):
        return {"a": b.real("a")}

    def call(i):
        return np.asarray(partial_transpose(horodecki(i["a"], list(dims)), sysarg, list(dims)))

    def parts(i):
        a = i["a"]
        y = (1 + a) / 2
        c = sq(1 - a * a) / 2
        t = 1 / (nn * a + 1)
        return a, y, c, t

    def oracle(i):
        a, y, c, t = parts(i)
        S = np.zeros((N, N), dtype=object)
        for v in vs:
            for r in v:
                for s in v:
                    S[r, s] = S[r, s] + y * a
        u = {p: c, q: y}
        for r in u:
            for s in u:
                S[r, s] = S[r, s] + u[r] * u[s]
        return scale(t, S)

    def post(res, exp, i):
        a, y, c, t = parts(i)
        e = eq(scale(y, res), exp)
        if isinstance(a, Sym):
            return SymBool(e) & (y > 0) & (t > 0)
        return bool(e) and y > 0 and t > 0

    def assume(i):
        return [i["a"] >= 0, i["a"] <= 1]

    def valid(ni):
        return 0 <= ni["a"] <= 1

    def neg(exp):
        b = np.array(exp, dtype=object, copy=True)
        b[0, 0] = b[0, 0] + 1
        return b
    return pob("horodecki.partial_transpose_is_psd_on_unit_interval_by_gram_certificate", {"dims": list(dims)}, build, call, oracle,
               post=post, assume=assume, valid=valid, mode="nra", neg=neg)


def ob_gisin():
    from toqito.states import gisin

    def build(b):
        return {"lam": b.real("lambda"), "theta": b.real("theta")}

    def call(i):
        if isinstance(i["theta"], Sym):
            trig_base(i["theta"])
        r = gisin(i["lam"], i["theta"])
        return [np.asarray(r), cell(tr(r))]

    def oracle(i):
        lam = i["lam"]
        c, s = cs(i["theta"])
        out = np.zeros((4, 4), dtype=object)
        out[0, 0] = out[3, 3] = (1 - lam) / 2
        out[1, 1] = lam * s * s
        out[2, 2] = lam * c * c
        out[1, 2] = out[2, 1] = -lam * s * c
        return [out, cell(1)]

    def exc_post(e, i):
        return _unit_interval_exc(e, i, "lam")
    return pob("gisin.documented_matrix_unit_trace_and_rejection_outside_unit_interval", {}, build, call, oracle, exc_post=exc_post)


def ob_pbr(n):
    from toqito.states import pusey_barrett_rudolph

    def build(b):
        return {"theta": b.real("theta")}

    def half(i):
        th = i["theta"]
        return th / 2

    def call(i):
        if isinstance(i["theta"], Sym):
            trig_base(half(i))
        sts = pusey_barrett_rudolph(n, i["theta"])
        return [np.hstack([np.asarray(s) for s in sts]), gram(sts)]

    def oracle(i):
        c, s = cs(half(i))
        psi = [np.array([c, s], dtype=object), np.array([c, -s], dtype=object)]
        cols, strs = [], list(itertools.product([0, 1], repeat=n))
        for bs in strs:
            v = np.array([1], dtype=object)
            for bit in bs:
                v = np.array([x * y for x in v for y in psi[bit]], dtype=object)
            cols.append(v.reshape(-1, 1))
        ov = c * c - s * s                       # <psi_0|psi_1> = cos(theta)
        G = np.empty((len(strs), len(strs)), dtype=object)
        for a, x in enumerate(strs):
            for bb, y in enumerate(strs):
                g = 1
                for p, q in zip(x, y):
                    if p != q:
                        g = g * ov
                G[a, bb] = g
        return [np.hstack(cols), G]
    return pob("pusey_barrett_rudolph.product_states_unit_norm_and_overlaps", {"n": n}, build, call, oracle)


def ob_breuer(d):
    from toqito.states import breuer

    def build(b):
        return {"lam": b.real("lambda")}

    def call(i):
        r = breuer(d, i["lam"])
        return [np.asarray(r), cell(tr(r))]

    def oracle(i):
        lam = i["lam"]
        # psi = (1 (x) V)|Phi+>, V = antidiagonal with alternating signs: V|i> = s_{d-1-i}|d-1-i>, s_k = (-1)^{(k+1) mod 2}
        psi = [0] * (d * d)
        for k in range(d):
            sgn = (-1) ** ((d - 1 - k + 1) % 2)
            psi[k * d + (d - 1 - k)] = sgn
        W = swap_mat(d)
        out = np.empty((d * d, d * d), dtype=object)
        for r in range(d * d):
            for c in range(d * d):
                pp = Fraction(psi[r] * psi[c], d) if _CTX else psi[r] * psi[c] / d
                ps = ((1 if r == c else 0) + W[r, c]) / 2
                ps = Fraction(int(2 * ps), 2) if _CTX else ps
                out[r, c] = lam * pp + (1 - lam) * 2 * ps / (d * (d + 1))
        return [out, cell(1)]
    return pob("breuer.lambda_singlet_like_plus_normalised_symmetric_projector", {"d": d}, build, call, oracle)


def ob_chessboard(defaults):
    from toqito.states import chessboard

    def build(b):
        i = {"p": [b.real(n) for n in "abcdmn"]}
        if not defaults:
            i["s"], i["t"] = b.real("s"), b.real("t")
        return i

    def st(i):
        a, bb, c, dd, m, n = i["p"]
        if defaults:
            return c / n, a * dd / m            # documented defaults (real parameters: conj is the identity)
        return i["s"], i["t"]

    def call(i):
        r = chessboard(list(i["p"])) if defaults else chessboard(list(i["p"]), i["s"], i["t"])
        return [np.asarray(r), cell(tr(r))]

    def oracle(i):
        a, bb, c, dd, m, n = i["p"]
        s, t = st(i)
        V = [[m, 0, s, 0, n, 0, 0, 0, 0], [0, a, 0, bb, 0, c, 0, 0, 0], [n, 0, 0, 0, -m, 0, t, 0, 0], [0, bb, 0, -a, 0, 0, 0, dd, 0]]
        G = np.zeros((9, 9), dtype=object)
        nrm = 0
        for v in V:
            for r in range(9):
                if iszero(v[r]):
                    continue
                nrm = nrm + v[r] * v[r]
                for cc in range(9):
                    if not iszero(v[cc]):
                        G[r, cc] = G[r, cc] + v[r] * v[cc]
        out = np.empty((9, 9), dtype=object)
        for idx in np.ndindex(9, 9):
            out[idx] = G[idx] / nrm
        return [out, cell(1)]

    def valid(ni):
        return abs(ni["p"][4]) > 1e-6 and abs(ni["p"][5]) > 1e-6
    return pob("chessboard.normalised_sum_of_the_four_documented_projectors", {"s_t": "documented defaults" if defaults else "given"},
               build, call, oracle, valid=valid)


class _ObjCsr:
    """csr_array(shape).toarray() as an object array (w_state allocates its vector that way and assigns coefficients)"""

    def __init__(self, shape, *a, **k):
        self.shape = shape

    def toarray(self):
        out = np.empty(self.shape, dtype=object)
        for idx in np.ndindex(*self.shape):
            out[idx] = lift(0)
        cur().stubs.add("csr_array(shape).toarray(): zero object array")
        return out.view(SymArray)


def _coeff_post(norm_of):
    def post(res, exp, i):
        """entries c_j/||c||; inside numpy's isclose window around ||c|| = 1 the coefficients are used as given (documented)"""
        e1 = eq(res, exp[0])
        e2 = eq(res, exp[1])
        nrm = norm_of(i)
        if isinstance(nrm, Sym):
            window = (nrm - 1 <= Fraction(2, 10 ** 5)) & (1 - nrm <= Fraction(2, 10 ** 5))
            return SymBool(e1) | (SymBool(e2) & window)
        return bool(e1) or (bool(e2) and abs(nrm - 1) <= 2e-5)
    return post


def _norm(c):
    tot = 0
    for x in c:
        tot = tot + x * x
    return sq(tot)


def _norm_c(c):
    tot = 0
    for x in c:
        x = lift(x) if isinstance(x, Sym) else x
        tot = tot + (x * x.conjugate() if isinstance(x, Sym) else abs(x) ** 2)
    return sq(tot.real if isinstance(tot, Sym) else tot)


def _cplx_witness(m):
    base = [1, 1j, 3, -4j, 2 + 1j]
    return [{"c": [complex(v) for v in base[:m]]}, {"c": [complex(v) for v in base[:m][::-1]]}]


def ob_ghz_coeff(d, n, field="real"):
    from toqito.states import ghz
    if field == "complex":
        def build(b):
            return {"c": [b.cplx(f"c{k}") for k in range(d)]}

        def call(i):
            return np.asarray(ghz(d, n, list(i["c"])))

        def oracle(i):
            nrm = _norm_c(i["c"])
            outs = []
            for normalise in (True, False):
                v = np.zeros((d ** n, 1), dtype=object)
                for k in range(d):
                    idx = 0
                    for _ in range(n):
                        idx = idx * d + k
                    v[idx, 0] = i["c"][k] / nrm if normalise else i["c"][k]
                outs.append(v)
            return outs

        def valid(ni):
            return sum(abs(x) ** 2 for x in ni["c"]) > 1e-6
        return pob("ghz.coefficient_vector_is_normalised_onto_the_diagonal_kets", {"d": d, "parties": n, "coefficients": "complex"}, build, call, oracle,
                   post=_coeff_post(lambda i: _norm_c(i["c"])), valid=valid, objzeros=("toqito.states.ghz",), neg_control=False,
                   witness=lambda: _cplx_witness(d), tv=False)

    def build(b):
        return {"c": [b.real(f"c{k}") for k in range(d)]}

    def call(i):
        return np.asarray(ghz(d, n, list(i["c"])))

    def oracle(i):
        nrm = _norm(i["c"])
        outs = []
        for normalise in (True, False):
            v = np.zeros((d ** n, 1), dtype=object)
            for k in range(d):
                idx = 0
                for _ in range(n):
                    idx = idx * d + k
                v[idx, 0] = i["c"][k] / nrm if normalise else i["c"][k]
            outs.append(v)
        return outs

    def valid(ni):
        return sum(x * x for x in ni["c"]) > 1e-6

    def neg(exp):
        return [np.roll(np.asarray(e, dtype=object).ravel(), 1).reshape(np.shape(e)) for e in exp]
    return pob("ghz.coefficient_vector_is_normalised_onto_the_diagonal_kets", {"d": d, "parties": n}, build, call, oracle,
               post=_coeff_post(lambda i: _norm(i["c"])), valid=valid, neg=neg, objzeros=("toqito.states.ghz",))


def ob_w_coeff(n, field="real"):
    from toqito.states import w_state

    def build(b):
        return {"c": [(b.cplx if field == "complex" else b.real)(f"c{k}") for k in range(n)]}
    _norm = _norm_c if field == "complex" else globals()["_norm"]

    def call(i):
        return np.asarray(w_state(n, list(i["c"])))

    def oracle(i):
        nrm = _norm(i["c"])
        outs = []
        for normalise in (True, False):
            v = np.zeros((2 ** n, 1), dtype=object)
            for j in range(n):
                v[2 ** (n - 1 - j), 0] = i["c"][j] / nrm if normalise else i["c"][j]   # c_j multiplies |0..1_j..0>
            outs.append(v)
        return outs

    def post(res, exp, i):
        if not isinstance(i["c"][0], Sym):
            # plain numbers: the real function rounds to 4 decimals (documented by its examples)
            nrm = _norm(i["c"])
            ok1 = np.allclose(np.asarray(res, dtype=complex), np.asarray(exp[0], dtype=complex), rtol=0, atol=5.1e-5)
            ok2 = np.allclose(np.asarray(res, dtype=complex), np.asarray(exp[1], dtype=complex), rtol=0, atol=5.1e-5) and abs(nrm - 1) <= 2e-5
            return bool(ok1 or ok2)
        return _coeff_post(lambda i: _norm(i["c"]))(res, exp, i)

    def valid(ni):
        return sum(abs(x) ** 2 for x in ni["c"]) > 1e-6

    def neg(exp):
        return [np.roll(np.asarray(e, dtype=object).ravel(), 1).reshape(np.shape(e)) for e in exp]
    cfg = {"qubits": n} if field == "real" else {"qubits": n, "coefficients": "complex"}
    return pob("w_state.coefficient_vector_is_normalised_onto_single_excitation_kets", cfg, build, call, oracle,
               post=post, valid=valid, neg=neg, extra={"toqito.states.w_state": {"csr_array": _ObjCsr}}, tv=False,
               witness=(lambda: _cplx_witness(n)) if field == "complex" else None)


def ob_coeff_unit_norm(kind, d, n):
    """sum |entries|^2 = 1 for every coefficient vector (nonlinear: c_i/||c|| squared and summed), mode nra"""
    from toqito.states import ghz, w_state

    def build(b):
        return {"c": [b.real(f"c{k}") for k in range(d)]}

    def call(i):
        v = ghz(d, n, list(i["c"])) if kind == "ghz" else w_state(n, list(i["c"]))
        return cell(inner(v, v))

    def normsq(i):
        tot = 0
        for x in i["c"]:
            tot = tot + x * x
        return tot

    def oracle(i):
        return [cell(1), cell(normsq(i))]

    def post(res, exp, i):
        nrm = _norm(i["c"])
        e1, e2 = eq(res, exp[0]), eq(res, exp[1])
        if isinstance(nrm, Sym):
            return SymBool(e1) | (SymBool(e2) & (nrm - 1 <= Fraction(2, 10 ** 5)) & (1 - nrm <= Fraction(2, 10 ** 5)))
        tol = 1e-9 if kind == "ghz" else 4e-4          # the real w_state rounds its entries to 4 decimals
        return abs(res[0] - 1) <= tol or (abs(res[0] - exp[1][0]) <= tol and abs(nrm - 1) <= 2e-5)

    def neg(exp):
        return [cell(exp[0][0] + 1), cell(exp[1][0] + 1)]

    def valid(ni):
        return sum(x * x for x in ni["c"]) > 1e-6
    extra = {"toqito.states.w_state": {"csr_array": _ObjCsr}} if kind == "w_state" else None
    cfg = {"d": d, "parties": n} if kind == "ghz" else {"qubits": n}
    return pob(f"{kind}.coefficient_form_has_unit_norm", cfg, build, call, oracle, post=post, neg=neg, valid=valid, mode="nra",
               objzeros=("toqito.states.ghz",), extra=extra, tv=(kind == "ghz"), timeout_ms=30000)


def history_obligations():
    """round-6 seed: a constructor that accumulates into memoised arrays (list form of werner).  Every call below is made, its
    result modified in place, and made again (props/common.HistoryTask); list forms are additionally repeated with a different
    parameter in between."""
    import toqito.matrices as Mx
    import toqito.states as S
    from props.common import HistoryTask
    calls = [
        ("werner(2, 1/4)", lambda: S.werner(2, 0.25)), ("werner(3, [1/4])", lambda: S.werner(3, [0.25])),
        ("werner(2, [1/8]) ; werner(2, [1/4])", lambda: [S.werner(2, [0.125]), S.werner(2, [0.25])][1]),
        ("werner(2, [.01,.02,.03,.04,.05])", lambda: S.werner(2, [0.01, 0.02, 0.03, 0.04, 0.05])),
        ("isotropic(3, 1/4)", lambda: S.isotropic(3, 0.25)), ("bell(2)", lambda: S.bell(2)), ("gen_bell(1, 2, 3)", lambda: S.gen_bell(1, 2, 3)),
        ("max_entangled(3)", lambda: S.max_entangled(3)), ("max_mixed(3)", lambda: S.max_mixed(3)), ("ghz(2, 3)", lambda: S.ghz(2, 3)),
        ("ghz(2, 3, [1, 2])", lambda: S.ghz(2, 3, [1, 2])), ("w_state(3)", lambda: S.w_state(3)), ("dicke(3, 1)", lambda: S.dicke(3, 1)),
        ("basis(3, 1)", lambda: S.basis(3, 1)), ("tile(2)", lambda: S.tile(2)), ("domino(3)", lambda: S.domino(3)), ("trine()", lambda: S.trine()),
        ("bb84()", lambda: S.bb84()), ("horodecki(1/2, [3, 3])", lambda: S.horodecki(0.5, [3, 3])), ("brauer(2, 2)", lambda: S.brauer(2, 2)),
        ("mutually_unbiased_basis(3)", lambda: S.mutually_unbiased_basis(3)), ("singlet(2)", lambda: S.singlet(2)),
        ("pauli(2)", lambda: Mx.pauli(2)), ("pauli([1, 2])", lambda: Mx.pauli([1, 2])), ("pauli('X', True)", lambda: Mx.pauli("X", True)),
        ("gen_pauli(1, 2, 3)", lambda: Mx.gen_pauli(1, 2, 3)), ("gell_mann(4)", lambda: Mx.gell_mann(4)), ("gen_gell_mann(1, 1, 3)", lambda: Mx.gen_gell_mann(1, 1, 3)),
        ("gen_gell_mann(0, 2, 3)", lambda: Mx.gen_gell_mann(0, 2, 3)), ("fourier(3)", lambda: Mx.fourier(3)), ("hadamard(2)", lambda: Mx.hadamard(2)),
        ("cnot()", lambda: Mx.cnot()), ("gen_pauli_x(3)", lambda: Mx.gen_pauli_x(3)), ("gen_pauli_z(3)", lambda: Mx.gen_pauli_z(3)),
        ("cyclic_permutation_matrix(3)", lambda: Mx.cyclic_permutation_matrix(3)), ("standard_basis(3)", lambda: Mx.standard_basis(3)),
    ]
    return [HistoryTask("constructor.repeated_call_is_independent_of_what_the_caller_did_with_the_earlier_result", {"call": n}, f) for n, f in calls]


# ================================================================================================
def obligations(tier):
    import toqito.states as S
    import toqito.matrices as Mx
    T = tier == "thorough"
    obs = []
    dims = [2, 3, 4] + ([5, 6] if T else [])
    field = {2: "exact", 3: "exact", 4: "exact", 5: "float", 6: "exact"}     # roots of unity exp(2 pi i/d) in Q(i, sqrt3)?
    third = {2: "exact", 3: "mixed", 4: "exact", 5: "float", 6: "mixed"}     # ... and the double factor 1/d exact?

    # ---- (A) symbolic parameters ----
    for d in dims[:4]:
        obs.append(ob_werner_closed(d))
        obs.append(ob_werner_list1(d))
        obs.append(ob_werner_ppt(d))
        obs.append(ob_iso_closed(d))
        obs.append(ob_iso_ppt(d))
    obs.append(ob_werner_multi(2))
    for dm in [(3, 3), (2, 4)]:
        obs.append(ob_horodecki_closed(dm))
        obs.append(ob_horodecki_ppt(dm))
    obs.append(ob_horodecki_closed((3, 3), default=True))
    obs.append(ob_gisin())
    for n in [1, 2, 3] + ([4] if T else []):
        obs.append(ob_pbr(n))
    for d in [2, 4] + ([6] if T else []):
        obs.append(ob_breuer(d))
    obs.append(ob_chessboard(False))
    obs.append(ob_chessboard(True))
    for d, n in [(2, 2), (2, 3), (3, 2), (2, 4)] + ([(3, 3), (4, 2), (2, 5)] if T else []):
        obs.append(ob_ghz_coeff(d, n))
        if (d, n) in [(2, 2), (3, 2), (2, 3)]:
            obs.append(ob_ghz_coeff(d, n, "complex"))
        obs.append(ob_coeff_unit_norm("ghz", d, n))
    for n in [2, 3, 4] + ([5] if T else []):
        obs.append(ob_w_coeff(n))
        if n <= 3:
            obs.append(ob_w_coeff(n, "complex"))
        obs.append(ob_coeff_unit_norm("w_state", n, n))

    # ---- (B) states ----
    for d in [2, 3, 4, 5] + ([6] if T else []):
        obs.append(ob_basis(d))
        obs.append(ob_max_mixed(d))
        obs.append(ob_singlet(d))
    obs.append(ob_bb84())
    obs.append(ob_bell())
    obs.append(ob_gen_bell_is_bell())
    obs.append(ob_trine())
    obs.append(ob_product_basis("domino"))
    obs.append(ob_product_basis("tile"))
    for d in dims:
        obs.append(ob_gen_bell(d, third[d]))
        obs.append(ob_max_entangled(d))
        obs.append(ob_max_entangled_sparse(d))
    qubits = [1, 2, 3, 4] + ([5] if T else [])
    for d in dims[:4] if not T else [2, 3, 4, 5]:
        for n in qubits:
            if d ** n <= (256 if not T else 1024):
                obs.append(ob_ghz(d, n))
    for n in qubits:
        for k in range(n + 1):
            obs.append(ob_dicke(n, k))
    for n in [2, 3, 4] + ([5] if T else []):
        obs.append(ob_w_state(n))
        obs.append(ob_w_state_norm(n))
    for d, p in [(2, 1), (2, 2), (3, 1), (3, 2), (2, 3)] + ([(4, 2), (5, 1)] if T else []):
        obs.append(ob_brauer(d, p))
    for d in [2, 3, 5] + ([7] if T else []):
        obs.append(ob_mub(d))

    # ---- (B) matrices ----
    obs.append(ob_pauli_single())
    for n in [1, 2] + ([3] if T else []):
        obs.append(ob_pauli_strings(n))
    # every two-qubit string (a real first factor followed by Y included), three-qubit strings: a few / all
    for ix in list(itertools.product(range(4), repeat=2)) + (list(itertools.product(range(4), repeat=3)) if T else [(1, 2, 3), (0, 3, 2), (2, 0, 1)]):
        obs.append(ob_pauli_sparse_string(ix))
    for d in dims:
        obs.append(ob_weyl(d, field[d]))
        obs.append(ob_gen_pauli(d, field[d]))
        obs.append(ob_gen_gell_mann(d))
    obs.append(ob_gell_mann())
    for n in [0, 1, 2, 3, 4, 5] + ([6, 7] if T else []):      # five qubits: the property's upper end; beyond 4 bits parity tables stop repeating
        obs.append(ob_hadamard(n))
    obs.append(ob_cnot())
    for n in [1, 2, 3, 4, 5] + ([6] if T else []):
        obs.append(ob_cyclic(n))

    # ---- documented rejections ----
    rej = [("bell(4)", lambda: S.bell(4)), ("domino(9)", lambda: S.domino(9)), ("tile(5)", lambda: S.tile(5)),
           ("gell_mann(9)", lambda: Mx.gell_mann(9)), ("basis(2, 2)", lambda: S.basis(2, 2)), ("dicke(2, 3)", lambda: S.dicke(2, 3)),
           ("ghz(0, 2)", lambda: S.ghz(0, 2)), ("ghz(2, 0)", lambda: S.ghz(2, 0)), ("ghz(2, 2, [1, 1, 1])", lambda: S.ghz(2, 2, [1, 1, 1])),
           ("w_state(3, [1, 1])", lambda: S.w_state(3, [1, 1])),
           ("breuer(3, 0.1)", lambda: S.breuer(3, 0.1)), ("horodecki(0.5, [2, 2])", lambda: S.horodecki(0.5, [2, 2])),
           ("mutually_unbiased_basis(4)", lambda: S.mutually_unbiased_basis(4)),
           ("mutually_unbiased_basis(6)", lambda: S.mutually_unbiased_basis(6)),
           ("werner(2, [0.1, 0.2])", lambda: S.werner(2, [0.1, 0.2])), ("werner(2, [0.1]*4)", lambda: S.werner(2, [0.1] * 4))]
    for nm, f in rej:
        obs.append(rejects("constructor.rejects_documented_invalid_argument", {"call": nm}, f))
    obs += history_obligations()
    return obs
