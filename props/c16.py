"""C16 Matrix and state-set predicates and linear-algebra helpers match their definitions."""
from __future__ import annotations

import itertools
from fractions import Fraction

import numpy as np

from symnp.array import HANDLERS, NP_OVERRIDES, handles, has_sym, kernel, lifted, sarr, symmax
from symnp.core import And, Not, Or, Poly, Sym, SymBool, cur, lift
from symnp.harness import Obligation, eq, implies, jsonable
from props.common import Task
import time
from toqito.matrix_ops import tensor, unvec, vec, vectors_from_gram_matrix, vectors_to_gram_matrix
from toqito.matrix_props import (commutant, has_same_dimension, is_anti_hermitian, is_circulant, is_commuting, is_density,
                                 is_diagonal, is_diagonally_dominant, is_hermitian, is_idempotent, is_identity,
                                 is_linearly_independent, is_nonnegative, is_normal, is_orthonormal, is_permutation,
                                 is_positive, is_positive_definite, is_positive_semidefinite, is_projection,
                                 is_pseudo_hermitian, is_pseudo_unitary, is_square, is_stochastic, is_symmetric,
                                 is_totally_positive, is_unitary, kp_norm, majorizes, spark, trace_norm)
from toqito.state_props import (is_ensemble, is_mixed, is_mutually_orthogonal, is_mutually_unbiased_basis, is_pure,
                                is_unextendible_product_basis)

RTOL, ATOL = 1e-5, 1e-8

META = {
    "id": "C16",
    "level": "other",
    "files": ["toqito/matrix_props/is_hermitian.py", "toqito/matrix_props/is_anti_hermitian.py", "toqito/matrix_props/is_symmetric.py",
              "toqito/matrix_props/is_normal.py", "toqito/matrix_props/is_unitary.py", "toqito/matrix_props/is_pseudo_unitary.py",
              "toqito/matrix_props/is_pseudo_hermitian.py", "toqito/matrix_props/is_projection.py", "toqito/matrix_props/is_idempotent.py",
              "toqito/matrix_props/is_identity.py", "toqito/matrix_props/is_diagonal.py", "toqito/matrix_props/is_diagonally_dominant.py",
              "toqito/matrix_props/is_square.py", "toqito/matrix_props/is_permutation.py", "toqito/matrix_props/is_circulant.py",
              "toqito/matrix_props/is_stochastic.py", "toqito/matrix_props/is_nonnegative.py", "toqito/matrix_props/is_positive.py",
              "toqito/matrix_props/is_commuting.py", "toqito/matrix_props/is_orthonormal.py", "toqito/matrix_props/is_linearly_independent.py",
              "toqito/matrix_props/is_totally_positive.py", "toqito/matrix_props/is_positive_semidefinite.py",
              "toqito/matrix_props/is_positive_definite.py", "toqito/matrix_props/is_density.py", "toqito/matrix_props/has_same_dimension.py",
              "toqito/matrix_props/majorizes.py", "toqito/matrix_props/spark.py", "toqito/matrix_props/kp_norm.py",
              "toqito/matrix_props/trace_norm.py", "toqito/matrix_props/commutant.py",
              "toqito/matrix_ops/vec.py", "toqito/matrix_ops/unvec.py", "toqito/matrix_ops/tensor.py",
              "toqito/matrix_ops/vectors_from_gram_matrix.py", "toqito/matrix_ops/vectors_to_gram_matrix.py",
              "toqito/state_props/is_pure.py", "toqito/state_props/is_mixed.py", "toqito/state_props/is_ensemble.py",
              "toqito/state_props/is_mutually_orthogonal.py", "toqito/state_props/is_mutually_unbiased_basis.py",
              "toqito/state_props/is_unextendible_product_basis.py"],
    "functions": ["toqito.matrix_props.is_*", "toqito.matrix_props.majorizes", "toqito.matrix_props.spark", "toqito.matrix_props.kp_norm",
                  "toqito.matrix_props.trace_norm", "toqito.matrix_props.commutant", "toqito.matrix_ops.vec", "toqito.matrix_ops.unvec",
                  "toqito.matrix_ops.tensor", "toqito.matrix_ops.vectors_from_gram_matrix", "toqito.matrix_ops.vectors_to_gram_matrix",
                  "toqito.state_props.is_pure", "toqito.state_props.is_mixed", "toqito.state_props.is_ensemble",
                  "toqito.state_props.is_mutually_orthogonal", "toqito.state_props.is_mutually_unbiased_basis",
                  "toqito.state_props.is_unextendible_product_basis"],
    "explanation": "Bounded symbolic execution of the real predicates with every matrix entry a solver term (real or complex). For the "
                   "tolerance predicates z3 decides a two-sided band written with the harness's own residual of the defining equation "
                   "(own loops): all residual entries within atol/2 (1-norm of re/im) => True; some residual entry beyond "
                   "2*(atol + rtol*(|re|+|im|)) of both sides => False (the window in between is where the definition does not fix "
                   "the verdict; an exact 'iff' with numpy's asymmetric formula would demand more than the property states); plus 'exact by construction => True' families (Hermitian, A-A^dagger, "
                   "SU(2), phases x permutations, hyperbolic rotations, block idempotents, circulants, Birkhoff combinations, polynomials "
                   "in A, ...), 'violates by a margin with bounded entries => False', non-square => False, and invariance of the verdict "
                   "under transposition / conjugation / simultaneous row-column permutation. Comparison predicates (diagonal, diagonally "
                   "dominant, non-negative, positive, permutation) are decided as exact equivalences with the definition. Kernel based "
                   "predicates (PSD, PD, density, pure, mixed, ensemble, linear independence, pseudo-Hermitian, spark, kp/trace norm) are "
                   "proved equal to the stated function of the eigenvalue / rank / Cholesky / inverse / singular-value kernel applied to an "
                   "argument that is entry-wise equal to the documented one (kernels are uninterpreted functions; congruence). Totally "
                   "positive: every minor is an explicit Leibniz polynomial. Helpers: vec/unvec, vec(AXB) = (B^T (x) A) vec X, tensor "
                   "associativity / list forms / n-fold power, Gram round trip under the Cholesky contract (L L^dagger = G, L lower "
                   "triangular), commutant elements commute with every generator under the null-space contract (M n = 0), weak "
                   "majorisation against partial sums of k-subset maxima.",
    "bounds": {"quick": "square sizes 1..3, non-square 1x2, 2x3, 3x2; real and complex entries; default and one custom (rtol, atol); "
                        "predicates that fork per entry sign (is_nonnegative, is_positive, is_stochastic, is_permutation, spark, "
                        "is_totally_positive with 1x1 minors) up to 2x3; kernel predicates n <= 3; MUB: up to 3 bases in dimension 2; "
                        "helpers dims <= 3, tensor powers n <= 5 of 2x2 / 1x2 / vectors, n <= 3 of 3x3 / 2x3; majorizes lengths <= 2",
               "thorough": "square sizes 1..5 (1..6 for the entry-wise linear predicates: Hermitian, anti-Hermitian, symmetric, identity, "
                           "circulant), more rectangular shapes up to 5x6; sign-forking predicates up to 3x3 / 2x4; kernel predicates "
                           "n <= 4; MUB 2 bases in dimension 3; tensor powers n <= 6; majorizes lengths <= 3"},
    "trusted_base": ["numpy object-array semantics = numeric semantics (translator validation per obligation)",
                     "np.allclose/isclose modelled by numpy's documented formula |a-b| <= atol + rtol*|b|",
                     "complex np.max = lexicographic maximum (registered from this module; used by is_pure only)",
                     "LAPACK kernels are functions of their argument (congruence); Cholesky contract L L^dagger = G where named", "z3 5.1.0"],
    "outside_claim": [
        "is_unextendible_product_basis on symbolic inputs (rank / null-space search over partitions: data-dependent shapes, not "
        "encodable): decided on concrete Gaussian-integer product families only, where the solver decides the DEFINITION (QF_LRA "
        "over all product vectors) and the real function supplies verdict and witness",
        "is_block_positive (sk_operator_norm: randomised iterative bounds + SDP)", "positive_semidefinite_rank (SDP feasibility per rank)",
        "commutant: dimension of the returned basis and its orthonormality (scipy null_space is data dependent; only 'every element "
        "commutes' is proved, under the contract M n = 0)",
        "vectors_from_gram_matrix on matrices where Cholesky fails (eig + sqrtm fallback; np.linalg.eig has no usable algebraic contract "
        "for degenerate spectra), and the vectors -> Gram -> vectors direction (vectors are unique only up to a unitary)",
        "kp_norm / trace_norm / majorizes on matrices 'equal their singular-value definition': the value is the svd / nuclear-norm kernel "
        "itself; only the argument, the slice [:k] and the order p are checked",
        "spark: correctness of matrix_rank itself", "numerical accuracy of every LAPACK kernel; inputs inside the tolerance window "
        "(neither within atol nor beyond atol + rtol*magnitude) where the definition does not fix the verdict",
        "is_projection: the docstring also asks for positive semidefiniteness, the code and the repository's own test "
        "(a non-symmetric idempotent 'is a projection') use X^2 = X only: checked as X^2 = X",
        "is_orthonormal / is_mutually_orthogonal with a single vector (documented ValueError of is_mutually_orthogonal)",
        "majorizes with vectors of different length and negative entries (zero padding after sorting; no definition given)",
        "invariance under general unitary similarity (degree-4 identities under U^dagger U = I; only permutation similarity, transposition "
        "and conjugation are proved)", "sizes above the bound (property text says 1..6)"],
    "assumptions": ["floats modelled as reals"],
}


# ----------------------------------------------------------------------------------------------
# extensions registered from this module (symnp core untouched)
# ----------------------------------------------------------------------------------------------
def _nditer(a, *args, **kw):
    """np.nditer refuses object arrays without REFS_OK; element iteration is all is_permutation needs"""
    if has_sym(a):
        return iter(list(np.asarray(a, dtype=object).flat))
    return np.nditer(a, *args, **kw)


NP_OVERRIDES["nditer"] = _nditer

_orig_max = HANDLERS[np.max]


def lexmax(vals):
    """numpy's maximum on complex numbers is lexicographic (real part first); exact definitional symbol"""
    import z3
    vals = [lift(v) for v in vals]
    if not any(v.im.t for v in vals):
        return symmax(vals)
    if len(vals) == 1:
        return vals[0]
    c = cur()
    ks = tuple(sorted(set(v.key() for v in vals)))
    ar = c.new_atom("lexmax_re", "lexmax", key=("lexmax", ks, "re"))
    ai = c.new_atom("lexmax_im", "lexmax", key=("lexmax", ks, "im"))
    if ar.info is None:
        ar.info = vals

        def ev(vv, part, vals=vals):
            best = max((float(v.re.evalf(vv)), float(v.im.evalf(vv))) for v in vals)
            return best[part]
        ar.evalf = lambda vv: ev(vv, 0)
        ai.evalf = lambda vv: ev(vv, 1)
        zs = [(v.re.to_z3(c), v.im.to_z3(c)) for v in vals]
        c.side.append(z3.Or(*[z3.And(ar.z3 == r, ai.z3 == i) for r, i in zs]))
        c.side.append(z3.And(*[z3.Or(ar.z3 > r, z3.And(ar.z3 == r, ai.z3 >= i)) for r, i in zs]))
        c.stubs.add("np.max over complex values: lexicographic maximum (definitional symbol)")
    return Sym(Poly.atom(ar.id), Poly.atom(ai.id))


def _h_max(a, axis=None, **k):
    s = sarr(a)
    if axis is None and any(isinstance(v, Sym) and v.im.t for v in s.flat):
        return lexmax(list(s.flat))
    return _orig_max(a, axis=axis, **k)


HANDLERS[np.max] = _h_max
HANDLERS[np.amax] = _h_max


def _all_const(a):
    return all(lift(v).is_const() for v in np.asarray(a, dtype=object).flat)


def _to_float(a):
    a = np.asarray(a, dtype=object)
    out = np.array([complex(lift(v).cval()) for v in a.flat]).reshape(a.shape)
    return out.real if not np.any(out.imag) else out


def _chol_succeeds(m):
    try:
        np.linalg.cholesky(m)
        return True
    except np.linalg.LinAlgError:
        return False


def chol_ok(a):
    """'LAPACK potrf succeeds on a' - an uninterpreted predicate of the argument (symbolic) / the real thing (numbers)"""
    if has_sym(a):
        a = lifted(np.asarray(a, dtype=object))
        if _all_const(a):
            return SymBool(_chol_succeeds(_to_float(a)))
        f = kernel("cholesky_ok", [a], [((), "r")], concrete=lambda m: 1.0 if _chol_succeeds(m) else 0.0)[0]
        return f >= 1
    return _chol_succeeds(np.asarray(a))


@handles(np.linalg.cholesky)
def _h_cholesky(a, **k):
    """Cholesky may fail: the failure is a path (LinAlgError), success returns the factor kernel; contract on request"""
    a = lifted(np.asarray(a, dtype=object))
    n = a.shape[0]
    if _all_const(a):
        return lifted(np.linalg.cholesky(_to_float(a)))
    if not chol_ok(a):
        raise np.linalg.LinAlgError("Matrix is not positive definite")
    c = cur()
    fresh = ("kernel", "cholesky", (a.key(),), ()) not in c.by_key
    L = kernel("cholesky", [a], [((n, n), "c")], concrete=np.linalg.cholesky)[0]
    if fresh and "cholesky" in getattr(c, "contracts", ()):
        from symnp.core import as_z3
        Ln = np.asarray(L)
        for i in range(n):
            for j in range(n):
                if j > i:
                    c.side.append(as_z3(Ln[i, j].eq_solver(0)))
        c.side.append(as_z3(And(*[Ln[i, i].imag.eq_solver(0) for i in range(n)])))
        c.side.append(as_z3(And(*[Ln[i, i].real > 0 for i in range(n)])))
        P = Ln @ Ln.conj().T
        for i in range(n):
            for j in range(n):     # potrf reads the lower triangle (and the real part of the diagonal) only
                h = a[i, j] if i > j else (a[j, i].conjugate() if i < j else a[i, i].real)
                c.side.append(as_z3(lift(P[i, j]).eq_solver(h)))
        c.stubs.add("contract cholesky: L lower triangular, positive diagonal, L L^dagger = G (lower triangle of G)")
    return L


def null_space_contract(k):
    """stand-in for scipy.linalg.null_space with k returned columns: uninterpreted, contract M n = 0 (nothing else)"""
    import scipy.linalg

    def f(m, rcond=None):
        if not has_sym(m):
            return scipy.linalg.null_space(m, rcond)
        from symnp.core import as_z3
        m = lifted(np.asarray(m, dtype=object))
        c = cur()
        fresh = ("kernel", "null_space", (m.key(),), (k,)) not in c.by_key
        ns = kernel("null_space", [m], [((m.shape[1], k), "c")], extra=(k,),
                    concrete=lambda x: _pad_cols(scipy.linalg.null_space(x), k))[0]
        if fresh:
            prod = np.asarray(m) @ np.asarray(ns)
            for v in prod.flat:
                c.side.append(as_z3(lift(v).eq_solver(0)))
            c.stubs.add("contract null_space: M n = 0 for every returned column (number of columns fixed by the configuration)")
        return ns
    return f


def _pad_cols(x, k):
    out = np.zeros((x.shape[0], k), dtype=complex)
    out[:, :min(k, x.shape[1])] = x[:, :k]
    return out


# ----------------------------------------------------------------------------------------------
# polymorphic helpers (symbolic scalars and plain numbers), explicit loops
# ----------------------------------------------------------------------------------------------
def sb(x):
    if isinstance(x, SymBool):
        return x
    if isinstance(x, np.ndarray):
        x = x.reshape(-1)[0]
        if isinstance(x, SymBool):
            return x
    return SymBool(bool(x))


def O(x):
    """own view of an input: plain object ndarray (entries Sym or numbers)"""
    a = np.asarray(x)
    if a.dtype == object:
        return np.asarray(lifted(a)) if has_sym(a) else a
    return a.astype(object)


def tq(x):
    """what is handed to toqito: SymArray (symbolic) or a numeric ndarray"""
    a = np.asarray(x)
    if a.dtype == object:
        if has_sym(a):
            return lifted(a)
        try:
            return a.astype(float)
        except (TypeError, ValueError):
            return a.astype(complex)
    return a


def obj(shape, fill=0):
    out = np.empty(shape, dtype=object)
    for idx in np.ndindex(*shape):
        out[idx] = fill
    return out


def mm(A, B):
    A, B = O(A), O(B)
    out = obj((A.shape[0], B.shape[1]))
    for i in range(A.shape[0]):
        for j in range(B.shape[1]):
            t = 0
            for k in range(A.shape[1]):
                t = t + A[i, k] * B[k, j]
            out[i, j] = t
    return out


def dag(A):
    A = O(A)
    out = obj((A.shape[1], A.shape[0]))
    for i in range(A.shape[0]):
        for j in range(A.shape[1]):
            out[j, i] = A[i, j].conjugate()
    return out


def tp(A):
    A = O(A)
    out = obj((A.shape[1], A.shape[0]))
    for i in range(A.shape[0]):
        for j in range(A.shape[1]):
            out[j, i] = A[i, j]
    return out


def cj(A):
    A = O(A)
    out = obj(A.shape)
    for idx in np.ndindex(*A.shape):
        out[idx] = A[idx].conjugate()
    return out


def eye(n):
    out = obj((n, n))
    for i in range(n):
        out[i, i] = 1
    return out


def sub(A, B):
    A, B = O(A), O(B)
    out = obj(A.shape)
    for idx in np.ndindex(*A.shape):
        out[idx] = A[idx] - B[idx]
    return out


def neg_(A):
    A = O(A)
    out = obj(A.shape)
    for idx in np.ndindex(*A.shape):
        out[idx] = -A[idx]
    return out


def tr_(A):
    A = O(A)
    t = 0
    for i in range(A.shape[0]):
        t = t + A[i, i]
    return t


def inner(u, v):
    """<u, v> = sum conj(u_k) v_k"""
    u, v = O(u).reshape(-1), O(v).reshape(-1)
    t = 0
    for a, b in zip(u, v):
        t = t + a.conjugate() * b
    return t


def abs2(z):
    return z.real * z.real + z.imag * z.imag


def l1(z):
    return abs(z.real) + abs(z.imag)


def gt_any(z, t):
    """max(|re z|, |im z|) > t"""
    return Or(z.real > t, -z.real > t, z.imag > t, -z.imag > t)


def thr(atol, rtol, mag):
    """atol + rtol*mag ; exact rational arithmetic on the binary values of the tolerances while symbolic (as the allclose model does)"""
    from symnp import core
    if core._CTX:
        return lift(atol) + lift(rtol) * lift(mag)
    return atol + rtol * mag


def num0(x):
    return isinstance(x, (int, float)) and x == 0


def band(pairs, rtol=RTOL, atol=ATOL):
    """(inside, outside): every residual entry within atol/2 (1-norm of re/im)  /  some residual entry beyond
    2*(atol + rtol*(|re|+|im|)) of BOTH sides (inf-norm of re/im).  Between the two the definition does not fix the verdict.
    The factors 2 keep solver models away from the exact tolerance boundary, where one rounding error of the real
    floating-point evaluation decides (floats are modelled as reals), so that candidates replay faithfully."""
    ins, outs = [], []
    for lhs, rhs in pairs:
        L, R = np.broadcast_arrays(O(lhs), O(rhs))
        for a, b in zip(L.flat, R.flat):
            d = a - b
            ins.append(l1(d) <= atol / 2)
            outs.append(gt_any(d, 2 * thr(atol, rtol, l1(a))) & gt_any(d, 2 * thr(atol, rtol, l1(b))))
    return And(*ins), Or(*outs)


def band_post(res, exp, i):
    ins, outs = exp
    r = sb(res)
    return sb(implies(ins, r)) & sb(implies(outs, ~r))


def band_neg(exp):
    """deliberately wrong band: refutable on every path, also when the verdict is a path constant"""
    return (~sb(exp[0]), ~sb(exp[1]))


def bool_neg(exp):
    return ~sb(exp)


def bool_post(res, exp, i):
    return sb(res) == sb(exp)


def bounded(arrs, B):
    cs = []
    for a in arrs:
        for v in O(a).flat:
            if isinstance(v, (int, float)):
                continue
            cs += [v.real <= B, v.real >= -B, v.imag <= B, v.imag >= -B]
    return cs


def differs(pairs, m):
    cs = []
    for lhs, rhs in pairs:
        L, R = np.broadcast_arrays(O(lhs), O(rhs))
        for a, b in zip(L.flat, R.flat):
            d = a - b
            cs += [d.real > m, d.real < -m, d.imag > m, d.imag < -m]
    return Or(*cs)


def mk_valid(pre):
    def valid(ni):
        return all(bool(sb(c)) for c in pre(ni))
    return valid


def perm_matrix(p):
    n = len(p)
    out = obj((n, n))
    for i in range(n):
        out[i, p[i]] = 1
    return out


# ----------------------------------------------------------------------------------------------
# tolerance predicates: definition = list of (lhs, rhs) pairs, or None when the shape alone decides False
# ----------------------------------------------------------------------------------------------
def sq(A):
    return O(A).shape[0] == O(A).shape[1]


def d_hermitian(A):
    return [(A, dag(A))] if sq(A) else None


def d_anti_hermitian(A):
    return [(A, neg_(dag(A)))] if sq(A) else None


def d_symmetric(A):
    return [(A, tp(A))] if sq(A) else None


def d_normal(A):
    return [(mm(A, dag(A)), mm(dag(A), A))] if sq(A) else None


def d_unitary(A):
    n = O(A).shape[0]
    return [(mm(dag(A), A), eye(n)), (mm(A, dag(A)), eye(n))] if sq(A) else None


def d_idempotent(A):
    return [(mm(A, A), A)] if sq(A) else None


def d_identity(A):
    return [(A, eye(O(A).shape[0]))] if sq(A) else None


def sig(p, q):
    J = obj((p + q, p + q))
    for k in range(p + q):
        J[k, k] = 1 if k < p else -1
    return J


def d_pseudo_unitary(p, q):
    def d(A):
        if not sq(A) or p + q != O(A).shape[0]:
            return None
        J = sig(p, q)
        return [(mm(mm(dag(A), J), A), J)]
    return d


def d_circulant(A):
    A = O(A)
    if not sq(A):
        return None
    n = A.shape[0]
    return [([A[i + 1, j] for j in range(n)], [A[i, (j - 1) % n] for j in range(n)]) for i in range(n - 1)]


TOL_PREDS = {
    # name: (function, definition, passes tolerances?)
    "is_hermitian": (is_hermitian, d_hermitian, True),
    "is_anti_hermitian": (is_anti_hermitian, d_anti_hermitian, True),
    "is_symmetric": (is_symmetric, d_symmetric, True),
    "is_normal": (is_normal, d_normal, True),
    "is_unitary": (is_unitary, d_unitary, True),
    "is_projection": (is_projection, d_idempotent, True),
    "is_idempotent": (is_idempotent, d_idempotent, True),
    "is_identity": (is_identity, d_identity, True),
    "is_circulant": (is_circulant, d_circulant, False),
}


def _lookup(pred):
    if pred.startswith("is_pseudo_unitary"):
        p, q = map(int, pred.split(":")[1].split(","))
        return (lambda A, **kw: is_pseudo_unitary(A, p, q, **kw)), d_pseudo_unitary(p, q), True
    return TOL_PREDS[pred]


def ob_band(pred, shape, kind, tol=None):
    fn, defn, has_tol = _lookup(pred)
    cfg = {"predicate": pred, "shape": list(shape), "entries": kind, "rtol": tol[0] if tol else RTOL, "atol": tol[1] if tol else ATOL}
    kw = {"rtol": tol[0], "atol": tol[1]} if tol else {}

    def build(b):
        return {"A": b.array("A", shape, kind)}

    def call(i):
        return fn(tq(i["A"]), **kw)

    def oracle(i):
        pairs = defn(i["A"])
        if pairs is None:
            return (False, True)
        return band(pairs, *(tol or (RTOL, ATOL)))
    name = pred.split(":")[0] + (".band_within_atol_true_beyond_rtol_false" if shape[0] == shape[1] else ".nonsquare_false")
    # complex is_circulant forks on |d| <= t of CONSTANT complex d in translator validation: |d| is a sqrt symbol without value in
    # "lra", so the concrete run may follow the wrong branch; the proof obligations themselves are unaffected (over-approximation)
    return Obligation(name, cfg, build, call, oracle, post=band_post, neg=band_neg, max_paths=64, tv=_tv_ok(pred, kind))


def _tv_ok(pred, kind):
    return not (kind == "c" and pred == "is_circulant")


def ob_margin(pred, n, kind, B=100, m=1e-2):
    """both sides of the defining equation bounded by B entry-wise, some entry differs by more than m  =>  False"""
    fn, defn, _ = _lookup(pred)
    cfg = {"predicate": pred, "n": n, "entries": kind, "bound": B, "margin": m}

    def build(b):
        return {"A": b.array("A", (n, n), kind)}

    def call(i):
        return fn(tq(i["A"]))

    def oracle(i):
        return False

    def pre(i):
        pairs = defn(i["A"])
        return bounded([x for pr in pairs for x in pr], B) + [differs(pairs, m)]
    return Obligation(pred.split(":")[0] + ".violated_by_margin_false", cfg, build, call, oracle, post=bool_post, neg=bool_neg,
                      assume=pre, valid=mk_valid(pre), max_paths=64, tv=_tv_ok(pred, kind))


# ---- exact by construction ---------------------------------------------------------------------
def unit_pair(b, nm):
    """(c, s) with c*c + s*s = 1 (the equation is returned as a precondition)"""
    c, s = b.real(nm + "c"), b.real(nm + "s")
    return c, s


def fam_hermitian(b, n, kind):
    return {"A": b.array("A", (n, n), "h" if kind == "c" else "s")}, []


def fam_hermitian_sum(b, n, kind):
    B = b.array("B", (n, n), kind)
    out = obj((n, n))
    Bo = O(B)
    for i in range(n):
        for j in range(n):
            out[i, j] = Bo[i, j] + Bo[j, i].conjugate()
    return {"A": lifted(out)}, []


def fam_anti(b, n, kind):
    B = O(b.array("B", (n, n), kind))
    out = obj((n, n))
    for i in range(n):
        for j in range(n):
            out[i, j] = B[i, j] - B[j, i].conjugate()
    return {"A": lifted(out)}, []


def fam_symmetric(b, n, kind):
    B = O(b.array("B", (n, n), kind))
    out = obj((n, n))
    for i in range(n):
        for j in range(n):
            out[i, j] = B[i, j] + B[j, i]
    return {"A": lifted(out)}, []


def fam_diag(b, n, kind):
    out = obj((n, n))
    for i in range(n):
        out[i, i] = b.cplx(f"d{i}") if kind == "c" else b.real(f"d{i}")
    return {"A": lifted(out)}, []


def fam_circulant(b, n, kind):
    c = [b.cplx(f"c{i}") if kind == "c" else b.real(f"c{i}") for i in range(n)]
    out = obj((n, n))
    for i in range(n):
        for j in range(n):
            out[i, j] = c[(j - i) % n]
    return {"A": lifted(out)}, []


def fam_rotscale(b, n, kind):
    """direct sum of 2x2 blocks [[a,-b],[b,a]] (normal, not Hermitian) and a 1x1 block"""
    out = obj((n, n))
    k = 0
    while k + 1 < n:
        x = b.cplx(f"a{k}") if kind == "c" and n == 2 else b.real(f"a{k}")
        y = b.real(f"b{k}")
        out[k, k], out[k, k + 1], out[k + 1, k], out[k + 1, k + 1] = x, -y, y, x
        k += 2
    if k < n:
        out[k, k] = b.cplx("z") if kind == "c" else b.real("z")
    return {"A": lifted(out)}, []


def fam_phase_perm(perm):
    def fam(b, n, kind):
        out = obj((n, n))
        pre = []
        for i in range(n):
            c, s = unit_pair(b, f"p{i}")
            if kind == "c":
                out[i, perm[i]] = c + 1j * s
                pre.append((c * c + s * s).eq_solver(1))
            else:
                out[i, perm[i]] = c
                pre.append((c * c).eq_solver(1))
        return {"A": lifted(out)}, pre
    return fam


def su2(b, nm, kind):
    if kind == "c":
        a, c = b.cplx(nm + "a"), b.cplx(nm + "b")
    else:
        a, c = b.real(nm + "a"), b.real(nm + "b")
    blk = [[a, -c.conjugate()], [c, a.conjugate()]]
    return blk, (abs2(a) + abs2(c)).eq_solver(1)


def fam_su2_block(b, n, kind):
    """SU(2) block [[a,-conj b],[b,conj a]], |a|^2+|b|^2 = 1, direct sum with a phase for n = 3, two blocks for n = 4"""
    out = obj((n, n))
    pre = []
    k = 0
    while k + 1 < n:
        blk, c = su2(b, f"u{k}", kind)
        pre.append(c)
        out[k, k], out[k, k + 1], out[k + 1, k], out[k + 1, k + 1] = blk[0][0], blk[0][1], blk[1][0], blk[1][1]
        k += 2
    if k < n:
        c, s = unit_pair(b, "ph")
        out[k, k] = (c + 1j * s) if kind == "c" else c
        pre.append((c * c + s * s).eq_solver(1) if kind == "c" else (c * c).eq_solver(1))
    if n == 3:   # conjugate by a fixed permutation so that the block is not aligned with the corner
        P = perm_matrix([2, 0, 1])
        out = mm(mm(P, out), tp(P))
    return {"A": lifted(out)}, pre


def fam_assumed(defn):
    """arbitrary matrix under the precondition that the defining equations hold exactly"""
    def fam(b, n, kind):
        A = b.array("A", (n, n), kind)
        pre = []
        for lhs, rhs in defn(A):
            L, R = np.broadcast_arrays(O(lhs), O(rhs))
            for x, y in zip(L.flat, R.flat):
                pre.append(lift(x).eq_solver(y))
        return {"A": A}, pre
    return fam


def fam_hyperbolic(p, q):
    """pseudo-unitary for signature (p, q): phases on the diagonal, one hyperbolic rotation mixing index p-1 and p"""
    def fam(b, n, kind):
        out = obj((n, n))
        pre = []
        for i in range(n):
            c, s = unit_pair(b, f"p{i}")
            out[i, i] = (c + 1j * s) if kind == "c" else c
            pre.append((c * c + s * s).eq_solver(1) if kind == "c" else (c * c).eq_solver(1))
        if p >= 1 and q >= 1:
            ch, sh = b.real("ch"), b.real("sh")
            pre.append((ch * ch - sh * sh).eq_solver(1))
            i, j = p - 1, p
            out[i, i], out[i, j], out[j, i], out[j, j] = ch, sh, sh, ch
        return {"A": lifted(out)}, pre
    return fam


def fam_block_idempotent(r):
    """[[I_r, T],[0, 0]] : idempotent for every T (oblique projector); r = n gives the identity"""
    def fam(b, n, kind):
        out = obj((n, n))
        for i in range(r):
            out[i, i] = 1
            for j in range(r, n):
                out[i, j] = b.cplx(f"t{i}{j}") if kind == "c" else b.real(f"t{i}{j}")
        return {"A": lifted(out)}, []
    return fam


def fam_rank1_projector(b, n, kind):
    """|v><v| with v = (c, s [* phase]) , c^2 + s^2 = 1 : Hermitian projector (degree 4 identity: mode nra)"""
    c, s = unit_pair(b, "v")
    v = [c, s] + [0] * (n - 2)
    out = obj((n, n))
    for i in range(n):
        for j in range(n):
            out[i, j] = v[i] * v[j]
    return {"A": lifted(out)}, [(c * c + s * s).eq_solver(1)]


def fam_identity(b, n, kind):
    return {"A": lifted(eye(n))}, []


EXACT = {
    "is_hermitian": [("hermitian_entries", fam_hermitian, "lra"), ("B_plus_B_dagger", fam_hermitian_sum, "lra"), ("diagonal_real", lambda b, n, k: fam_diag(b, n, "r"), "lra")],
    "is_anti_hermitian": [("B_minus_B_dagger", fam_anti, "lra")],
    "is_symmetric": [("B_plus_B_transpose", fam_symmetric, "lra"), ("diagonal", fam_diag, "lra")],
    "is_normal": [("hermitian_entries", fam_hermitian, "lra"), ("B_minus_B_dagger", fam_anti, "lra"), ("diagonal", fam_diag, "lra"),
                  ("circulant", fam_circulant, "lra"), ("rotation_scaling_blocks", fam_rotscale, "lra"), ("su2_blocks", fam_su2_block, "lra")],
    "is_unitary": [("su2_blocks", fam_su2_block, "lra"), ("assumed_UhU_and_UUh_identity", fam_assumed(d_unitary), "lra")],
    "is_projection": [("assumed_A2_equals_A", fam_assumed(d_idempotent), "lra"), ("rank1_hermitian_projector", fam_rank1_projector, "nra")],
    "is_idempotent": [("assumed_A2_equals_A", fam_assumed(d_idempotent), "lra"), ("rank1_hermitian_projector", fam_rank1_projector, "nra")],
    "is_identity": [("identity", fam_identity, "lra")],
    "is_circulant": [("circulant", fam_circulant, "lra")],
}


def ob_exact(pred, label, fam, n, kind, mode="lra"):
    fn, defn, _ = _lookup(pred)
    cfg = {"predicate": pred, "family": label, "n": n, "entries": kind}
    holder = {}

    def build(b):
        inputs, pre = fam(b, n, kind)
        holder["pre"] = pre
        return inputs

    def call(i):
        return fn(tq(i["A"]))

    def oracle(i):
        return True

    def assume(i):
        return holder["pre"]

    def valid(ni):
        pairs = defn(ni["A"])
        return all(abs(complex(a) - complex(b)) < 1e-12 for l, r in pairs for a, b in zip(*map(lambda x: x.flat, np.broadcast_arrays(O(l), O(r)))))
    return Obligation(pred.split(":")[0] + ".exact_by_construction_true", cfg, build, call, oracle, post=bool_post, neg=bool_neg,
                      assume=assume, valid=valid, mode=mode, max_paths=64, tv=(mode == "lra") and _tv_ok(pred, kind))



# ----------------------------------------------------------------------------------------------
# pseudo-unitary, commuting
# ----------------------------------------------------------------------------------------------
def ob_pseudo_unitary_args(p, q, n):
    """negative p or q raises ValueError, nothing else does"""
    cfg = {"p": p, "q": q, "n": n}

    def build(b):
        return {"A": b.array("A", (n, n), "c")}

    def call(i):
        return is_pseudo_unitary(tq(i["A"]), p, q)

    def oracle(i):
        d = d_pseudo_unitary(p, q)(i["A"])
        return (False, True) if d is None else band(d)

    def exc_post(e, i):
        return isinstance(e, ValueError) and (p < 0 or q < 0)
    return Obligation("is_pseudo_unitary.signature_arguments", cfg, build, call, oracle, post=band_post, neg=band_neg, exc_post=exc_post)


def d_commuting(A, B):
    n = O(A).shape[0]
    return [(sub(mm(A, B), mm(B, A)), obj((n, n)))]


def ob_commuting(form, n, kind, B=100, m=1e-2):
    cfg = {"form": form, "n": n, "entries": kind}

    def build(b):
        A = b.array("A", (n, n), kind)
        if form == "exact_polynomial_in_A":
            co = [b.cplx(f"k{j}") if kind == "c" else b.real(f"k{j}") for j in range(3)]
            A2 = mm(A, A)
            out = obj((n, n))
            I = eye(n)
            Ao = O(A)
            for idx in np.ndindex(n, n):
                out[idx] = co[0] * I[idx] + co[1] * Ao[idx] + co[2] * A2[idx]
            return {"A": A, "B": lifted(out)}
        return {"A": A, "B": b.array("B", (n, n), kind)}

    def call(i):
        return is_commuting(tq(i["A"]), tq(i["B"]))

    def oracle(i):
        if form == "band":
            return band(d_commuting(i["A"], i["B"]))
        return (True, False) if form == "exact_polynomial_in_A" else (False, True)

    def pre(i):
        if form != "margin":
            return []
        pairs = d_commuting(i["A"], i["B"])
        return bounded([pairs[0][0]], B) + [differs(pairs, m)]
    name = {"band": "band_within_atol_true_beyond_rtol_false", "margin": "violated_by_margin_false",
            "exact_polynomial_in_A": "exact_by_construction_true"}[form]
    return Obligation("is_commuting." + name, cfg, build, call, oracle, post=band_post, neg=band_neg, assume=pre, valid=mk_valid(pre))


# ----------------------------------------------------------------------------------------------
# comparison predicates: exact equivalences
# ----------------------------------------------------------------------------------------------
def ob_square(shape):
    cfg = {"shape": list(shape)}

    def build(b):
        return {"A": b.array("A", shape, "c")}

    def call(i):
        return is_square(tq(i["A"]))

    def oracle(i):
        return shape[0] == shape[1]

    def exc_post(e, i):
        return isinstance(e, ValueError) and len(shape) != 2
    return Obligation("is_square.shape", cfg, build, call, oracle, post=bool_post, neg=bool_neg, exc_post=exc_post)


def exact_zero(v):
    return lift(v).eq(0) if isinstance(v, Sym) else (v == 0)


def ob_diagonal(shape, kind):
    cfg = {"shape": list(shape), "entries": kind}

    def build(b):
        return {"A": b.array("A", shape, kind)}

    def call(i):
        return is_diagonal(tq(i["A"]))

    def oracle(i):
        A = O(i["A"])
        if shape[0] != shape[1]:
            return False
        return And(*[exact_zero(A[r, c]) for r in range(shape[0]) for c in range(shape[1]) if r != c])
    return Obligation("is_diagonal.iff_offdiagonal_zero", cfg, build, call, oracle, post=bool_post, neg=bool_neg)


def ob_diag_dominant(shape, kind, strict):
    cfg = {"shape": list(shape), "entries": kind, "is_strict": strict}

    def build(b):
        return {"A": b.array("A", shape, kind)}

    def call(i):
        return is_diagonally_dominant(tq(i["A"]), strict) if strict is not None else is_diagonally_dominant(tq(i["A"]))

    def oracle(i):
        A = O(i["A"])
        if shape[0] != shape[1]:
            return False
        cs = []
        for r in range(shape[0]):
            off = 0
            for c in range(shape[1]):
                if c != r:
                    off = off + abs(A[r, c])
            cs.append(abs(A[r, r]) > off if strict in (True, None) else abs(A[r, r]) >= off)
        return And(*cs)
    # complex: |a| of CONSTANT complex a is a valueless sqrt symbol in "lra", so translator validation may fork the wrong way
    return Obligation("is_diagonally_dominant.iff_row_dominance", cfg, build, call, oracle, post=bool_post, neg=bool_neg, max_paths=64,
                      tv=kind != "c")


def ob_entrywise(pred, shape, mat_type=None):
    """is_nonnegative / is_positive : exact equivalence with the entry-wise sign condition"""
    cfg = {"predicate": pred, "shape": list(shape)}
    if mat_type is not None:
        cfg["mat_type"] = mat_type

    def build(b):
        return {"A": b.array("A", shape, "r")}

    def call(i):
        if pred == "is_positive":
            return is_positive(tq(i["A"]))
        return is_nonnegative(tq(i["A"])) if mat_type is None else is_nonnegative(tq(i["A"]), mat_type)

    def oracle(i):
        A = O(i["A"])
        return And(*[(v > 0) if pred == "is_positive" else (v >= 0) for v in A.flat])

    def exc_post(e, i):
        return isinstance(e, TypeError) and mat_type not in (None, "nonnegative", "doubly")
    return Obligation(pred + ".iff_entrywise_sign", cfg, build, call, oracle, post=bool_post, neg=bool_neg, exc_post=exc_post,
                      max_paths=2 ** (shape[0] * shape[1]) + 8, weight=3 if shape[0] * shape[1] > 6 else 1)


def ob_permutation(shape):
    cfg = {"shape": list(shape)}

    def build(b):
        return {"A": b.array("A", shape, "r")}

    def call(i):
        return is_permutation(tq(i["A"]))

    def oracle(i):
        A = O(i["A"])
        cs = [Or(exact_zero(v), exact_zero(v - 1)) for v in A.flat]
        for r in range(shape[0]):
            cs.append(exact_zero(sum(A[r, c] for c in range(shape[1])) - 1))
        for c in range(shape[1]):
            cs.append(exact_zero(sum(A[r, c] for r in range(shape[0])) - 1))
        return And(*cs)
    return Obligation("is_permutation.iff_zero_one_rows_and_columns_sum_to_one", cfg, build, call, oracle, post=bool_post, neg=bool_neg,
                      max_paths=3 ** (shape[0] * shape[1]) + 8, weight=20 if shape[0] * shape[1] > 6 else 1, wall_cap_s=900)


def minors(A, sizes):
    A = O(A)
    m, n = A.shape
    out = []
    for j in sizes:
        for kr in itertools.combinations(range(m), j):
            for kc in itertools.combinations(range(n), j):
                out.append(leibniz([[A[r, c] for c in kc] for r in kr]))
    return out


def leibniz(rows):
    n = len(rows)
    tot = 0
    for p in itertools.permutations(range(n)):
        sign = 1
        for a in range(n):
            for b_ in range(a + 1, n):
                if p[a] > p[b_]:
                    sign = -sign
        t = sign
        for r in range(n):
            t = t * rows[r][p[r]]
        tot = tot + t
    return tot


def ob_totally_positive(shape, sub_sizes, tol=None):
    cfg = {"shape": list(shape), "sub_sizes": sub_sizes, "tol": tol if tol is not None else 1e-6}
    tl = tol if tol is not None else 1e-6
    sizes = sub_sizes if sub_sizes is not None else list(range(1, min(shape) + 1))

    def build(b):
        return {"A": b.array("A", shape, "r")}

    def call(i):
        kw = {}
        if tol is not None:
            kw["tol"] = tol
        if sub_sizes is not None:
            kw["sub_sizes"] = sub_sizes
        return is_totally_positive(tq(i["A"]), **kw)

    def oracle(i):
        ms = minors(i["A"], sizes)
        return And(*[d >= tl for d in ms]), Or(*[d < -tl for d in ms])
    n1 = shape[0] * shape[1] if 1 in sizes else 0
    return Obligation("is_totally_positive.all_minors_above_tol_true_some_minor_below_minus_tol_false", cfg, build, call, oracle,
                      post=band_post, neg=band_neg, max_paths=3 ** n1 * 4 + 64, weight=10 if n1 >= 4 else 1)


# ----------------------------------------------------------------------------------------------
# stochastic
# ----------------------------------------------------------------------------------------------
def d_stochastic(A, mat_type):
    A = O(A)
    m, n = A.shape
    pairs = []
    if mat_type in ("left", "doubly"):
        pairs.append(([sum(A[r, c] for r in range(m)) for c in range(n)], [1] * n))
    if mat_type in ("right", "doubly"):
        pairs.append(([sum(A[r, c] for c in range(n)) for r in range(m)], [1] * m))
    return pairs


def ob_stochastic(shape, mat_type, form="band"):
    cfg = {"shape": list(shape), "mat_type": mat_type, "form": form}
    n = shape[0]

    def build(b):
        if form == "birkhoff":
            perms = list(itertools.permutations(range(n)))
            w = [b.real(f"w{k}") for k in range(len(perms) - 1)]
            w.append(1 - sum(w))
            out = obj((n, n))
            for wk, p in zip(w, perms):
                for r in range(n):
                    out[r, p[r]] = out[r, p[r]] + wk
            return {"A": lifted(out), "w": w}
        return {"A": b.array("A", shape, "r")}

    def call(i):
        return is_stochastic(tq(i["A"]), mat_type)

    def oracle(i):
        if mat_type not in ("left", "right", "doubly"):
            return (False, False)
        if shape[0] != shape[1]:
            return (False, True)
        if form == "birkhoff":
            return (True, False)
        A = O(i["A"])
        ins, outs = band(d_stochastic(A, mat_type))
        return And(ins, *[v >= 0 for v in A.flat]), Or(outs, *[v < 0 for v in A.flat])

    def pre(i):
        return [wk >= 0 for wk in i["w"]] if form == "birkhoff" else []

    def exc_post(e, i):
        return isinstance(e, TypeError) and mat_type not in ("left", "right", "doubly")
    name = {"band": "nonnegative_and_sums_within_atol_true_negative_entry_or_sum_off_false", "birkhoff": "convex_combination_of_permutations_true"}[form]

    def witness():
        # clear-margin members of each class: columns sum to 1 but rows do not, its transpose, a doubly stochastic matrix,
        # and a matrix with the right sums and one negative entry
        if form != "band" or shape[0] != shape[1] or n < 2:
            return []
        L = np.full((n, n), 0.25 / max(n - 1, 1))
        L[0, :] = 0.75
        L[:, 0] = [0.5] + [0.5 / (n - 1)] * (n - 1)           # every column sums to 1, row 0 sums to more than 1
        D = (np.eye(n) + np.roll(np.eye(n), 1, axis=0)) / 2
        Ng = D.copy()
        Ng[0, 0], Ng[0, 1 % n] = Ng[0, 0] + 0.75, Ng[0, 1 % n] - 0.75
        Ng[1, 0], Ng[1, 1 % n] = Ng[1, 0] - 0.75, Ng[1, 1 % n] + 0.75
        return [{"A": L}, {"A": L.T.copy()}, {"A": D}, {"A": Ng}]
    return Obligation("is_stochastic." + name, cfg, build, call, oracle, post=band_post, neg=band_neg, exc_post=exc_post, assume=pre,
                      valid=mk_valid(pre), max_paths=2 ** (shape[0] * shape[1] + 2) + 8, weight=20 if shape[0] * shape[1] > 6 and form == "band" else 1,
                      neg_control=mat_type in ("left", "right", "doubly"), wall_cap_s=900, witness=witness)


# ----------------------------------------------------------------------------------------------
# sets of vectors
# ----------------------------------------------------------------------------------------------
def gram(vs):
    k = len(vs)
    G = obj((k, k))
    for a in range(k):
        for c in range(k):
            G[a, c] = inner(vs[a], vs[c])
    return G


def offdiag(G):
    k = G.shape[0]
    return [G[a, c] for a in range(k) for c in range(k) if a != c]


def ortho_family(b, d, kind, scaled=True):
    """mutually orthogonal, not normalised: (a, b, 0..), (-conj b, conj a, 0..) * t, (0, 0, z, ..), ..."""
    sc = (lambda nm: b.cplx(nm)) if kind == "c" else (lambda nm: b.real(nm))
    a, c = sc("a"), sc("b")
    vs = []
    v0 = [a, c] + [0] * (d - 2)
    t = sc("t") if scaled else 1
    v1 = [-c.conjugate() * t, a.conjugate() * t] + [0] * (d - 2)
    vs += [v0, v1]
    for k in range(2, d):
        v = [0] * d
        v[k] = sc(f"z{k}")
        vs.append(v)
    return vs


def ob_mutually_orthogonal(k, d, kind, form, ket=False, B=100, m=1e-2):
    cfg = {"vectors": k, "dim": d, "entries": kind, "form": form, "column_kets": ket}

    def build(b):
        if form == "exact":
            vs = ortho_family(b, d, kind)[:k]
            # a fixed coordinate permutation so that the zero pattern is not aligned
            vs = [[v[(j + 1) % d] for j in range(d)] for v in vs]
            return {"V": [lifted(np.array(v, dtype=object)) for v in vs]}
        return {"V": [b.array(f"v{j}", (d,), kind) for j in range(k)]}

    def shaped(v):
        v = tq(v)
        return v.reshape(-1, 1) if ket else v

    def call(i):
        return is_mutually_orthogonal([shaped(v) for v in i["V"]])

    def oracle(i):
        if form == "exact":
            return (True, False)
        if form == "margin":
            return (False, True)
        return band([(offdiag(gram(i["V"])), 0)])

    def pre(i):
        if form != "margin":
            return []
        od = offdiag(gram(i["V"]))
        return bounded([od], B) + [differs([(od, 0)], m)]

    def exc_post(e, i):
        return isinstance(e, ValueError) and k <= 1
    name = {"band": "band_within_atol_true_beyond_false", "margin": "violated_by_margin_false", "exact": "exact_by_construction_true"}[form]
    return Obligation("is_mutually_orthogonal." + name, cfg, build, call, oracle, post=band_post, neg=band_neg, assume=pre,
                      valid=mk_valid(pre), exc_post=exc_post, neg_control=k >= 2)


def ob_orthonormal(k, d, kind, form, B=100, m=1e-2, as_list=False):
    cfg = {"vectors": k, "dim": d, "entries": kind, "form": form,
           "argument": {True: "python list of 1-D arrays", False: "2-D array", "columns": "python list of column vectors (d, 1)"}[as_list]}
    holder = {"pre": []}

    def build(b):
        if form == "exact_unitary_rows":
            inputs, pre = fam_su2_block(b, d, kind)
            holder["pre"] = pre
            return {"V": lifted(O(inputs["A"])[:k, :])}
        return {"V": b.array("V", (k, d), kind)}

    def rows(i):
        V = O(i["V"])
        return [V[r, :] for r in range(k)]

    def call(i):
        V = tq(i["V"])
        if as_list == "columns":          # the shape toqito.states.basis returns
            return is_orthonormal([np.asarray(V[r]).reshape(-1, 1).view(type(V)) if isinstance(V, np.ndarray) else V[r] for r in range(k)])
        return is_orthonormal([V[r] for r in range(k)] if as_list else V)

    def oracle(i):
        if form == "exact_unitary_rows":
            return (True, False)
        if form == "margin":
            return (False, True)
        return band([(gram(rows(i)), eye(k))])

    def pre(i):
        if form == "exact_unitary_rows":
            return holder["pre"]
        if form != "margin":
            return []
        G = gram(rows(i))
        return bounded([G], B) + [differs([(G, eye(k))], m)]

    def valid(ni):
        if form == "exact_unitary_rows":
            G = gram(rows(ni))
            return all(abs(complex(G[a, c]) - (a == c)) < 1e-12 for a in range(k) for c in range(k))
        return mk_valid(pre)(ni)
    name = {"band": "band_within_atol_true_beyond_false", "margin": "violated_by_margin_false", "exact_unitary_rows": "exact_by_construction_true"}[form]
    return Obligation("is_orthonormal." + name, cfg, build, call, oracle, post=band_post, neg=band_neg, assume=pre, valid=valid)


def mub_pairs(V, m, d):
    """|<u,v>|^2 against 1/d for u, v in different bases"""
    lhs = []
    for a in range(m):
        for c in range(a + 1, m):
            for k in range(d):
                for l in range(d):
                    lhs.append(abs2(inner(V[a * d + k], V[c * d + l])))
    return [(lhs, [1.0 / d] * len(lhs))]    # the double nearest to 1/d (5e-17 away for d = 3: far inside the tolerance)


def mub_orthonormal_eqs(V, m, d):
    out = []
    for a in range(m):
        G = gram(V[a * d:(a + 1) * d])
        I = eye(d)
        out.append((G, I))
    return out


def ob_mub(m, d, kind, form, ket=False, extra=0):
    """m bases of dimension d (+ `extra` surplus vectors)"""
    cfg = {"bases": m, "dim": d, "entries": kind, "form": form, "column_kets": ket, "surplus_vectors": extra}
    nv = m * d + extra

    def build(b):
        if form == "exact_qubit_xyz":
            h = lift(Fraction(1, 2)).sqrt()
            s = [b.real(f"s{j}") for j in range(nv)]   # signs: s*s = 1
            base = [[1, 0], [0, 1], [h, h], [h, -h], [h, 1j * h], [h, -1j * h]][:nv]
            return {"V": [lifted(np.array([s[j] * x for x in base[j]], dtype=object)) for j in range(nv)], "s": s}
        if form == "not_a_basis_family":
            h = lift(Fraction(1, 2)).sqrt()
            y = [b.cplx(f"y{j}") if kind == "c" else b.real(f"y{j}") for j in range(2)]
            return {"V": [lifted(np.array(v, dtype=object)) for v in ([1, 0], [1, 0], [h, y[0]], [h, y[1]])]}
        return {"V": [b.array(f"v{j}", (d,), kind) for j in range(nv)]}

    def shaped(v):
        v = tq(v)
        return v.reshape(-1, 1) if ket else v

    def call(i):
        return is_mutually_unbiased_basis([shaped(v) for v in i["V"]])

    def oracle(i):
        if extra:
            return (False, True)
        if form in ("exact_qubit_xyz",):
            return (True, False)
        if form in ("not_orthonormal_by_margin", "not_a_basis_family"):
            return (False, True)
        ins, outs = band(mub_pairs(i["V"], m, d))
        return (ins, False) if form == "orthonormal_and_unbiased" else (False, outs)

    def pre(i):
        if form == "exact_qubit_xyz":
            return [(x * x).eq_solver(1) if isinstance(x, Sym) else abs(x * x - 1) < 1e-12 for x in i["s"]]
        if form == "orthonormal_and_unbiased":   # the definition speaks about orthonormal bases
            cs = []
            for G, I in mub_orthonormal_eqs(i["V"], m, d):
                for x, y in zip(G.flat, I.flat):
                    cs.append(lift(x).eq_solver(y) if isinstance(x, Sym) else abs(x - y) < 1e-9)
            return cs
        if form == "not_orthonormal_by_margin":
            prs = mub_orthonormal_eqs(i["V"], m, d)
            return bounded([v for v in i["V"]], 10) + [differs(prs, 1e-2)]
        return []
    name = {"orthonormal_and_unbiased": "orthonormal_bases_unbiased_within_atol_true", "biased": "overlap_beyond_tolerance_false",
            "exact_qubit_xyz": "exact_by_construction_true", "not_orthonormal_by_margin": "bases_not_orthonormal_by_margin_false",
            "not_a_basis_family": "first_basis_repeats_a_vector_false", "count": "vector_count_not_multiple_of_dim_false"}[form]
    def witness():
        # two ORTHONORMAL bases of C^4 whose overlaps deviate from 1/4 only at (k, l) with l < k: the standard basis and the
        # Fourier basis with rows 2, 3 rotated (c, s) = (0.8, 0.6) and coordinates 1, 2 exchanged; biased, so the verdict is False
        if form == "biased" and m >= 3 and not extra and d in (2, 3):
            # three or more orthonormal bases in which every pair of NEIGHBOURS in the list is unbiased and a pair further apart is
            # not (round-6 seed: only consecutive bases compared): Z, X, Z again / Z, Fourier, Z with a relabelled order
            E = np.eye(d, dtype=complex)
            Fm = np.array([[np.exp(2j * np.pi * a * c_ / d) for c_ in range(d)] for a in range(d)]) / np.sqrt(d)
            fam = [E[k] for k in range(d)] + [Fm[k] for k in range(d)] + [E[(k + 1) % d] for k in range(d)]
            fam += [Fm[k] for k in range(d)] * (m - 3)
            return [{"V": fam[:m * d]}] if m == 3 else []
        if not (form == "biased" and d == 4 and m == 2 and not extra):
            return []
        F = np.array([[1j ** (a * c_) for c_ in range(4)] for a in range(4)]) / 2
        R = F.copy()
        R[2], R[3] = 0.8 * F[2] + 0.6 * F[3], -0.6 * F[2] + 0.8 * F[3]
        R = R[:, [0, 2, 1, 3]]
        E = np.eye(4, dtype=complex)
        return [{"V": [E[k] for k in range(4)] + [R[k] for k in range(4)]}, {"V": [R[k] for k in range(4)] + [E[k] for k in range(4)]}]
    return Obligation("is_mutually_unbiased_basis." + name, cfg, build, call, oracle, post=band_post, neg=band_neg, assume=pre,
                      valid=mk_valid(pre), max_paths=128 if d < 4 else 400, neg_control=not extra, mode="nra" if form == "exact_qubit_xyz" else "lra",
                      tv=form != "exact_qubit_xyz", witness=witness)


# ----------------------------------------------------------------------------------------------
# invariance of the verdict under property preserving transformations (exact equality of verdicts)
# ----------------------------------------------------------------------------------------------
def transform(A, t):
    if t == "transpose":
        return tp(A)
    if t == "conjugate":
        return cj(A)
    if t.startswith("perm"):
        n = O(A).shape[0]
        P = perm_matrix(list(range(1, n)) + [0])
        return mm(mm(P, A), tp(P))
    raise ValueError(t)


INVARIANT = {
    "is_hermitian": ("transpose", "conjugate", "perm_similarity"), "is_anti_hermitian": ("transpose", "conjugate", "perm_similarity"),
    "is_symmetric": ("transpose", "conjugate", "perm_similarity"), "is_identity": ("transpose", "conjugate", "perm_similarity"),
    "is_idempotent": ("transpose", "conjugate", "perm_similarity"), "is_projection": ("transpose", "conjugate", "perm_similarity"),
    "is_unitary": ("transpose", "conjugate", "perm_similarity"), "is_normal": ("conjugate", "perm_similarity"),
    "is_diagonal": ("transpose", "conjugate", "perm_similarity"), "is_diagonally_dominant": ("conjugate", "perm_similarity"),
}
_FN = {"is_diagonal": is_diagonal, "is_diagonally_dominant": is_diagonally_dominant}


def ob_invariance(pred, t, n, kind):
    fn = _FN.get(pred) or TOL_PREDS[pred][0]
    cfg = {"predicate": pred, "transformation": t, "n": n, "entries": kind}

    def build(b):
        return {"A": b.array("A", (n, n), kind)}

    def call(i):
        A = i["A"]
        return [sb(fn(tq(A))) == sb(fn(tq(transform(A, t))))]

    def oracle(i):
        return [True]

    def post(res, exp, i):
        return sb(res[0])
    return Obligation(pred + ".verdict_invariant_under_" + t, cfg, build, call, oracle, post=post, neg_control=False, max_paths=64,
                      tv=False)


def ob_commuting_symmetry(n, kind):
    cfg = {"n": n, "entries": kind}

    def build(b):
        return {"A": b.array("A", (n, n), kind), "B": b.array("B", (n, n), kind)}

    def call(i):
        A, B = i["A"], i["B"]
        v = sb(is_commuting(tq(A), tq(B)))
        return [v == sb(is_commuting(tq(B), tq(A))), v == sb(is_commuting(tq(tp(A)), tq(tp(B)))), v == sb(is_commuting(tq(dag(B)), tq(dag(A))))]

    def post(res, exp, i):
        return And(*[sb(r) for r in res])
    return Obligation("is_commuting.verdict_symmetric_and_invariant_under_transpose_adjoint", cfg, build, call, lambda i: [True], post=post,
                      neg_control=False, tv=False)


def ob_stochastic_transpose(n):
    cfg = {"n": n}

    def build(b):
        return {"A": b.array("A", (n, n), "r")}

    def call(i):
        A = i["A"]
        return [sb(is_stochastic(tq(A), "left")) == sb(is_stochastic(tq(tp(A)), "right")),
                sb(is_stochastic(tq(A), "doubly")) == sb(is_stochastic(tq(tp(A)), "doubly"))]

    def post(res, exp, i):
        return And(*[sb(r) for r in res])
    def witness():
        L = np.full((n, n), 0.25 / max(n - 1, 1))
        L[0, :] = 0.75
        L[:, 0] = [0.5] + [0.5 / (n - 1)] * (n - 1)           # columns sum to 1, rows do not
        return [{"A": L}, {"A": L.T.copy()}] if n >= 2 else []
    return Obligation("is_stochastic.left_of_A_is_right_of_transpose", cfg, build, call, lambda i: [True], post=post, neg_control=False,
                      tv=False, max_paths=4 ** (n * n + 2), witness=witness)



# ----------------------------------------------------------------------------------------------
# kernel based predicates: verdict = stated function of the kernel applied to the documented argument
# ----------------------------------------------------------------------------------------------
def eigvalsh_(A):
    a = tq(A)
    return list(np.linalg.eigvalsh(a))


def eigvals_(A):
    a = tq(A)
    return list(np.linalg.eig(a)[0])


def rank_(M):
    return np.linalg.matrix_rank(tq(M))


def psd_band(A, rtol=RTOL, atol=ATOL):
    """Hermitian (band) with spectrum >= 0 => True ; not Hermitian (band) or an eigenvalue < -atol => False.
    Spectrum = the eigvalsh kernel of A itself (LAPACK reads the lower triangle)."""
    if not sq(A):
        return (False, True)
    hi, ho = band(d_hermitian(A), rtol, atol)
    w = eigvalsh_(A)
    return And(hi, *[x >= 0 for x in w]), Or(ho, *[x < -abs(atol) for x in w])


def ob_psd(shape, kind, tol=None):
    cfg = {"shape": list(shape), "entries": kind, "rtol": tol[0] if tol else RTOL, "atol": tol[1] if tol else ATOL}
    kw = {"rtol": tol[0], "atol": tol[1]} if tol else {}

    def build(b):
        return {"A": b.array("A", shape, kind)}

    def call(i):
        return is_positive_semidefinite(tq(i["A"]), **kw)

    def oracle(i):
        return psd_band(i["A"], *(tol or (RTOL, ATOL)))
    return Obligation("is_positive_semidefinite.hermitian_band_and_sign_of_eigvalsh_kernel", cfg, build, call, oracle, post=band_post,
                      neg=band_neg, tv=False, max_paths=64)


def exact_herm(A):
    A = O(A)
    if A.shape[0] != A.shape[1]:
        return False
    cs = []
    for r in range(A.shape[0]):
        for c in range(A.shape[1]):
            x, y = A[r, c], A[c, r].conjugate()
            cs.append(lift(x).eq(y) if isinstance(x, Sym) or isinstance(y, Sym) else x == y)
    return And(*cs)


def ob_pd(shape, kind):
    """positive definite = Hermitian with a successful Cholesky kernel.  Band form: exactly Hermitian and Cholesky succeeds => True;
    Hermiticity violated by a margin (entries bounded by 10), or exactly Hermitian and Cholesky fails => False.  Witnesses:
    U D U^* in floating point (Hermitian only up to rounding, eigenvalues in [1, 2]) => True."""
    cfg = {"shape": list(shape), "entries": kind}
    square = shape[0] == shape[1]

    def build(b):
        return {"A": b.array("A", shape, kind)}

    def call(i):
        return is_positive_definite(tq(i["A"]))

    def oracle(i):
        if not square:
            return (False, True)
        A = O(i["A"])
        off = []
        for r in range(shape[0]):
            for c in range(shape[1]):
                d = A[r, c] - (A[c, r].conjugate() if hasattr(A[c, r], "conjugate") else A[c, r])
                d = lift(d)
                off += [d.real > 1e-2, d.real < -1e-2, d.imag > 1e-2, d.imag < -1e-2]
        eh = sb(exact_herm(i["A"]))
        ck = sb(chol_ok(tq(i["A"])))
        return eh & ck, Or(*off) | (eh & ~ck)

    def pre(i):
        return bounded([i["A"]], 10)

    def witness():
        if not square or shape[0] < 2:
            return []
        n = shape[0]
        rng = np.random.default_rng(60 + n)
        out = []
        for _ in range(3):
            U = np.linalg.qr(rng.normal(size=(n, n)) + (1j * rng.normal(size=(n, n)) if kind == "c" else 0))[0]
            out.append({"A": U @ np.diag(np.linspace(1.0, 2.0, n)) @ U.conj().T})
        return out

    def post(res, exp, i):
        A = i["A"]
        if isinstance(A, np.ndarray) and A.dtype != object and square and A.shape[0] == A.shape[1]:
            # numeric input that is Hermitian up to rounding with all eigenvalues >= 1/2: positive definite
            if np.max(np.abs(A - A.conj().T)) < 1e-12 and np.linalg.eigvalsh((A + A.conj().T) / 2).min() > 0.5:
                return bool(res) is True
        return band_post(res, exp, i)
    return Obligation("is_positive_definite.hermitian_with_successful_cholesky_true_else_false", cfg, build, call, oracle, post=post,
                      neg=band_neg, assume=pre, valid=mk_valid(pre), tv=False, witness=witness)


def ob_density(n, kind):
    cfg = {"n": n, "entries": kind}

    def build(b):
        return {"A": b.array("A", (n, n), kind)}

    def call(i):
        return is_density(tq(i["A"]))

    def oracle(i):
        pi, po = psd_band(i["A"])
        ti, to = band([([tr_(i["A"])], [1])])
        return And(pi, ti), Or(po, to)
    return Obligation("is_density.psd_band_and_unit_trace", cfg, build, call, oracle, post=band_post, neg=band_neg, tv=False, max_paths=64)


def max_eig(A):
    w = eigvals_(A)
    if has_sym(w):
        return lexmax(w)
    return np.max(np.asarray(w))


def pure_band(A):
    return band([([max_eig(A)], [1])])


def ob_pure(n, kind, count=None, mixed=False):
    """count None: a single matrix; otherwise a list of `count` matrices (every one must be pure)"""
    cfg = {"n": n, "entries": kind, "list_of": count, "predicate": "is_mixed" if mixed else "is_pure"}

    def build(b):
        return {"S": [b.array(f"S{k}", (n, n), kind) for k in range(count or 1)]}

    def call(i):
        arg = tq(i["S"][0]) if count is None else [tq(x) for x in i["S"]]
        return is_mixed(arg) if mixed else is_pure(arg)

    def oracle(i):
        bs = [pure_band(x) for x in i["S"]]
        ins, outs = And(*[x[0] for x in bs]), Or(*[x[1] for x in bs])
        return (outs, ins) if mixed else (ins, outs)
    return Obligation(("is_mixed" if mixed else "is_pure") + ".largest_eigenvalue_of_eig_kernel_is_one", cfg, build, call, oracle,
                      post=band_post, neg=band_neg, tv=False, max_paths=64)


def ob_ensemble(m, n, kind):
    cfg = {"states": m, "n": n, "entries": kind}

    def build(b):
        return {"S": [b.array(f"S{k}", (n, n), kind) for k in range(m)]}

    def call(i):
        return is_ensemble([tq(x) for x in i["S"]])

    def oracle(i):
        bs = [psd_band(x) for x in i["S"]]
        tot = 0
        for x in i["S"]:
            tot = tot + tr_(x)
        ti, to = band([([tot], [1])])
        return And(ti, *[x[0] for x in bs]), Or(to, *[x[1] for x in bs])
    return Obligation("is_ensemble.every_state_psd_band_and_traces_sum_to_one", cfg, build, call, oracle, post=band_post, neg=band_neg,
                      tv=False, max_paths=256)


def ob_nonneg_doubly(n):
    cfg = {"n": n, "mat_type": "doubly"}

    def build(b):
        return {"A": b.array("A", (n, n), "s")}

    def call(i):
        return is_nonnegative(tq(i["A"]), "doubly")

    def oracle(i):
        A = O(i["A"])
        pi, po = psd_band(A)
        return And(pi, *[v >= 0 for v in A.flat]), Or(po, *[v < 0 for v in A.flat])
    return Obligation("is_nonnegative.doubly_is_entrywise_and_psd", cfg, build, call, oracle, post=band_post, neg=band_neg, tv=False,
                      max_paths=2 ** (n * n + n + 1))


def colstack(vs):
    d, k = len(O(vs[0]).reshape(-1)), len(vs)
    M = obj((d, k))
    for j, v in enumerate(vs):
        v = O(v).reshape(-1)
        for r in range(d):
            M[r, j] = v[r]
    return M


def ob_lin_indep(k, d, kind):
    cfg = {"vectors": k, "dim": d, "entries": kind}

    def build(b):
        return {"V": [b.array(f"v{j}", (d,), kind) for j in range(k)]}

    def call(i):
        return is_linearly_independent([tq(v) for v in i["V"]])

    def oracle(i):
        r = rank_(colstack(i["V"]))
        return (r == k)
    return Obligation("is_linearly_independent.rank_kernel_of_column_stack_equals_count", cfg, build, call, oracle, post=bool_post,
                      neg=bool_neg, tv=False)


def ob_pseudo_hermitian(n, kind, sig_kind, tol=None, mshape=None):
    mshape = mshape or (n, n)
    cfg = {"n": n, "entries": kind, "signature_entries": sig_kind, "matrix_shape": list(mshape), "rtol": tol[0] if tol else RTOL,
           "atol": tol[1] if tol else ATOL}
    kw = {"rtol": tol[0], "atol": tol[1]} if tol else {}

    def build(b):
        return {"A": b.array("A", mshape, kind), "eta": b.array("eta", (n, n), sig_kind)}

    def call(i):
        return is_pseudo_hermitian(tq(i["A"]), tq(i["eta"]), **kw)

    def sig_ok(i):
        """(clearly fine, clearly bad): Hermitian band of the signature (default tolerances) and the rank kernel"""
        hi, ho = band(d_hermitian(i["eta"]))
        r = rank_(i["eta"])
        return And(hi, r == n), Or(ho, Not(r == n))

    def oracle(i):
        if mshape != (n, n):
            return (False, True)
        inv = np.linalg.inv(tq(i["eta"]))
        lhs = mm(mm(i["eta"], i["A"]), inv)
        return band([(lhs, dag(i["A"]))], *(tol or (RTOL, ATOL)))

    def post(res, exp, i):
        good, bad = sig_ok(i)
        return sb(band_post(res, exp, i)) & ~sb(bad)      # a verdict is returned only for an admissible signature

    def exc_post(e, i):
        good, bad = sig_ok(i)
        return sb(isinstance(e, ValueError)) & ~sb(good)  # raising is right only if the signature is not (clearly) admissible
    def witness():
        # pseudo-Hermitian by construction: A = eta^{-1} K with K Hermitian (eta A eta^{-1} = K eta^{-1} = A^dagger), for a signature
        # that is NOT an involution (for eta = diag(1,-1) conjugating on either side coincides); and A' = eta K, which is not
        if mshape != (n, n) or n < 2:
            return []
        rng = np.random.default_rng(161)
        out = []
        for _ in range(2):
            eta = np.diag(np.array([1.0, -2.0, 3.0, -0.5, 1.5, 2.5][:n]))
            if sig_kind != "r":
                U = np.linalg.qr(rng.normal(size=(n, n)) + 1j * rng.normal(size=(n, n)))[0]
                eta = U @ eta @ U.conj().T
                eta = (eta + eta.conj().T) / 2
            M = rng.normal(size=(n, n)) + (1j * rng.normal(size=(n, n)) if kind != "r" and sig_kind != "r" else 0)
            K = M + M.conj().T
            out.append({"A": np.linalg.inv(eta) @ K, "eta": eta})
            out.append({"A": eta @ K, "eta": eta})
        return out
    return Obligation("is_pseudo_hermitian.eta_A_inv_eta_against_A_dagger_and_signature_guard", cfg, build, call, oracle, post=post,
                      neg=band_neg, exc_post=exc_post, tv=False, max_paths=64, witness=witness)


def ob_has_same_dimension(shapes):
    cfg = {"shapes": [list(s) for s in shapes]}

    def dim(s):
        return s[0] if len(s) == 1 else s[0] * s[1]

    def build(b):
        return {"X": [b.array(f"X{k}", s, "c") for k, s in enumerate(shapes)]}

    def call(i):
        return has_same_dimension([tq(x) for x in i["X"]])

    def oracle(i):
        return all(dim(s) == dim(shapes[0]) for s in shapes)

    def exc_post(e, i):
        return isinstance(e, ValueError) and len(shapes) == 0
    return Obligation("has_same_dimension.lengths_or_element_counts_agree", cfg, build, call, oracle, post=bool_post, neg=bool_neg,
                      exc_post=exc_post)


def ob_spark(shape):
    cfg = {"shape": list(shape)}
    m, n = shape

    def build(b):
        return {"A": b.array("A", shape, "r")}

    def call(i):
        return spark(tq(i["A"]))

    def oracle(i):
        """smallest k such that some k columns are dependent (rank kernel of those columns < k; a zero column is dependent), else min(m,n)+1"""
        A = O(i["A"])
        cases, none_before = [], SymBool(True)
        for k in range(1, min(m, n) + 1):
            dep = []
            for cols in itertools.combinations(range(n), k):
                subm = obj((m, k))
                for r in range(m):
                    for j, c in enumerate(cols):
                        subm[r, j] = A[r, c]
                dep.append(sb(rank_(subm) < k))
            if k == 1:
                for c in range(n):
                    dep.append(And(*[exact_zero(A[r, c]) for r in range(m)]))
            anyd = Or(*dep)
            cases.append((k, none_before & anyd))
            none_before = none_before & ~anyd
        cases.append((min(m, n) + 1, none_before))
        return cases

    def post(res, exp, i):
        return And(*[sb(implies(c, int(res) == v)) for v, c in exp])

    def neg(exp):
        return [(v + 1, c) for v, c in exp]
    return Obligation("spark.smallest_dependent_column_count_by_rank_kernel", cfg, build, call, oracle, post=post, neg=neg, tv=False,
                      max_paths=2 ** (m * n) * 8 + 64, weight=5 if m * n > 4 else 1)


def ob_kp_norm(shape, kind, k, p):
    cfg = {"shape": list(shape), "entries": kind, "k": k, "p": p if p != np.inf else "inf"}

    def build(b):
        return {"A": b.array("A", shape, kind)}

    def call(i):
        return kp_norm(tq(i["A"]), k, p)

    def oracle(i):
        A = O(i["A"])
        if k >= min(shape) and p == 2:   # documented shortcut: Frobenius norm
            tot = 0
            for v in A.flat:
                tot = tot + abs2(v)
            return np.sqrt(tot) if not isinstance(tot, Sym) else tot.sqrt()
        s = np.linalg.svd(tq(A), compute_uv=False)
        return np.linalg.norm(s[:k], ord=p)
    return Obligation("kp_norm.p_norm_of_first_k_values_of_svd_kernel", cfg, build, call, oracle, tv=False)


def ob_trace_norm(shape, kind):
    cfg = {"shape": list(shape), "entries": kind}

    def build(b):
        return {"A": b.array("A", shape, kind)}

    def call(i):
        return trace_norm(tq(i["A"]))

    def oracle(i):
        A = O(i["A"])
        mine = obj(A.shape)
        for idx in np.ndindex(*A.shape):
            mine[idx] = A[idx]
        return np.linalg.norm(tq(mine), ord="nuc")
    return Obligation("trace_norm.nuclear_norm_kernel_of_argument", cfg, build, call, oracle, tv=False)


# ----------------------------------------------------------------------------------------------
# helpers: vec / unvec / tensor / Gram / commutant / majorizes
# ----------------------------------------------------------------------------------------------
def my_vec(X):
    X = O(X)
    m, n = X.shape
    out = obj((m * n, 1))
    for c in range(n):
        for r in range(m):
            out[c * m + r, 0] = X[r, c]
    return out


def my_kron(A, B):
    A, B = O(A), O(B)
    if A.ndim == 1 and B.ndim == 1:
        out = obj((A.shape[0] * B.shape[0],))
        for a in range(A.shape[0]):
            for c in range(B.shape[0]):
                out[a * B.shape[0] + c] = A[a] * B[c]
        return out
    out = obj((A.shape[0] * B.shape[0], A.shape[1] * B.shape[1]))
    for a in range(A.shape[0]):
        for c in range(A.shape[1]):
            for e in range(B.shape[0]):
                for f in range(B.shape[1]):
                    out[a * B.shape[0] + e, c * B.shape[1] + f] = A[a, c] * B[e, f]
    return out


def ob_vec(shape, kind):
    cfg = {"shape": list(shape), "entries": kind}
    m, n = shape

    def build(b):
        return {"X": b.array("X", shape, kind), "v": b.array("v", (m * n, 1), kind), "w": b.array("w", (m * n,), kind)}

    def call(i):
        X = tq(i["X"])
        out = [vec(X), unvec(vec(X), [m, n]), vec(unvec(tq(i["v"]), [m, n])), vec(unvec(tq(i["w"]), (m, n)))]
        if m == n:
            out.append(unvec(vec(X)))
        return out

    def oracle(i):
        X = O(i["X"])
        out = [my_vec(X), X, O(i["v"]), O(i["w"]).reshape(-1, 1)]
        if m == n:
            out.append(X)
        return out
    return Obligation("vec_unvec.column_major_and_mutual_inverses", cfg, build, call, oracle)


def ob_vec_axb(m, k, l, n, kind):
    cfg = {"A": [m, k], "X": [k, l], "B": [l, n], "entries": kind}

    def build(b):
        return {"A": b.array("A", (m, k), kind), "X": b.array("X", (k, l), kind), "B": b.array("B", (l, n), kind)}

    def call(i):
        A, X, B = tq(i["A"]), tq(i["X"]), tq(i["B"])
        return [vec(A @ X @ B), tensor(B.T, A) @ vec(X), unvec(tensor(B.T, A) @ vec(X), [m, n])]

    def oracle(i):
        rhs = mm(my_kron(tp(i["B"]), i["A"]), my_vec(i["X"]))
        axb = mm(mm(i["A"], i["X"]), i["B"])
        return [rhs, my_vec(axb), axb]
    return Obligation("vec.vec_AXB_equals_Bt_kron_A_vec_X", cfg, build, call, oracle)


def ob_tensor_assoc(shapes, kind):
    cfg = {"shapes": [list(s) for s in shapes], "entries": kind}

    def build(b):
        return {"M": [b.array(f"M{k}", s, kind) for k, s in enumerate(shapes)]}

    def call(i):
        M = [tq(x) for x in i["M"]]
        if len(M) == 2:
            return [tensor(M[0], M[1]), tensor([M[0], M[1]]), tensor([M[0]])]
        if len(M) == 3:
            return [tensor(M[0], M[1], M[2]), tensor(tensor(M[0], M[1]), M[2]), tensor(M[0], tensor(M[1], M[2])), tensor([M[0], M[1], M[2]])]
        return [tensor(*M), tensor(list(M)), tensor(tensor(M[0], M[1]), tensor(M[2], M[3]))]

    def oracle(i):
        M = i["M"]
        r = M[0]
        for x in M[1:]:
            r = my_kron(r, x)
        if len(M) == 2:
            return [r, r, O(M[0])]
        return [r] * (4 if len(M) == 3 else 3)
    return Obligation("tensor.kronecker_entries_associativity_and_list_forms", cfg, build, call, oracle)


def ob_tensor_power(shape, kind, n, count_type="int"):
    cfg = {"shape": list(shape), "entries": kind, "power": n}
    if count_type != "int":
        cfg["count_given_as"] = count_type

    def build(b):
        return {"A": b.array("A", shape, kind)}

    def call(i):
        return tensor(tq(i["A"]), n if count_type == "int" else getattr(np, count_type)(n))

    def oracle(i):
        if n == 0:
            return np.array([[1]], dtype=object)
        r = O(i["A"])
        for _ in range(n - 1):
            r = my_kron(r, i["A"])
        return r
    return Obligation("tensor.n_fold_power_equals_repeated_product", cfg, build, call, oracle)


def ob_gram(k, d, kind, ket=False, ragged=False):
    cfg = {"vectors": k, "dim": d, "entries": kind, "column_kets": ket, "ragged": ragged}

    def build(b):
        return {"V": [b.array(f"v{j}", (d + (1 if ragged and j == k - 1 else 0),), kind) for j in range(k)]}

    def call(i):
        vs = [tq(v).reshape(-1, 1) if ket else tq(v) for v in i["V"]]
        return vectors_to_gram_matrix(vs)

    def oracle(i):
        return gram(i["V"])

    def exc_post(e, i):
        return isinstance(e, ValueError) and ragged
    return Obligation("vectors_to_gram_matrix.entries_are_inner_products", cfg, build, call, oracle, exc_post=exc_post)


def ob_gram_roundtrip(n, kind):
    """G = M^dagger M + I is positive definite by construction; on the path where Cholesky succeeds (contract L L^dagger = G)
    the Gram matrix of the returned vectors must be G again."""
    cfg = {"n": n, "entries": kind, "gram": "M^dagger M + I"}

    def build(b):
        M = b.array("M", (n, n), kind)
        G = mm(dag(M), M)
        for k in range(n):
            G[k, k] = G[k, k] + 1
        return {"G": lifted(G)}

    def call(i):
        vs = vectors_from_gram_matrix(tq(i["G"]))
        return vectors_to_gram_matrix([np.asarray(v) if not has_sym(v) else v for v in vs])

    def oracle(i):
        return O(i["G"])

    def pre(i):
        return [chol_ok(tq(i["G"]))]
    return Obligation("vectors_from_gram_matrix.gram_of_returned_vectors_is_the_input", cfg, build, call, oracle, assume=pre,
                      valid=mk_valid(pre), contracts=("cholesky",), tv=False)


def ob_gram_roundtrip_singular(n, r, kind):
    """G = M^dagger M with M of shape (r, n), r < n: positive semidefinite and singular by construction, so Cholesky fails and the
    code takes its eigendecomposition branch; the Gram matrix of the returned vectors must still be G.  Witnesses: Gram matrices
    with a REPEATED non-zero eigenvalue (trine-type), where an eigen-solver for general matrices returns non-orthogonal vectors."""
    cfg = {"n": n, "rank": r, "entries": kind, "gram": "M^dagger M, M of shape (rank, n)"}

    def build(b):
        M = b.array("M", (r, n), kind)
        return {"G": lifted(mm(dag(M), M))}

    def call(i):
        import contextlib
        import io
        with contextlib.redirect_stdout(io.StringIO()):
            vs = vectors_from_gram_matrix(tq(i["G"]))
        return vectors_to_gram_matrix([np.asarray(v) if not has_sym(v) else v for v in vs])

    def oracle(i):
        return O(i["G"])

    def pre(i):
        return [~sb(chol_ok(tq(i["G"])))]

    def witness():
        out = []
        rng = np.random.default_rng(4 + n)
        Q = np.linalg.qr(rng.normal(size=(n, n)) + (1j * rng.normal(size=(n, n)) if kind == "c" else 0))[0]
        D2 = np.diag([float(k + 1) for k in range(r)] + [0.0] * (n - r))     # distinct non-zero eigenvalues first
        out.append({"G": Q @ D2 @ Q.conj().T, "witness_kind": "distinct non-zero eigenvalues"})
        # n equiangular unit vectors in dimension n-1 (simplex / trine family): G = (n/(n-1)) (I - J/n), eigenvalues n/(n-1) (n-1 times), 0
        G = (np.eye(n) - np.ones((n, n)) / n) * n / (n - 1)
        out.append({"G": G.astype(complex if kind == "c" else float), "witness_kind": "repeated non-zero eigenvalue"})
        D = np.diag([2.0] * r + [0.0] * (n - r))
        out.append({"G": Q @ D @ Q.conj().T, "witness_kind": "repeated non-zero eigenvalue"})
        return out
    return Obligation("vectors_from_gram_matrix.gram_of_returned_vectors_is_the_input_singular_psd", cfg, build, call, oracle, assume=pre,
                      tv=False, witness=witness, neg_control=False, dtype_variants=False)


def ob_gram_nonsquare():
    cfg = {"shape": [3, 2]}

    def build(b):
        return {"G": b.array("G", (3, 2), "c")}

    def call(i):
        return vectors_from_gram_matrix(tq(i["G"]))

    def exc_post(e, i):
        return isinstance(e, np.linalg.LinAlgError)
    return Obligation("vectors_from_gram_matrix.non_square_rejected", cfg, build, call, lambda i: None, post=lambda r, e, i: False,
                      exc_post=exc_post, neg_control=False, tv=False)


def ob_commutant(dim, ngen, kind, k):
    cfg = {"dim": dim, "generators": ngen, "entries": kind, "returned_columns": k, "single_matrix_form": ngen == 0}
    g = max(ngen, 1)

    def build(b):
        return {"A": [b.array(f"A{j}", (dim, dim), kind) for j in range(g)]}

    def call(i):
        A = [tq(x) for x in i["A"]]
        basis = commutant(A[0] if ngen == 0 else A)
        out = []
        for X in basis:
            for a in A:
                out.append(np.asarray(a) @ np.asarray(X) - np.asarray(X) @ np.asarray(a))
        return [len(basis)] + out

    def oracle(i):
        n = None
        return [k if has_sym(i["A"]) else n] + [np.zeros((dim, dim))] * (k * g)

    def post(res, exp, i):
        if exp[0] is None:      # numeric replay: the number of basis elements is whatever null_space returns
            ok = all(np.allclose(np.asarray(r, dtype=complex), 0, atol=1e-7) for r in res[1:])
            if "_dim" in i:     # witnesses with a known commutant dimension ("has the right dimension")
                ok = ok and res[0] == i["_dim"]
            return ok
        return eq(res, exp)

    def witness():
        # structured generators (a generic complex matrix shares no eigenvalue with its conjugate, so a conjugation slip
        # would return an empty basis and go unnoticed): Hermitian with distinct eigenvalues => commutant dimension n
        if kind != "c":
            return []
        rng = np.random.default_rng(16)
        out = []
        for _ in range(2):
            M = rng.normal(size=(dim, dim)) + 1j * rng.normal(size=(dim, dim))
            H = M + M.conj().T
            if ngen <= 1:
                out.append({"A": [H], "_dim": dim})
            else:
                out.append({"A": [H] + [H @ H + (j + 1) * H for j in range(g - 1)], "_dim": dim})
        if dim == 2 and ngen <= 1:
            out.append({"A": [np.array([[0, -1j], [1j, 0]])], "_dim": 2})
        if dim == 3 and ngen <= 1:
            out.append({"A": [np.diag([1, 1j, -1])], "_dim": 3})
        return out
    return Obligation("commutant.every_returned_matrix_commutes_with_every_generator", cfg, build, call, oracle, post=post, witness=witness,
                      neg_control=False, tv=False, extra_patch={"toqito.matrix_props.commutant": {"null_space": null_space_contract(k)}})


def topk(v, k):
    """sum of the k largest entries = maximum over the k-subsets of the subset sum (no sorting)"""
    v = list(v)
    sums = []
    for c in itertools.combinations(range(len(v)), k):
        t = 0
        for j in c:
            t = t + v[j]
        sums.append(t)
    if has_sym(sums):
        return symmax(sums)
    return max(sums)


def ob_majorizes(la, lb, as_list=False, margin=1e-6, B=1000):
    cfg = {"len_a": la, "len_b": lb, "python_lists": as_list, "margin": margin, "norm_bound": B, "nonnegative_entries": la != lb}
    n = max(la, lb)

    def build(b):
        return {"a": b.array("a", (la,), "r"), "b": b.array("b", (lb,), "r")}

    def call(i):
        a, c = tq(i["a"]), tq(i["b"])
        if as_list:
            a, c = list(a), list(c)
        return majorizes(a, c)

    def padded(i):
        a, c = list(O(i["a"])), list(O(i["b"]))
        return a + [0] * (n - la), c + [0] * (n - lb)

    def oracle(i):
        a, c = padded(i)
        ge = [topk(a, k) >= topk(c, k) for k in range(1, n + 1)]
        lt = [topk(a, k) < topk(c, k) - margin for k in range(1, n + 1)]
        return And(*ge), Or(*lt)

    def pre(i):
        a, _ = padded(i)
        tot = 0
        for v in a:
            tot = tot + v * v
        nrm = tot.sqrt() if isinstance(tot, Sym) else np.sqrt(float(tot))
        cs = [nrm <= B]
        if la != lb:   # zero padding is only meaningful for non-negative vectors (probability / singular-value vectors)
            cs += [v >= 0 for v in list(O(i["a"])) + list(O(i["b"]))]
        return cs
    def witness():
        # clear-margin instances on both sides of the verdict (the monomial abstraction of ||a|| can make the solver's own model
        # spurious: these realise the candidates): largest entry of b above / below the largest entry of a
        desc = [0.5, 0.25, 0.125, 0.0625, 0.03125]
        out = []
        for top_b in (0.625, 0.375):
            a = np.array(desc[:la])
            c = np.array([top_b] + [0.0625] * (lb - 1))
            out += [{"a": a, "b": c}, {"a": a[::-1].copy(), "b": c[::-1].copy()}]
        return out
    return Obligation("majorizes.weak_majorisation_by_partial_sums_of_largest_entries", cfg, build, call, oracle, post=band_post,
                      neg=band_neg, assume=pre, valid=mk_valid(pre), max_paths=4000, weight=30 if n >= 3 else 2, wall_cap_s=900, witness=witness)


def ob_majorizes_matrices(sa, sb_, margin=1e-6, B=1000):
    """matrices: the vectors compared are the singular values (svd kernel, contract: non-negative, descending)"""
    cfg = {"shape_a": list(sa), "shape_b": list(sb_), "margin": margin, "norm_bound": B}
    n = max(min(sa), min(sb_))

    def build(b):
        return {"A": b.array("A", sa, "c"), "B": b.array("B", sb_, "c")}

    def call(i):
        return majorizes(tq(i["A"]), tq(i["B"]))

    def svals(i):
        a = list(np.linalg.svd(tq(i["A"]))[1])
        c = list(np.linalg.svd(tq(i["B"]))[1])
        return a + [0] * (n - len(a)), c + [0] * (n - len(c))

    def oracle(i):
        a, c = svals(i)
        ge = [topk(a, k) >= topk(c, k) for k in range(1, n + 1)]
        lt = [topk(a, k) < topk(c, k) - margin for k in range(1, n + 1)]
        return And(*ge), Or(*lt)

    def pre(i):
        a, _ = svals(i)
        tot = 0
        for v in a:
            tot = tot + v * v
        nrm = tot.sqrt() if isinstance(tot, Sym) else np.sqrt(float(tot))
        return [nrm <= B]
    return Obligation("majorizes.matrices_compared_through_singular_values_of_svd_kernel", cfg, build, call, oracle, post=band_post,
                      neg=band_neg, assume=pre, valid=mk_valid(pre), contracts=("svd",), tv=False, max_paths=64)


class UpbDefinitionTask(Task):
    """is_unextendible_product_basis on one concrete family of product vectors with Gaussian-integer local factors: the
    DEFINITION is decided by the solver, not by sampling - 'there are non-zero x_1..x_m with <v_i, x_1 (x) .. (x) x_m> = 0 for
    every i' is, for product v_i = (x)_p v_i^p, the QF_LRA formula  AND_i OR_p <v_i^p, x_p> = 0  AND_p OR_k x_p[k] != 0  over the
    real and imaginary parts of the x_p (unsat = no product vector in the orthogonal complement, over all of C^d1 x .. x C^dm).
    The real function runs on the instance with the real LAPACK kernels; its verdict must be the solver's, and a returned witness
    must be a non-zero product vector orthogonal (Hermitian inner product) to every input.  Instances whose verdict the
    definition does not fix (non-orthogonal sets without an extension) are not built."""
    engine = "solver-decided definition (QF_LRA) vs the real function on a concrete instance"
    weight = 2

    def __init__(self, label, dims, factors, order=None, swap=False):
        order = list(order) if order is not None else list(range(len(factors)))
        super().__init__("is_unextendible_product_basis.verdict_and_witness_match_the_solver_decided_definition",
                         {"instance": label, "dims": list(dims), "order": order, "parties_reversed": bool(swap)})
        fs = [factors[i] for i in order]
        if swap:
            dims, fs = list(dims)[::-1], [list(f)[::-1] for f in fs]
        self.dims = [int(d) for d in dims]
        self.factors = [[np.asarray(v, dtype=complex) for v in f] for f in fs]

    def vectors(self):
        out = []
        for f in self.factors:
            v = np.array([1.0 + 0j])
            for x in f:
                v = np.kron(v, x)
            out.append(v if any(np.iscomplex(x).any() for x in f) else v.real)
        return out

    def _solver(self, drop=None):
        import z3
        from sdpcap.embed import rv
        m = len(self.dims)
        xr = [[z3.Real(f"xr_{p}_{k}") for k in range(self.dims[p])] for p in range(m)]
        xi = [[z3.Real(f"xi_{p}_{k}") for k in range(self.dims[p])] for p in range(m)]
        cs = []
        for i, f in enumerate(self.factors):
            if i == drop:
                continue
            alts = []
            for p in range(m):
                # <v, x> = sum_k conj(v_k) x_k
                re = sum((rv(float(f[p][k].real)) * xr[p][k] + rv(float(f[p][k].imag)) * xi[p][k] for k in range(self.dims[p])), z3.RealVal(0))
                im = sum((rv(float(f[p][k].real)) * xi[p][k] - rv(float(f[p][k].imag)) * xr[p][k] for k in range(self.dims[p])), z3.RealVal(0))
                alts.append(z3.And(re == 0, im == 0))
            cs.append(z3.Or(*alts))
        for p in range(m):
            cs.append(z3.Or(*[z3.Or(xr[p][k] != 0, xi[p][k] != 0) for k in range(self.dims[p])]))
        sol = z3.Solver()
        sol.set("timeout", 60000)
        sol.add(*cs)
        t0 = time.time()
        r = str(sol.check())
        dt = time.time() - t0
        w = None
        if r == "sat":
            mdl = sol.model()

            def val(t):
                q = mdl.eval(t, model_completion=True)
                return float(Fraction(q.numerator_as_long(), q.denominator_as_long()))
            w = np.array([1.0 + 0j])
            for p in range(m):
                w = np.kron(w, np.array([val(xr[p][k]) + 1j * val(xi[p][k]) for k in range(self.dims[p])]))
        return r, w, dt

    def _witness_ok(self, w, vecs):
        """non-zero, orthogonal to every input, and of rank one across every cut party | rest"""
        w = np.asarray(w).reshape(-1)
        if w.shape[0] != int(np.prod(self.dims)) or np.linalg.norm(w) < 1e-9:
            return "the witness is the zero vector or has the wrong length"
        w = w / np.linalg.norm(w)
        for i, v in enumerate(vecs):
            if abs(np.vdot(v, w)) > 1e-7 * max(1.0, np.linalg.norm(v)):
                return f"|<v_{i}, w>| = {abs(np.vdot(v, w)):.3e}"
        t = w.reshape(self.dims)
        for p in range(len(self.dims)):
            sv = np.linalg.svd(np.moveaxis(t, p, 0).reshape(self.dims[p], -1), compute_uv=False)
            if len(sv) > 1 and sv[1] > 1e-7:
                return f"the witness is not a product vector across party {p} (second singular value {sv[1]:.3e})"
        return None

    def _orthogonal(self, vecs):
        return all(abs(np.vdot(vecs[i], vecs[j])) < 1e-12 for i in range(len(vecs)) for j in range(i))

    def _verdict(self, rec):
        vecs = self.vectors()
        r, w, dt = self._solver()
        rec["queries"] += 1
        rec["solver_s"] += dt
        if r not in ("sat", "unsat"):
            rec["notes"].append(f"solver: {r}")
            return None
        if r == "sat":
            bad = self._witness_ok(w, vecs)
            rec["neg_control"] = bad is None          # the solver's own model is a product vector orthogonal to every input
            if bad is not None:
                rec["notes"].append(f"solver model does not verify numerically: {bad}")
                return None
        else:
            if not self._orthogonal(vecs):
                rec["notes"].append("no product extension and not an orthogonal set: the definition does not fix the verdict")
                return None
            r2, _, dt2 = self._solver(drop=len(vecs) - 1)
            rec["queries"] += 1
            rec["solver_s"] += dt2
            rec["neg_control"] = r2 == "sat"         # without the last vector the same formula is satisfiable
        rec["reachable"] = True
        try:
            got = is_unextendible_product_basis([v.copy() for v in vecs], list(self.dims))
        except Exception as e:  # noqa: BLE001
            return {"source": "the real function raises on a set of product vectors (reproduced)", "inputs": {"vecs": jsonable(vecs), "dims": self.dims},
                    "actual": f"{type(e).__name__}: {str(e)[:300]}", "expected": r == "unsat"}
        ok, wit = got
        if bool(ok) != (r == "unsat"):
            return {"source": "verdict differs from the solver-decided definition", "inputs": {"vecs": jsonable(vecs), "dims": self.dims},
                    "actual": bool(ok), "expected": r == "unsat", "solver_witness": jsonable(w) if w is not None else None}
        if r == "sat":
            bad = "no witness returned" if wit is None else self._witness_ok(wit, vecs)
            if bad is not None:
                return {"source": "returned witness is not a product vector orthogonal to every input", "inputs": {"vecs": jsonable(vecs), "dims": self.dims},
                        "actual": bad, "returned_witness": jsonable(np.asarray(wit)) if wit is not None else None, "expected": "witness"}
        elif wit is not None:
            return {"source": "a witness is returned together with the verdict True", "inputs": {"vecs": jsonable(vecs), "dims": self.dims},
                    "actual": jsonable(np.asarray(wit)), "expected": None}
        return False

    def _run(self, rec, seed):
        v = self._verdict(rec)
        if v is None:
            return
        if v is False:
            rec["status"] = "discharged" if rec.get("neg_control") else "inconclusive"
            return
        rec["status"] = "violation"
        rec["violation"] = v
        rec["disagreements_checked"] = 1

    def replay(self, rp):
        rec = {"notes": [], "queries": 0, "solver_s": 0.0}
        v = self._verdict(rec)
        print(v if v else rec["notes"])
        return v is False


def upb_instances(T):
    e = {2: [np.eye(2)[k] for k in range(2)], 3: [np.eye(3)[k] for k in range(3)]}
    e0, e1 = e[2]
    plus, minus = e0 + e1, e0 - e1
    out = []
    # 2 (x) 2, three vectors of which two share the SECOND factor: the only extension gives the shared factor's complement to
    # party 1 - every order of the list and both orders of the parties (no UPB exists in 2 (x) n)
    shared = [(e0, e0), (e1, e0), (plus, e1)]
    generic = [(np.array([1, 2]), np.array([1, 1])), (np.array([3, 1]), np.array([1, 1])), (np.array([2, -1]), np.array([1, 3]))]
    cplx = [(np.array([1, 1j]), np.array([2, 1j])), (np.array([1, -1j]), np.array([2, 1j])), (np.array([1 + 1j, 2]), np.array([1j, -2]))]
    for label, fam in [("orthogonal, two vectors share the second factor", shared), ("non-orthogonal, two vectors share the second factor", generic),
                       ("complex, two vectors share the second factor", cplx)]:
        orders = list(itertools.permutations(range(3))) if (T or fam is shared) else [(0, 1, 2), (2, 0, 1)]
        for order in orders:
            for swap in (False, True):
                out.append(UpbDefinitionTask(label, [2, 2], fam, order, swap))
    out.append(UpbDefinitionTask("a single product vector (fewer vectors than parties)", [2, 2], [(plus, e1)]))
    out.append(UpbDefinitionTask("two orthogonal product vectors", [2, 2], [(e0, plus), (e1, minus)]))
    # 3 (x) 3 Tiles (unnormalised): a UPB; without any one vector it is extendible
    z0, z1, z2 = e[3]
    tiles = [(z0, z0 - z1), (z2, z1 - z2), (z0 - z1, z2), (z1 - z2, z0), (z0 + z1 + z2, z0 + z1 + z2)]
    out.append(UpbDefinitionTask("Tiles", [3, 3], tiles))
    out.append(UpbDefinitionTask("Tiles", [3, 3], tiles, swap=True))
    out.append(UpbDefinitionTask("Tiles", [3, 3], tiles, order=(4, 2, 0, 3, 1)))
    for k in range(5) if T else (0, 4):
        out.append(UpbDefinitionTask(f"Tiles without vector {k}", [3, 3], [t for i, t in enumerate(tiles) if i != k]))
    # 3 (x) 3, five vectors: three span only two dimensions on party 1, two share the party-0 factor
    five = [(z0, z0), (z1, z1), (z0 + z1, z0 + z1), (z2, z2), (z2, z0 - z1)]
    for swap in (False, True):
        out.append(UpbDefinitionTask("five vectors, three inside a two-dimensional local subspace", [3, 3], five, swap=swap))
        if T:
            for order in [(4, 3, 2, 1, 0), (2, 4, 0, 3, 1)]:
                out.append(UpbDefinitionTask("five vectors, three inside a two-dimensional local subspace", [3, 3], five, order, swap))
    # 2 (x) 2 (x) 2 Shifts (unnormalised): a UPB; without one vector it is extendible
    shifts = [(e0, e0, e0), (plus, e1, minus), (e1, minus, plus), (minus, plus, e1)]
    out.append(UpbDefinitionTask("Shifts", [2, 2, 2], shifts))
    out.append(UpbDefinitionTask("Shifts", [2, 2, 2], shifts, order=(3, 1, 0, 2)))
    for k in range(4) if T else (1,):
        out.append(UpbDefinitionTask(f"Shifts without vector {k}", [2, 2, 2], [t for i, t in enumerate(shifts) if i != k]))
    # unequal local dimensions
    a3, b3, c3 = np.array([1, 2, -1]), np.array([2, 0, 1]), np.array([1, 1, 1])
    uneq = [(np.array([1, 2]), a3), (np.array([3, 1]), b3), (np.array([2, -1]), c3)]
    for swap in (False, True):
        out.append(UpbDefinitionTask("three product vectors, unequal local dimensions", [2, 3], uneq, swap=swap))
    out.append(UpbDefinitionTask("orthogonal product vectors, unequal local dimensions", [2, 3], [(e0, z0), (e0, z1), (e1, z0 + z2), (e1, z0 - z2)]))
    return out


def obligations(tier):
    T = tier == "thorough"
    obs = list(upb_instances(T))
    sizes = [1, 2, 3] + ([4, 5] if T else [])
    rect = [(1, 2), (2, 3), (3, 2)] + ([(2, 1), (3, 4), (1, 4), (5, 6)] if T else [])
    linear = ("is_hermitian", "is_anti_hermitian", "is_symmetric", "is_identity", "is_circulant")
    for pred in TOL_PREDS:
        fn, defn, has_tol = TOL_PREDS[pred]
        for kind in ("r", "c"):
            for n in sizes + ([6] if T and pred in linear else []):
                obs.append(ob_band(pred, (n, n), kind))
                if has_tol and n in (2, 3):
                    obs.append(ob_band(pred, (n, n), kind, tol=(1e-3, 1e-2)))
                if n >= 2 or pred in ("is_identity", "is_idempotent", "is_projection", "is_unitary", "is_hermitian", "is_anti_hermitian"):
                    if not (n == 1 and kind == "r" and pred in ("is_hermitian",)):
                        obs.append(ob_margin(pred, n, kind))
            for shape in rect:
                obs.append(ob_band(pred, shape, kind))
        for label, fam, mode in EXACT.get(pred, []):
            for kind in ("r", "c"):
                for n in sizes + ([6] if T and pred in linear else []):
                    if mode == "nra" and (n > 2 or kind == "c"):
                        continue
                    if label in ("rank1_hermitian_projector",) and n < 2:
                        continue
                    if label == "diagonal_real" and kind == "r":
                        continue
                    obs.append(ob_exact(pred, label, fam, n, kind, mode))
        for r in range(0, 5):
            for n in ([2, 3] + ([4, 5] if T else [])):
                if r <= n and pred in ("is_projection", "is_idempotent"):
                    for kind in ("r", "c"):
                        obs.append(ob_exact(pred, f"block_I{r}_T_0_0", fam_block_idempotent(r), n, kind))
    # unitary: phases x permutation
    for n in [2, 3] + ([4, 5] if T else []):
        perm = {2: [1, 0], 3: [1, 2, 0], 4: [2, 3, 1, 0], 5: [1, 2, 3, 4, 0]}[n]
        for kind in ("r", "c"):
            obs.append(ob_exact("is_unitary", "phases_times_permutation", fam_phase_perm(perm), n, kind))
            obs.append(ob_exact("is_normal", "phases_times_permutation", fam_phase_perm(perm), n, kind))
    # pseudo-unitary
    for n, pqs in [(1, [(1, 0), (0, 1)]), (2, [(1, 1), (2, 0), (0, 2), (1, 2)]), (3, [(2, 1), (1, 2), (3, 0), (1, 1)])] + \
            ([(4, [(2, 2), (3, 1), (1, 2)]), (5, [(3, 2), (1, 4)])] if T else []):
        for p, q in pqs:
            pred = f"is_pseudo_unitary:{p},{q}"
            for kind in ("r", "c"):
                obs.append(ob_band(pred, (n, n), kind))
                if p + q == n:
                    if n in (2, 3):
                        obs.append(ob_band(pred, (n, n), kind, tol=(1e-3, 1e-2)))
                    obs.append(ob_margin(pred, n, kind))
                    obs.append(ob_exact(pred, "phases_and_hyperbolic_rotation", fam_hyperbolic(p, q), n, kind))
                    obs.append(ob_exact(pred, "assumed_AhJA_equals_J", fam_assumed(d_pseudo_unitary(p, q)), n, kind))
        obs.append(ob_band(f"is_pseudo_unitary:{1},{1}", (2, 3), "c"))
    for p, q in [(-1, 3), (1, -1), (1, 1), (0, 0)]:
        obs.append(ob_pseudo_unitary_args(p, q, 2))
    # commuting
    for n in sizes:
        for kind in ("r", "c"):
            obs.append(ob_commuting("band", n, kind))
            obs.append(ob_commuting("exact_polynomial_in_A", n, kind))
            if n >= 2:
                obs.append(ob_commuting("margin", n, kind))
                if n <= 3:
                    obs.append(ob_commuting_symmetry(n, kind))
    # comparison predicates
    for shape in [(1, 1), (2, 2), (3, 3), (2, 3), (3, 1), (3,), (2, 2, 2)] + ([(4, 4), (1, 5)] if T else []):
        obs.append(ob_square(shape))
    for shape in [(n, n) for n in sizes] + rect:
        for kind in ("r", "c"):
            obs.append(ob_diagonal(shape, kind))
            for strict in (None, True, False):
                if shape[0] == shape[1] or strict is None:
                    obs.append(ob_diag_dominant(shape, kind, strict))
    sign_shapes = [(1, 1), (2, 2), (1, 3), (2, 3), (3, 1)] + ([(3, 3), (2, 4)] if T else [])
    for shape in sign_shapes:
        obs.append(ob_entrywise("is_positive", shape))
        obs.append(ob_entrywise("is_nonnegative", shape))
        obs.append(ob_entrywise("is_nonnegative", shape, "nonnegative"))
    obs.append(ob_entrywise("is_nonnegative", (2, 2), "entrywise"))
    for shape in [(1, 1), (2, 2), (1, 2), (2, 1), (2, 3)] + ([(3, 3)] if T else []):
        obs.append(ob_permutation(shape))
    for shape, subs in [((1, 1), None), ((1, 2), None), ((2, 1), None), ((2, 2), None), ((2, 2), [2]), ((2, 3), [2]), ((3, 3), [2]), ((3, 3), [3]),
                        ((3, 3), [2, 3]), ((1, 3), [1])] + ([((3, 4), [2, 3]), ((4, 4), [3]), ((4, 4), [4]), ((2, 3), None)] if T else []):
        obs.append(ob_totally_positive(shape, subs))
    obs.append(ob_totally_positive((2, 2), None, tol=1e-3))
    obs.append(ob_totally_positive((3, 3), [2, 3], tol=1e-3))
    # stochastic
    for mt in ("left", "right", "doubly"):
        for shape in [(1, 1), (2, 2), (2, 3), (3, 2)] + ([(3, 3)] if T else []):
            obs.append(ob_stochastic(shape, mt))
        for n in (2, 3):
            obs.append(ob_stochastic((n, n), mt, "birkhoff"))
    obs.append(ob_stochastic((2, 2), "row"))
    obs.append(ob_stochastic_transpose(2))
    # sets of vectors
    for k, d in [(2, 2), (2, 3), (3, 3), (3, 2), (2, 1)] + ([(4, 4), (2, 4), (4, 3)] if T else []):
        for kind in ("r", "c"):
            obs.append(ob_mutually_orthogonal(k, d, kind, "band"))
            obs.append(ob_mutually_orthogonal(k, d, kind, "margin"))
            obs.append(ob_orthonormal(k, d, kind, "band"))
            obs.append(ob_orthonormal(k, d, kind, "margin"))
            if d >= 2 and k <= d:
                obs.append(ob_mutually_orthogonal(k, d, kind, "exact"))
                obs.append(ob_orthonormal(k, d, kind, "exact_unitary_rows"))
    obs.append(ob_orthonormal(2, 2, "c", "band", as_list=True))     # the documented argument type: "a list of np.ndarray"
    obs.append(ob_orthonormal(2, 2, "c", "band", as_list="columns"))
    obs.append(ob_orthonormal(2, 3, "c", "margin", as_list="columns"))
    obs.append(ob_orthonormal(2, 2, "c", "exact_unitary_rows", as_list="columns"))
    obs.append(ob_mutually_orthogonal(2, 2, "c", "band", ket=True))
    obs.append(ob_mutually_orthogonal(3, 3, "c", "exact", ket=True))
    obs.append(ob_mutually_orthogonal(1, 2, "c", "band"))
    for m, d in [(2, 2), (3, 2), (1, 2)] + ([(2, 3), (1, 3)] if T else []):
        for kind in ("r", "c"):
            obs.append(ob_mub(m, d, kind, "orthonormal_and_unbiased"))
            obs.append(ob_mub(m, d, kind, "biased"))
    obs.append(ob_mub(2, 2, "c", "biased", ket=True))
    obs.append(ob_mub(2, 4, "c", "biased"))          # dimension 4: the smallest where orthonormality does not force the remaining overlaps
    obs.append(ob_mub(1, 2, "c", "count", extra=1))
    obs.append(ob_mub(2, 2, "c", "count", extra=1))
    obs.append(ob_mub(0, 2, "c", "count", extra=1))
    obs.append(ob_mub(0, 3, "r", "count", extra=2))
    for m in (2, 3):
        obs.append(ob_mub(m, 2, "c", "exact_qubit_xyz"))
    obs.append(ob_mub(3, 2, "c", "exact_qubit_xyz", ket=True))
    obs.append(ob_mub(2, 2, "c", "not_a_basis_family"))
    obs.append(ob_mub(2, 2, "r", "not_a_basis_family"))
    # kernel based predicates
    for n in [1, 2, 3] + ([4] if T else []):
        for kind in ("h", "s", "c", "r"):
            if n == 1 and kind in ("s",):
                continue
            obs.append(ob_psd((n, n), kind))
            obs.append(ob_pd((n, n), kind))
            if n <= 3:
                obs.append(ob_density(n, kind))
                obs.append(ob_pure(n, kind))
                obs.append(ob_pure(n, kind, mixed=True))
        obs.append(ob_psd((n, n), "h", tol=(1e-3, 1e-2)))
        obs.append(ob_psd((n, n), "c", tol=(1e-3, 1e-2)))
    for shape in [(2, 3), (3, 2)]:
        obs.append(ob_psd(shape, "c"))
        obs.append(ob_pd(shape, "c"))
    for n in (2, 3):
        for kind in ("h", "c"):
            obs.append(ob_pure(n, kind, count=2))
            obs.append(ob_ensemble(2, n, kind))
        obs.append(ob_pure(n, "h", count=1))
    obs.append(ob_ensemble(1, 2, "h"))
    obs.append(ob_ensemble(3, 2, "h"))
    if T:
        obs.append(ob_ensemble(3, 3, "h"))
    obs.append(ob_nonneg_doubly(1))
    obs.append(ob_nonneg_doubly(2))
    for k, d in [(1, 2), (2, 2), (2, 3), (3, 2), (3, 3), (1, 1)] + ([(4, 4), (3, 4)] if T else []):
        for kind in ("r", "c"):
            obs.append(ob_lin_indep(k, d, kind))
    for n in [1, 2] + ([3] if T else []):
        for kind in ("r", "c"):
            for sk in (("h", "c") if n <= 2 else ("h",)):
                obs.append(ob_pseudo_hermitian(n, kind, sk))
        obs.append(ob_pseudo_hermitian(n, "c", "h", tol=(1e-3, 1e-2)))
    obs.append(ob_pseudo_hermitian(2, "c", "h", mshape=(2, 3)))
    obs.append(ob_pseudo_hermitian(2, "c", "h", mshape=(3, 3)))
    for shapes in [[(2, 2), (2, 2)], [(2, 2), (3, 3)], [(3,), (3,), (3,)], [(2,), (3,)], [(2, 3), (3, 2)], [(4,), (2, 2)], []]:
        obs.append(ob_has_same_dimension(shapes))
    for shape in [(1, 1), (1, 2), (2, 1), (2, 2)] + ([(2, 3), (3, 2)] if T else []):
        obs.append(ob_spark(shape))
    for shape in [(2, 2), (2, 3), (3, 2)] + ([(3, 3)] if T else []):
        for kind in ("r", "c"):
            obs.append(ob_trace_norm(shape, kind))
            for k, p in [(1, 1), (2, 1), (1, 2), (2, 2), (3, 2), (2, 3), (1, np.inf), (2, np.inf)]:
                obs.append(ob_kp_norm(shape, kind, k, p))
    # helpers
    for shape in [(1, 1), (2, 2), (2, 3), (3, 2), (3, 3), (1, 3), (3, 1)] + ([(4, 4), (2, 4)] if T else []):
        for kind in ("r", "c"):
            obs.append(ob_vec(shape, kind))
    for dims in [(2, 2, 2, 2), (2, 3, 2, 3), (3, 2, 3, 2), (1, 2, 3, 1), (2, 1, 2, 3), (3, 3, 3, 3)] + ([(2, 3, 4, 2), (4, 2, 2, 3)] if T else []):
        for kind in ("r", "c"):
            obs.append(ob_vec_axb(*dims, kind))
    for shapes in [[(2, 2), (2, 2)], [(2, 3), (3, 2)], [(2,), (3,)], [(2, 2), (2, 2), (2, 2)], [(1, 2), (2, 1), (2, 2)], [(2, 3), (1, 2), (3, 1)],
                   [(2,), (3,), (2,)], [(2, 2), (2, 1), (1, 2), (2, 2)]] + ([[(3, 3), (2, 2), (3, 3)], [(2, 2), (3, 2), (2, 3), (2, 2)]] if T else []):
        for kind in ("r", "c"):
            obs.append(ob_tensor_assoc(shapes, kind))
    for shape, nmax in [((2, 2), 5), ((1, 2), 5), ((2, 1), 5), ((2,), 5), ((3, 3), 3), ((2, 3), 3)]:
        for n in range(0, nmax + (2 if T and shape != (3, 3) else 1)):
            if n == 0 and len(shape) == 1:
                continue
            for kind in ("r", "c"):
                obs.append(ob_tensor_power(shape, kind, n))
                if kind == "c" and n in (2, 3):      # the count as a numpy integer (what array shapes and np.arange hand out)
                    obs.append(ob_tensor_power(shape, kind, n, "int64"))
                    obs.append(ob_tensor_power(shape, kind, n, "int32"))
    for k, d in [(1, 2), (2, 2), (2, 3), (3, 2), (3, 3)] + ([(4, 3), (3, 4)] if T else []):
        for kind in ("r", "c"):
            obs.append(ob_gram(k, d, kind))
    obs.append(ob_gram(2, 2, "c", ket=True))
    obs.append(ob_gram(3, 2, "c", ket=True))
    obs.append(ob_gram(2, 2, "c", ragged=True))
    for n in [1, 2, 3] + ([4] if T else []):
        for kind in ("r", "c"):
            obs.append(ob_gram_roundtrip(n, kind))
    obs.append(ob_gram_nonsquare())
    for n, r, kind in [(3, 2, "r"), (3, 2, "c"), (4, 2, "c")] + ([(4, 3, "r"), (5, 3, "c")] if T else []):
        obs.append(ob_gram_roundtrip_singular(n, r, kind))
    for dim, ngen, k in [(2, 0, 2), (2, 1, 2), (2, 2, 1), (3, 0, 3), (3, 2, 1), (2, 3, 2)] + ([(3, 1, 5), (4, 0, 4), (4, 2, 2)] if T else []):
        for kind in ("r", "c"):
            obs.append(ob_commutant(dim, ngen, kind, k))
    for la, lb, as_list in [(1, 1, False), (2, 2, False), (2, 2, True), (1, 2, False), (2, 1, False), (2, 1, True)] + \
            ([(3, 3, False), (2, 3, False), (3, 2, True), (3, 1, False)] if T else []):
        obs.append(ob_majorizes(la, lb, as_list))
    for sa, sb_ in [((2, 2), (2, 2)), ((2, 3), (3, 2)), ((2, 2), (3, 3)), ((1, 2), (2, 2))]:
        obs.append(ob_majorizes_matrices(sa, sb_))
    # invariances
    for pred, ts in INVARIANT.items():
        for t in ts:
            for n in [2, 3] + ([4] if T else []):
                for kind in ("r", "c"):
                    if t == "conjugate" and kind == "r":
                        continue
                    obs.append(ob_invariance(pred, t, n, kind))
    return obs
