"""C12 PPT / symmetric-extension discrimination values: ordered, dual-consistent."""
from __future__ import annotations

import itertools
import math

import numpy as np

from sdpcap.affine import snap
from sdpcap.capture import Captured, SymProgram, capture
from sdpcap.task import SdpTask
from sdpcap.order import FamilyTask, OrderTask, cmat, fact_combination, lemma_map
from symnp.core import And, lift
from symnp.harness import Obligation, eq
from props.c01 import perm_index
from props.common import Task, dagger
from props.c02 import oracle_ptrace
from props.c03 import oracle_pt
from props.c10 import tr
from props.c11 import pfrac, rho_exact
from toqito.state_opt import ppt_distinguishability, state_distinguishability, symmetric_extension_hierarchy

META = {
    "id": "C12",
    "level": "translation_validation",
    "files": ["toqito/state_opt/ppt_distinguishability.py", "toqito/state_opt/symmetric_extension_hierarchy.py", "toqito/state_opt/state_helper.py",
              "toqito/channels/partial_trace.py", "toqito/channels/partial_transpose.py", "toqito/perms/symmetric_projection.py"],
    "functions": ["toqito.state_opt.ppt_distinguishability (_min_error_primal/_dual)", "toqito.state_opt.symmetric_extension_hierarchy"],
    "explanation": "E2: the picos (PPT) / cvxpy (hierarchy) program built by the real code is captured at Problem.solve for each instance of a "
                   "stated family, extracted as exact affine maps and proved by z3 equal, for all decision-variable values, to the textbook program: "
                   "min-error POVM program plus PT_S(M_i) >= 0 with the oracle's own partial-transpose index map (either party, 2x2 and 2x3); dual "
                   "Y - p_i rho_i - PT_S(Q_i) >= 0, Q_i >= 0, min Tr Y; hierarchy level L: marginal constraint Tr_{copies}(X_k) = M_k, symmetric-subspace "
                   "constraint with the oracle's own projector, PT constraints on the listed cuts, sum M_k = I, objective. Level 1 is compared against the "
                   "PPT program through the same reference builder. The caller's list of states must hold the same objects after the call (checked with "
                   "symbolic kets; E1). Ordering clauses are decided on the captured programs themselves (sdpcap/order.py): T4 program inclusion - every "
                   "feasible point of the captured PPT program is feasible for the captured min-error program of state_distinguishability with the same "
                   "objective (PPT value <= global optimum); every feasible point of the captured level-2 hierarchy program maps to a feasible point of the "
                   "captured level-1 program (non-increasing in the level; lemma: the partial trace of a PSD operator is PSD); T5 feasible families - every "
                   "classical post-processing (symbolic column-stochastic weights) of explicit one-way LOCC product measurements is feasible for the captured "
                   "PPT / hierarchy program (levels 1, 2; with the product extension a (x) b (x) b) and the captured objective equals its success probability "
                   "(value >= every such LOCC / separable measurement).",
    "bounds": {"quick": "2..3 states on 2x2 and 2x3, dyadic real and complex, kets and density matrices, either party transposed, primal and dual; hierarchy levels 1 (2x2, 2x3) and 2 (2x2, 2 states)",
               "thorough": "adds 4 states, hierarchy level 2 on 2x3 (2 states)"},
    "trusted_base": ["picos / cvxpy evaluate their own affine expressions correctly (extraction)", "textbook duality of the PPT-distinguishability SDP",
                     "PSD cone facts used by T4 / T5: closure under non-negative combinations and under the partial trace; exact rational elimination decides PSD-ness of the concrete generators",
                     "conic solvers (replay only)", "z3 5.1.0"],
    "outside_claim": ["value 1/2 for the Bell states, local-unitary invariance of the value (numerical optimum); LOCC / separable lower bounds beyond the explicit "
                      "product-basis families (adaptive multi-round protocols, non-projective local measurements)",
                      "monotonicity in the level beyond the instances on which the inclusion level 2 -> level 1 is decided",
                      "instance data is concrete: the claim is per instance, for all decision-variable values"],
    "assumptions": ["instance amplitudes are dyadic so that extraction is exact"],
}


def instances(tier):
    fam = []
    fam.append(("2 real 2x2 kets, uniform", [np.array([[1.0], [0], [0], [0.5]]), np.array([[0.0], [0.5], [0.5], [0]])], None, [2, 2]))
    fam.append(("3 complex 2x2 kets, prior (1/2,1/4,1/4)", [np.array([[1], [0], [0], [1j]]), np.array([[0], [0.5], [-0.5j], [0]]), np.array([[0.5], [0.5j], [0], [0.25]])], [0.5, 0.25, 0.25], [2, 2]))
    fam.append(("2 complex 2x3 kets, prior (3/4,1/4)", [np.array([[1], [0], [0.5j], [0], [0], [0.5]]), np.array([[0], [0.5], [0], [0.25j], [1], [0]])], [0.75, 0.25], [2, 3]))
    fam.append(("2 complex 2x2 density matrices, uniform", [np.diag([0.5, 0.25, 0.25, 0]) + 0.125j * (np.eye(4, k=1) - np.eye(4, k=-1)),
                                                              np.diag([0.25, 0.25, 0.25, 0.25]) + 0.125 * (np.eye(4, k=3) + np.eye(4, k=-3))], None, [2, 2]))
    # generic (un-normalised, dyadic) kets on 2x3: the PPT values of the 2|3 and of the 3|2 reading of the 6 levels differ
    fam.append(("3 generic complex 2x3 kets, uniform",
                [np.array([[1 - 0.5j], [1 - 1j], [0.5 + 0.5j], [-0.5 - 1j], [0.5j], [-1j]]), np.array([[0.5 - 1j], [-0.5], [-0.5 - 0.5j], [1], [-1j], [1 + 0.5j]]),
                 np.array([[-0.5], [1 - 0.5j], [-0.5 + 1j], [-0.5], [-1 + 1j], [0.5 + 0.5j]])], None, [2, 3]))
    # a prior with an exact zero in the middle, unequal weights on either side
    fam.append(("3 complex 2x2 kets, prior (1/4,0,3/4)", [np.array([[1], [0], [0], [1j]]), np.array([[0], [0.5], [-0.5j], [0]]), np.array([[0.5], [0.5j], [0], [0.25]])], [0.25, 0.0, 0.75], [2, 2]))
    # mixed storage: the FIRST state is held in a real (float) array, later ones are genuinely complex
    fam.append(("3 2x2 kets, first stored as a float array, the others complex, prior (1/4,1/2,1/4)",
                [np.array([[1.0], [0.5], [0], [0.5]]), np.array([[0], [0.5], [-0.5j], [0]]), np.array([[0.5], [0.5j], [0], [0.25]])], [0.25, 0.5, 0.25], [2, 2]))
    fam.append(("2 2x2 density matrices, first stored as a float array, second complex, uniform",
                [np.diag([0.25, 0.25, 0.25, 0.25]) + 0.125 * (np.eye(4, k=3) + np.eye(4, k=-3)),
                 np.diag([0.5, 0.25, 0.25, 0]) + 0.125j * (np.eye(4, k=1) - np.eye(4, k=-1))], None, [2, 2]))
    # an entangled state against separable noise, the entangled state listed LAST: the unconstrained optimal measurement is PPT for
    # every outcome but the last (round-6 seed: a shortcut that tests all but the last effect); PPT value 5/6, global optimum 1
    phi = np.zeros((4, 4))
    phi[np.ix_([0, 3], [0, 3])] = 0.5
    fam.append(("(1 - Phi)/3 and the Bell projector Phi, uniform", [(np.eye(4) - phi) / 3, phi.copy()], None, [2, 2]))
    if tier == "thorough":
        import os
        rng = np.random.default_rng(1200 + int(os.environ.get("VERIF_SEED", "0") or 0))
        for t in range(24):
            dims = [[2, 2], [2, 3], [3, 2]][t % 3]
            N = dims[0] * dims[1]
            n = 2 + (t % 2)
            vs = []
            for _ in range(n):
                v = (rng.integers(-2, 3, size=(N, 1)) + 1j * rng.integers(-2, 3, size=(N, 1))) / 2.0
                if not np.any(v):
                    v[0, 0] = 1.0
                vs.append(v)
            if t % 6 == 3 and np.any(vs[0].real):
                vs[0] = np.ascontiguousarray(vs[0].real, dtype=float)          # real first array
            if t % 4 == 1:
                vs = [v @ v.conj().T for v in vs]                              # density-matrix form
            w = [0.5, 0.5] if n == 2 else [0.5, 0.25, 0.25]
            rng.shuffle(w)
            fam.append((f"seeded dyadic ensemble #{t} (n={n}, dims={dims})", vs, None if t % 5 == 0 else list(w), dims))
        fam.append(("4 complex 2x2 kets", [np.array([[1], [0], [0], [1j]]), np.array([[1], [0], [0], [-1j]]), np.array([[0], [1], [0.5], [0]]), np.array([[0], [0.5j], [1], [0]])], None, [2, 2]))
    return fam


def ref_ppt_primal(V, inst):
    vs, ps, dims, S = inst
    n = len(vs)
    d = int(np.prod(dims))
    Ms = [V.herm(f"M[{i}]") for i in range(n)]
    cons = [("psd", M) for M in Ms]
    tot = Ms[0]
    for M in Ms[1:]:
        tot = tot + M
    cons.append(("eq", tot - np.identity(d)))
    cons += [("psd", oracle_pt(M, dims, dims, S)) for M in Ms]
    obj = 0
    for i in range(n):
        obj = obj + pfrac(ps[i]) * tr(rho_exact(vs[i]) @ Ms[i])
    return SymProgram("max", np.array([[lift(obj).real]], dtype=object), cons)


def ref_ppt_dual(V, inst):
    vs, ps, dims, S = inst
    n = len(vs)
    Y = V.herm("Y")
    Qs = [V.herm(f"Q[{i}]") for i in range(n)]
    cons = [("psd", Y - pfrac(ps[i]) * rho_exact(vs[i]) - oracle_pt(Qs[i], dims, dims, S)) for i in range(n)]
    cons += [("psd", Q) for Q in Qs]
    return SymProgram("min", np.array([[tr(Y)]], dtype=object), cons)


def sym_projector(d, p):
    """independent symmetric-subspace projector: average of the p! subsystem permutation matrices"""
    N = d ** p
    P = np.zeros((N, N), dtype=object)
    for k in range(N):
        for j in range(N):
            P[k, j] = lift(0)
    perms = list(itertools.permutations(range(p)))
    w = lift(1) / math.factorial(p)
    for perm in perms:
        idx = perm_index(list(perm), [d] * p)
        for a, r in enumerate(idx):
            P[a, r] = P[a, r] + w
    return P


def ref_hierarchy(V, inst):
    vs, ps, dims, level = inst
    n = len(vs)
    dx, dy = dims
    dxy = dx * dy
    dl = [dx] + [dy] * level
    Ms = [V.herm(2 * k) for k in range(n)]
    Xs = [V.herm(2 * k + 1) for k in range(n)]
    symP = np.kron(np.identity(dx, dtype=object), sym_projector(dy, level)) if level > 1 else np.identity(dxy, dtype=object)
    cons = []
    obj = 0
    for k in range(n):
        marg = oracle_ptrace(Xs[k], dl, list(range(2, level + 1))) if level > 1 else Xs[k]
        cons.append(("eq", marg - Ms[k]))
        cons.append(("psd", Xs[k]))
        cons.append(("psd", Ms[k]))
        cons.append(("eq", symP @ Xs[k] @ symP - Xs[k]))
        cons.append(("psd", oracle_pt(Xs[k], dl, dl, [0])))
        for s in range(level - 1):
            cons.append(("psd", oracle_pt(Xs[k], dl, dl, [s + 2])))
        obj = obj + pfrac(ps[k]) * tr(rho_exact(vs[k]) @ Ms[k])
    tot = Ms[0]
    for M in Ms[1:]:
        tot = tot + M
    cons.append(("eq", tot - np.identity(dxy)))
    return SymProgram("max", np.array([[lift(obj).real]], dtype=object), cons)


def ob_list_unchanged(form, d):
    cfg = {"input": form, "dims": [2, d // 2]}

    def build(b):
        shp = (d, 1) if form == "column kets" else (d, d)
        return {"states": [b.array(f"s{k}", shp, "c" if form == "column kets" else "h") for k in range(2)]}

    def call(i):
        lst = list(i["states"])
        before = list(lst)
        try:
            with capture():
                symmetric_extension_hierarchy(lst, None, 1, [2, d // 2])
        except Captured:
            pass
        except Exception:  # noqa: BLE001 - cvxpy cannot take symbolic constants; the list handling happens before that point
            pass
        return [len(lst) == len(before)] + [a is b for a, b in zip(lst, before)] + [np.asarray(a) for a in lst]

    def oracle(i):
        return [True] + [True for _ in i["states"]] + [np.asarray(a) for a in i["states"]]
    def neg(exp):
        bad = list(exp)
        bad[-1] = np.asarray(bad[-1]).T.conj() * 2
        return bad
    return Obligation("symmetric_extension_hierarchy.callers_list_unchanged", cfg, build, call, oracle, tv=False, neg=neg)


def ppt_value(inst):
    """independent optimum for replay: max sum_i p_i Tr(rho_i M_i) over POVMs whose elements have a PSD partial transpose on the
    second party (= level 1 of the symmetric-extension hierarchy), written entry by entry with the harness' own index map"""
    import cvxpy
    vs, ps, dims = inst[0], inst[1], inst[2]
    dx, dy = dims
    N = dx * dy
    rhos = [np.asarray(rho_exact(v), dtype=complex) for v in vs]
    Ms = [cvxpy.Variable((N, N), hermitian=True) for _ in vs]

    def pt(M):
        return cvxpy.bmat([[M[(r // dy) * dy + (c % dy), (c // dy) * dy + (r % dy)] for c in range(N)] for r in range(N)])
    cons = [sum(Ms) == np.eye(N)]
    for M in Ms:
        cons += [M >> 0, pt(M) >> 0]
    prob = cvxpy.Problem(cvxpy.Maximize(cvxpy.real(sum(float(p) * cvxpy.trace(r @ M) for p, r, M in zip(ps, rhos, Ms)))), cons)
    return float(prob.solve())


class PptDualityTask(Task):
    """T2: the captured dual PPT program is the Lagrange dual of the captured primal PPT program (both built by the real code).
        primal: max Re sum_i <C_i, M_i>  s.t.  sum_i M_i = R,  M_i >= 0,  P_i(M_i) >= 0           (P_i: the code's partial transpose)
        dual:   min Re <R, Y>            s.t.  D_i(Y, Q_i) >= 0,  Q_i >= 0
    decided for symbolic Hermitian M_i, Y, Q_i:  sum_i <D_i^lin(Y, Q), M_i> = <Y, sum_i M_i> - sum_i <Q_i, P_i(M_i)>,
    D_i(0, 0) = -C_i, R is the operator of the dual objective.  Independent of the harness' textbook references."""
    engine = "E2-sdpcap (T2 Lagrangian pairing in z3)"
    weight = 20

    def __init__(self, cfg, call_primal, call_dual):
        super().__init__("ppt_distinguishability.dual_is_lagrange_dual_of_primal", cfg)
        self.cp, self.cd = call_primal, call_dual

    def _run(self, rec, seed):
        from sdpcap.capture import capture_call, extract, program_to_sym, sym_variables
        from symnp.core import Ctx, SymBool, as_z3, use_ctx
        from symnp.harness import Builder
        pp, pd = extract(capture_call(self.cp)), extract(capture_call(self.cd))
        rec["programs"] = 2
        ctx = Ctx("lra", self.name)
        with use_ctx(ctx):
            b = Builder(ctx)
            mx, cx = sym_variables(b, pp.vars, "m")
            my, cy = sym_variables(b, pd.vars, "y")
            P, D = program_to_sym(pp, cx), program_to_sym(pd, cy)
            P0 = program_to_sym(pp, [[lift(0)] * len(c) for c in cx])
            D0 = program_to_sym(pd, [[lift(0)] * len(c) for c in cy])
            n = len(mx)
            names_d = [v.name for v in pd.vars]
            ok_shape = P.sense == "max" and D.sense == "min" and "Y" in names_d and len(my) == n + 1
            r = r2 = "n/a"
            if ok_shape:
                Y = np.asarray(my[names_d.index("Y")])
                Qs = [np.asarray(my[names_d.index(f"Q[{i}]")]) for i in range(n)]
                Ms = [np.asarray(m) for m in mx]
                eqs = [(E, E0) for (k, E), (_, E0) in zip(P.constraints, P0.constraints) if k == "eq"]
                ppsd = [E for k, E in P.constraints if k == "psd"]
                dpsd = [(E, E0) for (k, E), (_, E0) in zip(D.constraints, D0.constraints) if k == "psd"]
                ok_shape = len(eqs) == 1 and len(ppsd) == 2 * n and len(dpsd) == 2 * n
            if ok_shape:
                # primal: the first n PSD constraints are M_i >= 0 themselves, the last n are the partial transposes (checked below);
                # dual: the first n are D_i, the last n are Q_i >= 0
                plain_p = And(*[eq(ppsd[i], Ms[i]) for i in range(n)])
                plain_d = And(*[eq(dpsd[n + i][0], Qs[i]) for i in range(n)])
                Pe, Pe0 = eqs[0]
                L, Rr = np.asarray(Pe) - np.asarray(Pe0), -np.asarray(Pe0)
                lhs, objp, rhs = 0, 0, tr(dagger(Y) @ L)
                for i in range(n):
                    De, De0 = dpsd[i]
                    lhs = lhs + tr(dagger(np.asarray(De) - np.asarray(De0)) @ Ms[i])
                    objp = objp + tr(dagger(-np.asarray(De0)) @ Ms[i])
                    rhs = rhs - tr(dagger(Qs[i]) @ np.asarray(ppsd[n + i]))
                obj_p = lift(np.asarray(P.objective, dtype=object).flat[0])
                obj_d = lift(np.asarray(D.objective, dtype=object).flat[0])
                goal = SymBool(plain_p) & SymBool(plain_d) & lift(lhs).eq_solver(rhs) & obj_p.eq_solver(lift(objp).real) & obj_d.eq_solver(lift(tr(dagger(Rr) @ Y)).real)
                r, _ = ctx.check([as_z3(~SymBool(goal))])
                r2, _ = ctx.check([as_z3(~SymBool(lift(lhs).eq_solver(rhs + 1)))])
            rec["queries"], rec["solver_s"] = ctx.queries, round(ctx.solver_s, 3)
            rec["neg_control"], rec["reachable"] = r2 == "sat", True
        if ok_shape and r == "unsat" and r2 == "sat":
            rec["status"] = "discharged"
            return
        rec["notes"].append("programs are not a primal / dual pair of the PPT block form" if not ok_shape else f"Lagrangian identities: {r}")
        rec["disagreements_checked"] = 1
        try:
            a, d = float(np.real(self.cp()[0])), float(np.real(self.cd()[0]))
        except (ArithmeticError, ZeroDivisionError) as e:
            rec["notes"].append(f"replay: conic solver breakdown ({type(e).__name__})")
            return
        if abs(a - d) > 2e-4:
            rec["status"] = "violation"
            rec["violation"] = {"source": "the dual PPT program is not the Lagrange dual of the primal one; the optima differ with the real solver",
                                "inputs": self.cfg, "actual": {"primal": a, "dual": d}, "expected": "equal optima"}
        else:
            rec["notes"].append(f"optima agree on this instance ({a:.6f} vs {d:.6f})")

    def replay(self, rp):
        a, d = float(np.real(self.cp()[0])), float(np.real(self.cd()[0]))
        print({"primal": a, "dual": d})
        return abs(a - d) <= 2e-4

# ---- ordering clauses decided on the captured programs themselves (T4 / T5) -------------------------------------------------
LOCAL_BASES = {
    2: [[np.diag([1.0, 0]), np.diag([0, 1.0])],
        [np.array([[.5, .5], [.5, .5]]), np.array([[.5, -.5], [-.5, .5]])],
        [np.array([[.5, -.5j], [.5j, .5]]), np.array([[.5, .5j], [-.5j, .5]])]],
    3: [[np.diag([1.0, 0, 0]), np.diag([0, 1.0, 0]), np.diag([0, 0, 1.0])],
        [np.diag([1.0, 0, 0]), np.array([[0, 0, 0], [0, .5, .5], [0, .5, .5]]), np.array([[0, 0, 0], [0, .5, -.5], [0, -.5, .5]])],
        [np.array([[.5, 0, -.5j], [0, 0, 0], [.5j, 0, .5]]), np.diag([0, 1.0, 0]), np.array([[.5, 0, .5j], [0, 0, 0], [-.5j, 0, .5]])]],
}


def product_measurements(dims):
    """explicit one-way LOCC measurements: Alice measures a rank-one projective basis, Bob's basis depends on her outcome.
    Every element is a product projector with rational entries; the elements sum to the identity."""
    dx, dy = dims
    out = []
    for ia, A in enumerate(LOCAL_BASES[dx]):
        for shift in range(2):
            els = []
            for a, Pa in enumerate(A):
                B = LOCAL_BASES[dy][(ia + a * shift + shift) % len(LOCAL_BASES[dy])]
                els += [(Pa, Pb) for Pb in B]
            out.append((f"Alice basis #{ia}, Bob basis {'depends on her outcome' if shift else 'fixed'}", els))
    return out


def locc_family(inst, els, level=None):
    """T5 family: every classical post-processing (column-stochastic weights c[i][k]) of the product measurement `els`."""
    vs, ps, dims = inst[0], inst[1], inst[2]
    n = len(vs)
    dx, dy = dims
    rhos = [rho_exact(v) for v in vs]
    prods = [np.kron(cmat(Pa), cmat(Pb)) for Pa, Pb in els]
    L = level or 1
    dl = [dx] + [dy] * L
    exts = []
    for Pa, Pb in els:
        e = np.kron(cmat(Pa), cmat(Pb))
        for _ in range(L - 1):
            e = np.kron(e, cmat(Pb))
        exts.append(e)

    def family(b, variables):
        import z3
        c = [[b.real(f"c_{i}_{k}") for k in range(len(els))] for i in range(n)]
        assume = [lift(c[i][k]).re.to_z3() >= 0 for i in range(n) for k in range(len(els))]
        for k in range(len(els)):
            assume.append(z3.Sum([lift(c[i][k]).re.to_z3() for i in range(n)]) == 1)

        def comb(i, mats):
            tot = None
            for k, P in enumerate(mats):
                t = np.asarray(P, dtype=object) * c[i][k]
                tot = t if tot is None else tot + t
            return tot
        Ms = [comb(i, prods) for i in range(n)]
        facts = []
        if level is None:                                  # picos PPT program: variables M[i]
            S = inst[3]
            pts = []
            for v in variables:
                i = int(v.name[v.name.index("[") + 1:v.name.index("]")])
                pts.append(Ms[i])
            for i in range(n):
                facts.append(fact_combination(c[i], prods))
                facts.append(fact_combination(c[i], [oracle_pt(P, dims, dims, S) for P in prods]))
        else:                                              # cvxpy hierarchy program: variables (M_0, X_0, M_1, X_1, ...)
            Xs = [comb(i, exts) for i in range(n)]
            pts = []
            for k in range(n):
                pts += [Ms[k], Xs[k]]
            for i in range(n):
                facts.append(fact_combination(c[i], prods))
                facts.append(fact_combination(c[i], exts))
                facts.append(fact_combination(c[i], [oracle_pt(E, dl, dl, [0]) for E in exts]))
                for s in range(L - 1):
                    facts.append(fact_combination(c[i], [oracle_pt(E, dl, dl, [s + 2]) for E in exts]))
        val = 0
        for i in range(n):
            for k, P in enumerate(prods):
                val = val + pfrac(ps[i]) * tr(rhos[i] @ P) * c[i][k]
        return {"points": pts, "assume": assume, "facts": facts, "value": lift(val).real}

    def best():
        tot = 0.0
        for P in prods:
            Pn = np.array([[complex(float(lift(x).re.t.get((), 0)), float(lift(x).im.t.get((), 0))) for x in row] for row in P])
            tot += max(float(p) * float(np.real(np.trace(np.array([[complex(float(lift(x).re.t.get((), 0)), float(lift(x).im.t.get((), 0))) for x in row] for row in r]) @ Pn)))
                       for p, r in zip(ps, rhos))
        return tot
    return family, best


def embed_same_names(VA, vars_b):
    return [VA[v.name] for v in vars_b]


def embed_level_down(VA, vars_b):
    """level-L point (M_k, X_k) -> level-1 point (M_k, X_k := M_k)"""
    out = []
    for j, v in enumerate(vars_b):
        out.append(VA[2 * (j // 2)])
    return out


def embed_ppt_to_level1(VA, vars_b):
    """PPT point (M[i]) -> level-1 hierarchy point (M_k, X_k := M_k); hierarchy variables come in the order M_0, X_0, M_1, X_1, ..."""
    return [VA[f"M[{j // 2}]"] for j, _ in enumerate(vars_b)]


def embed_level1_to_ppt(VA, vars_b):
    out = []
    for v in vars_b:
        i = int(v.name[v.name.index("[") + 1:v.name.index("]")])
        out.append(VA[2 * i])
    return out


def lemmas_level_down(dims, level, n):
    dl = [dims[0]] + [dims[1]] * level

    def lem(VA, PA, emb):
        out = []
        for k in range(n):
            src = oracle_pt(np.asarray(VA[2 * k + 1], dtype=object), dl, dl, [0])
            out.append(lemma_map(src, oracle_ptrace(src, dl, list(range(2, level + 1)))))
        return out
    return lem


def order_obligations(tier):
    T = tier == "thorough"
    obs = []
    fams = instances("quick")
    for name, vs, ps, dims in fams:
        n = len(vs)
        pp = ps if ps is not None else [1.0 / n] * n
        kets = all(np.ndim(v) == 2 and np.shape(v)[1] == 1 for v in vs)
        for S in ([0], [1]):
            # PPT optimum <= global optimum: every PPT-feasible POVM is feasible for the min-error program with the same objective
            obs.append(OrderTask("ppt_distinguishability.value_at_most_global_optimum_by_program_inclusion", {"instance": name, "subsystems": S, "dimensions": dims},
                                 (lambda vs=vs, ps=ps, S=S, dims=dims: ppt_distinguishability(vs, S, dims, ps, primal_dual="primal")),
                                 (lambda vs=vs, ps=ps: state_distinguishability(vs, ps, primal_dual="primal")), embed_same_names))
            # PPT optimum >= every one-way LOCC measurement built from product bases (all classical post-processings)
            for lab, els in product_measurements(dims)[:(6 if T else 3)]:
                fam, best = locc_family((vs, pp, dims, S), els)
                obs.append(FamilyTask("ppt_distinguishability.value_at_least_every_explicit_locc_measurement", {"instance": name, "subsystems": S, "dimensions": dims, "measurement": lab},
                                      (lambda vs=vs, ps=ps, S=S, dims=dims: ppt_distinguishability(vs, S, dims, ps, primal_dual="primal")), fam, best=best,
                                      trusted=["product projectors are PSD with PSD partial transpose (checked exactly)"]))
        # level 1 of the hierarchy = PPT value (party 0 transposed, as the hierarchy does): inclusion of the captured programs both ways
        call_h = (lambda vs=vs, ps=ps, dims=dims: symmetric_extension_hierarchy([np.array(v) for v in vs], ps, 1, list(dims)))
        call_p = (lambda vs=vs, ps=ps, dims=dims: ppt_distinguishability(vs, [0], dims, ps, primal_dual="primal"))
        ppt_dual = (lambda vs=vs, ps=ps, dims=dims: float(np.real(ppt_distinguishability(vs, [0], dims, ps, primal_dual="dual")[0])))
        obs.append(OrderTask("symmetric_extension_hierarchy.level_one_equals_ppt_value_by_program_inclusion", {"instance": name, "dim": dims, "direction": "PPT program into level 1"},
                             call_p, call_h, embed_ppt_to_level1, value_b=lambda r: float(r), replay_a=ppt_dual))
        obs.append(OrderTask("symmetric_extension_hierarchy.level_one_equals_ppt_value_by_program_inclusion", {"instance": name, "dim": dims, "direction": "level 1 into PPT program"},
                             call_h, call_p, embed_level1_to_ppt, value_a=lambda r: float(r), replay_b=ppt_dual))
        levels = [1] + ([2] if (dims == [2, 2] and n == 2) or (T and n == 2) else [])
        for level in levels:
            for lab, els in product_measurements(dims)[:(4 if T else 2)]:
                fam, best = locc_family((vs, pp, dims), els, level=level)
                t = FamilyTask("symmetric_extension_hierarchy.value_at_least_every_explicit_separable_measurement", {"instance": name, "level": level, "dim": dims, "measurement": lab},
                               (lambda vs=vs, ps=ps, level=level, dims=dims: symmetric_extension_hierarchy([np.array(v) for v in vs], ps, level, list(dims))), fam, best=best,
                               value_of=lambda r: float(r), trusted=["a (x) b (x) b for rank-one b is PSD, symmetric, PPT on every cut (checked exactly)"])
                t.weight = 40 if level > 1 else 8
                obs.append(t)
            if level > 1:
                t = OrderTask("symmetric_extension_hierarchy.non_increasing_in_the_level_by_program_inclusion", {"instance": name, "from_level": level, "to_level": 1, "dim": dims},
                              (lambda vs=vs, ps=ps, level=level, dims=dims: symmetric_extension_hierarchy([np.array(v) for v in vs], ps, level, list(dims))),
                              (lambda vs=vs, ps=ps, dims=dims: symmetric_extension_hierarchy([np.array(v) for v in vs], ps, 1, list(dims))),
                              embed_level_down, lemmas=lemmas_level_down(dims, level, n), value_a=lambda r: float(r), value_b=lambda r: float(r),
                              trusted=["the partial trace of a PSD operator is PSD"])
                t.weight = 60
                obs.append(t)
    return obs


def obligations(tier):
    T = tier == "thorough"
    obs = []
    for name, vs, ps, dims in instances(tier):
        for S in ([0], [1]):
            obs.append(PptDualityTask({"instance": name, "subsystems": S, "dimensions": dims},
                                      (lambda vs=vs, ps=ps, S=S, dims=dims: ppt_distinguishability(vs, S, dims, ps, primal_dual="primal")),
                                      (lambda vs=vs, ps=ps, S=S, dims=dims: ppt_distinguishability(vs, S, dims, ps, primal_dual="dual"))))
    for name, vs, ps, dims in instances(tier):
        n = len(vs)
        pp = ps if ps is not None else [1.0 / n] * n
        for S in ([0], [1]):
            for pd, ref in (("primal", ref_ppt_primal), ("dual", ref_ppt_dual)):
                if pd == "dual" and np.asarray(vs[0]).shape[1] != 1 and False:
                    continue
                cfg = {"instance": name, "subsystems": S, "dimensions": dims, "primal_dual": pd}
                obs.append(SdpTask("ppt_distinguishability.program_is_textbook_program", cfg,
                                   (lambda vs=vs, ps=ps, S=S, dims=dims, pd=pd: ppt_distinguishability(vs, S, dims, ps, primal_dual=pd)),
                                   ref, instance=(vs, pp, dims, S), replay_oracle=ppt_value, tol=5e-4))
        # hierarchy: level 1 everywhere, level 2 on small systems
        levels = [1] + ([2] if (dims == [2, 2] and n == 2) or (T and n == 2) else [])
        for level in levels:
            cfg = {"instance": name, "level": level, "dim": dims}
            t = SdpTask("symmetric_extension_hierarchy.program_is_textbook_program", cfg,
                        (lambda vs=vs, ps=ps, level=level, dims=dims: symmetric_extension_hierarchy([np.array(v) for v in vs], ps, level, list(dims))),
                        ref_hierarchy, instance=(vs, pp, dims, level), value_of=lambda r: float(r),
                        replay_oracle=ppt_value if level == 1 else None, tol=5e-4)
            t.weight = 50 if level > 1 else 5
            obs.append(t)
        # the dimension argument as a single integer (meaning [d, N/d]) and omitted
        if level_forms := ([("int", dims[0]), ("omitted", None)] if (dims == [2, 3] or name.startswith("2 real 2x2")) else []):
            for form, darg in level_forms:
                cfg = {"instance": name, "level": 1, "dim": dims, "dim_arg": form}
                t = SdpTask("symmetric_extension_hierarchy.program_is_textbook_program", cfg,
                            (lambda vs=vs, ps=ps, darg=darg: symmetric_extension_hierarchy([np.array(v) for v in vs], ps, 1, darg)),
                            ref_hierarchy, instance=(vs, pp, dims, 1), value_of=lambda r: float(r))
                obs.append(t)
    # kets stored as 1-D arrays (the form ppt_distinguishability accepts): same program as for column kets
    done = 0
    for name, vs, ps, dims in instances(tier):
        if all(np.ndim(v) == 2 and np.shape(v)[1] == 1 for v in vs) and done < 2:
            done += 1
            pp = ps if ps is not None else [1.0 / len(vs)] * len(vs)
            t = SdpTask("symmetric_extension_hierarchy.program_is_textbook_program", {"instance": name, "level": 1, "dim": dims, "kets_stored_as": "1-D arrays"},
                        (lambda vs=vs, ps=ps, dims=dims: symmetric_extension_hierarchy([np.array(v).reshape(-1) for v in vs], ps, 1, list(dims))),
                        ref_hierarchy, instance=(vs, pp, dims, 1), value_of=lambda r: float(r), replay_oracle=ppt_value, tol=5e-4)
            obs.append(t)
    obs.append(ob_list_unchanged("column kets", 4))
    obs.append(ob_list_unchanged("density matrices", 4))
    obs.append(ob_list_unchanged("column kets", 6))
    obs += order_obligations(tier)
    return obs
