"""C04 One linear map, many representations: all of them act identically."""
from __future__ import annotations

import itertools

import numpy as np

from symnp.harness import Obligation, eq
from props.common import dagger, kron_all, prod
from toqito.channel_ops import apply_channel, choi_to_kraus, kraus_to_choi, natural_representation, partial_channel
from toqito.helper import channel_dim

META = {
    "id": "C04",
    "level": "other",
    "files": ["toqito/channel_ops/apply_channel.py", "toqito/channel_ops/kraus_to_choi.py", "toqito/channel_ops/choi_to_kraus.py",
              "toqito/channel_ops/partial_channel.py", "toqito/channel_ops/natural_representation.py", "toqito/helper/channel_dim.py",
              "toqito/matrix_ops/unvec.py", "toqito/matrix_ops/vec.py", "toqito/perms/swap.py", "toqito/perms/permute_systems.py",
              "toqito/states/max_entangled.py", "toqito/matrix_ops/tensor.py"],
    "functions": ["toqito.channel_ops.apply_channel", "toqito.channel_ops.kraus_to_choi", "toqito.channel_ops.choi_to_kraus",
                  "toqito.channel_ops.partial_channel", "toqito.channel_ops.natural_representation", "toqito.helper.channel_dim"],
    "explanation": "Bounded symbolic execution of the real channel_ops functions with every entry of every Kraus operator (left and "
                   "right families), of X and of the multipartite rho a symbolic complex number. z3 decides, per configuration, "
                   "that the result equals sum_i A_i X B_i^dagger written with explicit loops (polynomial identities, monomial "
                   "abstraction => linear arithmetic). Choi->Kraus: eigh / svd are uninterpreted kernels with their algebraic "
                   "contract (V diag(w) V^dagger = J, V^dagger V = I; U diag(s) W = J) and every keep/drop path of the eigenvalue "
                   "filter is explored; the Choi matrix of the returned operators is proved equal to J minus the dropped terms.",
    "bounds": {
        "quick": "(d_in,d_out) in {1,2,3}^2, Kraus rank r<=2 (3 for the single-row nested form), complex entries; multipartite: "
                 "dims 2x2, 2x3, 3x2, 2x2x2 every position, Kraus and Choi forms; Choi->Kraus: d_in*d_out<=4",
        "thorough": "dims<=4, r<=3, multipartite up to 4 subsystems (2x2x2x2, 2x3x2), Choi->Kraus d_in*d_out<=6",
    },
    "trusted_base": ["numpy object-array semantics = numeric semantics (translator validation per obligation)",
                     "LAPACK eigh/svd satisfy their algebraic contracts (numerical accuracy outside the claim)", "z3 5.1.0"],
    "outside_claim": ["numerical accuracy of eigh/svd", "ranks/dimensions above the bound"],
    "assumptions": ["floats modelled as reals"],
}


def phi(X, A, B):
    """sum_i A_i X B_i^dagger, explicit"""
    tot = None
    for a, b in zip(A, B):
        t = np.asarray(a) @ np.asarray(X) @ dagger(b)
        tot = t if tot is None else tot + t
    return tot


def unit(m, n, i, j):
    e = np.zeros((m, n))
    e[i, j] = 1
    return e


def choi_oracle(A, B, sys=2):
    dout0, din0 = np.asarray(A[0]).shape
    dout1, din1 = np.asarray(B[0]).shape
    J = None
    for i in range(din0):
        for j in range(din1):
            E = unit(din0, din1, i, j)
            t = np.kron(E, phi(E, A, B)) if sys == 2 else np.kron(phi(E, A, B), E)
            J = t if J is None else J + t
    return J


def build_kraus(b, din, dout, r, paired, din1=None, dout1=None):
    A = [b.array(f"A{k}", (dout, din), "c") for k in range(r)]
    if paired:
        B = [b.array(f"B{k}", (dout1 or dout, din1 or din), "c") for k in range(r)]
    else:
        B = A
    return A, B


def as_form(A, B, form):
    if form == "flat":
        return list(A)
    if form == "nested_col":
        return [[a] for a in A]
    if form == "nested_row":
        return [list(A)]
    if form == "pairs":
        return [[a, b] for a, b in zip(A, B)]
    raise ValueError(form)


def ob_apply(din, dout, r, form, din1=None, dout1=None):
    paired = form == "pairs"
    cfg = {"d_in": din, "d_out": dout, "rank": r, "form": form}
    if paired:
        cfg.update({"d_in_right": din1 or din, "d_out_right": dout1 or dout})

    def build(b):
        A, B = build_kraus(b, din, dout, r, paired, din1, dout1)
        return {"A": A, "B": B, "X": b.array("X", (din, (din1 or din) if paired else din), "c")}

    def call(i):
        return apply_channel(i["X"], as_form(i["A"], i["B"], form))

    def oracle(i):
        return phi(i["X"], i["A"], i["B"])
    return Obligation("apply_channel.kraus_forms", cfg, build, call, oracle)


def ob_choi(din, dout, r, form, sys=2, din1=None, dout1=None):
    paired = form == "pairs"
    cfg = {"d_in": din, "d_out": dout, "rank": r, "form": form, "sys": sys}
    if paired:
        cfg.update({"d_in_right": din1 or din, "d_out_right": dout1 or dout})

    def build(b):
        A, B = build_kraus(b, din, dout, r, paired, din1, dout1)
        return {"A": A, "B": B}

    def call(i):
        return kraus_to_choi(as_form(i["A"], i["B"], form), sys)

    def oracle(i):
        return choi_oracle(i["A"], i["B"], sys)
    return Obligation("kraus_to_choi.definition", cfg, build, call, oracle)


def ob_apply_choi(din, dout, r, form, din1=None, dout1=None):
    paired = form == "pairs"
    cfg = {"d_in": din, "d_out": dout, "rank": r, "form": form}
    if paired:
        cfg.update({"d_in_right": din1 or din, "d_out_right": dout1 or dout})

    def build(b):
        A, B = build_kraus(b, din, dout, r, paired, din1, dout1)
        return {"A": A, "B": B, "X": b.array("X", (din, (din1 or din) if paired else din), "c")}

    def call(i):
        return apply_channel(i["X"], kraus_to_choi(as_form(i["A"], i["B"], form)))

    def oracle(i):
        return phi(i["X"], i["A"], i["B"])
    return Obligation("apply_channel.choi_form_equals_kraus_action", cfg, build, call, oracle)


def ob_apply_choi_direct(din, dout):
    """Choi matrix itself symbolic (not necessarily of any Kraus family): action = Tr_in[(X^T (x) I) J]"""
    cfg = {"d_in": din, "d_out": dout}

    def build(b):
        return {"J": b.array("J", (din * dout, din * dout), "c"), "X": b.array("X", (din, din), "c")}

    def call(i):
        return apply_channel(i["X"], i["J"])

    def oracle(i):
        J, X = np.asarray(i["J"]), np.asarray(i["X"])
        out = np.empty((dout, dout), dtype=object)
        for a in range(dout):
            for c in range(dout):
                tot = 0
                for p in range(din):
                    for q in range(din):
                        tot = tot + X[p, q] * J[p * dout + a, q * dout + c]
                out[a, c] = tot
        return out
    return Obligation("apply_channel.symbolic_choi_matrix", cfg, build, call, oracle)


def ob_partial(dims, pos, din, dout, r, form, via_choi):
    """channel on subsystem `pos` (0-based) of rho over dims; dims[pos] == din"""
    paired = form == "pairs"
    cfg = {"dims": list(dims), "position": pos, "d_out": dout, "rank": r, "form": form, "via_choi": via_choi}
    N = prod(dims)

    def build(b):
        A, B = build_kraus(b, din, dout, r, paired)
        return {"A": A, "B": B, "rho": b.array("rho", (N, N), "c")}

    def call(i):
        m = as_form(i["A"], i["B"], form)
        if via_choi:
            m = kraus_to_choi(m)
        return partial_channel(i["rho"], m, pos + 1, list(dims))

    def oracle(i):
        l, rr = prod(dims[:pos]), prod(dims[pos + 1:])
        A = [kron_all([np.identity(l), np.asarray(a), np.identity(rr)]) for a in i["A"]]
        B = [kron_all([np.identity(l), np.asarray(bb), np.identity(rr)]) for bb in i["B"]]
        return phi(i["rho"], A, B)
    return Obligation("partial_channel.is_id_tensor_phi_tensor_id", cfg, build, call, oracle)


def ob_partial_default(d, r):
    cfg = {"d": d, "rank": r}

    def build(b):
        A, B = build_kraus(b, d, d, r, False)
        return {"A": A, "B": B, "rho": b.array("rho", (d * d, d * d), "c")}

    def call(i):
        return partial_channel(i["rho"], list(i["A"]))

    def oracle(i):
        A = [np.kron(np.identity(d), np.asarray(a)) for a in i["A"]]
        return phi(i["rho"], A, A)
    return Obligation("partial_channel.default_is_second_of_two_equal_subsystems", cfg, build, call, oracle)


def ob_natural(din, dout, r):
    cfg = {"d_in": din, "d_out": dout, "rank": r}

    def build(b):
        A, _ = build_kraus(b, din, dout, r, False)
        return {"A": A, "X": b.array("X", (din, din), "c")}

    def call(i):
        K = natural_representation(list(i["A"]))
        return (K @ np.asarray(i["X"]).reshape(-1, 1)).reshape(-1)

    def oracle(i):
        return np.asarray(phi(i["X"], i["A"], i["A"])).reshape(-1)
    return Obligation("natural_representation.acts_on_row_major_vec", cfg, build, call, oracle)


def ob_channel_dim(din0, dout0, din1, dout1, form, dimarg):
    cfg = {"d_in": [din0, din1], "d_out": [dout0, dout1], "form": form, "dim_arg": dimarg}

    def build(b):
        A = [b.array(f"A{k}", (dout0, din0), "c") for k in range(2)]
        B = [b.array(f"B{k}", (dout1, din1), "c") for k in range(2)]
        return {"A": A, "B": B}

    def call(i):
        if form == "choi":
            J = np.asarray(choi_oracle(i["A"], i["B"]))
            from symnp.array import SymArray
            J = J.view(SymArray)
            d_in, d_out, _ = channel_dim(J, dim=dimarg, compute_env_dim=False)
        else:
            d_in, d_out, de = channel_dim(as_form(i["A"], i["B"], form), dim=dimarg)
        return [np.asarray(d_in), np.asarray(d_out)]

    def oracle(i):
        if form == "choi" and dimarg is not None:
            d = _expand(dimarg)   # a Choi matrix does not say how its size factorises: a consistent dim argument decides
            return [np.asarray([d[0, 0], d[1, 0]]), np.asarray([d[0, 1], d[1, 1]])]
        return [np.asarray([din0, din1]), np.asarray([dout0, dout1])]

    def exc_post(e, i):
        # raising is right exactly when the dim argument contradicts the operators, or a rectangular Choi matrix comes without dim
        want = np.array([[din0, dout0], [din1, dout1]])
        if dimarg is None:
            if form == "choi":
                r = int(round((din0 * dout0) ** 0.5))
                c = int(round((din1 * dout1) ** 0.5))
                return isinstance(e, ValueError) and not (r == din0 == dout0 and c == din1 == dout1)
            return False
        d = _expand(dimarg)
        if form == "choi":
            return isinstance(e, ValueError) and (d[0, 0] * d[0, 1] != din0 * dout0 or d[1, 0] * d[1, 1] != din1 * dout1)
        return isinstance(e, ValueError) and bool(np.any(d != want))
    return Obligation("channel_dim.shapes_and_rejection", cfg, build, call, oracle, exc_post=exc_post, neg_control=False)


def _expand(dimarg):
    d = np.array(dimarg) if not isinstance(dimarg, int) else np.array([[dimarg, dimarg], [dimarg, dimarg]])
    if d.shape != (2, 2):
        d = np.vstack([d.ravel(), d.ravel()])
    return d


# ---- Choi -> Kraus under the kernel contracts ---------------------------------------------------
def ob_choi_to_kraus(din, dout, kind, tol=1e-9):
    """kind: 'hermitian' (symbolic Hermitian J: PSD and indefinite sub-branches by path),
    'general' (arbitrary complex J: the svd branch, and the eigh branch on the paths where J passes is_hermitian)."""
    from toqito.matrix_props import is_hermitian
    cfg = {"d_in": din, "d_out": dout, "choi": kind}
    n = din * dout

    def build(b):
        return {"J": b.array("J", (n, n), "h" if kind == "hermitian" else "c")}

    def call(i):
        J = i["J"]
        ks = choi_to_kraus(J, tol, dim=[[din, dout], [din, dout]])
        # Choi matrix of what came back, through the real kraus_to_choi
        back = kraus_to_choi(ks) if len(ks) else np.zeros((n, n))
        # the dropped part, as the kernel contract describes it (same kernel call => same symbols)
        dropped = np.zeros((n, n), dtype=object)
        if is_hermitian(J):
            w, V = np.linalg.eigh(J)
            for k in range(n):
                if not (abs(w[k]) > tol):
                    v = np.asarray(V)[:, k].reshape(-1, 1)
                    dropped = dropped + w[k] * (v @ dagger(v))
        else:
            U, sv, W = np.linalg.svd(J, full_matrices=False)
            for k in range(n):
                if not (abs(sv[k]) > tol):
                    dropped = dropped + sv[k] * (np.asarray(U)[:, k].reshape(-1, 1) @ np.asarray(W)[k, :].reshape(1, -1))
        return np.asarray(back) + dropped

    def oracle(i):
        return np.asarray(i["J"])

    def assume(i):
        # the PSD verdict must be unambiguous (the property speaks about maps that satisfy or violate a definition by more
        # than the tolerance): no eigenvalue in the window [-1e-7, -tol) where is_positive_semidefinite (threshold 1e-8)
        # and the eigenvalue filter (tol) disagree about the sign
        if kind != "hermitian":
            # svd branch: J misses Hermiticity by a margin (entries bounded so that the relative tolerance stays below it)
            from symnp.core import Or, And
            J = np.asarray(i["J"])
            bounded = [c for v in J.flat for c in (v.real <= 10, v.real >= -10, v.imag <= 10, v.imag >= -10)]
            diffs = []
            for a in range(n):
                for bb in range(a, n):
                    d = J[a, bb] - J[bb, a].conjugate()
                    diffs += [d.real > 0.01, d.real < -0.01, d.imag > 0.01, d.imag < -0.01]
            return bounded + [Or(*diffs)]
        # (eigenvalues in [-tol, 0) - negative numerical zeros, dropped by the filter - are part of the claim)
        w = np.linalg.eigvalsh(i["J"])
        return [(x >= -tol) | (x <= -1e-7) for x in w]
    def witness():
        # Hermitian, indefinite AND rank-deficient: J = sum_k +-|v_k><v_k| with fewer terms than n, so that LAPACK returns
        # numerical zeros of either sign (-1e-17 ...) next to eigenvalues of both signs - the solver's models with an
        # eigenvalue in [-tol, 0) are realised numerically by these
        if kind != "hermitian" or n < 3:
            return []
        out = []
        for sd in range(8):
            rng = np.random.default_rng(100 + sd)
            J = np.zeros((n, n), dtype=complex)
            for k, sg in enumerate([1, -1] if n < 6 else [1, -1, 1]):
                v = (rng.integers(-4, 5, size=(n, 1)) + 1j * rng.integers(-4, 5, size=(n, 1))) / 4.0
                J = J + sg * (v @ v.conj().T)
            out.append({"J": J})
        # an eigenvalue just above the threshold next to eigenvalues of order one and of either sign (round-6 seed: the filter that
        # builds the operators and the filter that supplies their signs disagreeing about it), in a rotated eigenbasis as well
        for mags in ([3.0, -1.0, -2e-9], [0.5, -0.25, 3e-9], [40.0, -2.5e-9, -8.0]):
            D = np.diag(np.array(mags + [0.0] * (n - 3), dtype=complex))
            out.append({"J": D})
            rng = np.random.default_rng(7)
            Q, _ = np.linalg.qr(rng.normal(size=(n, n)) + 1j * rng.normal(size=(n, n)))
            out.append({"J": Q @ D @ Q.conj().T})
        return out
    return Obligation("choi_to_kraus.reproduces_choi_matrix_modulo_dropped_terms", cfg, build, call, oracle, assume=assume,
                      max_paths=800, tv=False, abs_fork=True, weight=50, contracts=("eigh", "svd"), witness=witness)


def obligations(tier):
    T = tier == "thorough"
    obs = []
    dd = [1, 2, 3] + ([4, 5] if T else [])
    for din, dout in itertools.product(dd, dd):
        for r in ([1, 2, 3] if T else [1, 2]):
            for form in ["flat", "nested_col", "pairs"]:
                obs.append(ob_apply(din, dout, r, form))
                if din * dout <= (12 if T else 9):
                    obs.append(ob_choi(din, dout, r, form))
                    obs.append(ob_apply_choi(din, dout, r, form))
        obs.append(ob_apply(din, dout, 3, "nested_row"))
        if din * dout <= 9:
            obs.append(ob_choi(din, dout, 3, "nested_row"))
            obs.append(ob_choi(din, dout, 2, "flat", sys=1))
    # non-square left/right pairs
    rect = [(2, 3, 3, 2), (2, 2, 3, 2), (3, 2, 2, 2), (2, 1, 1, 2), (1, 2, 2, 3), (2, 3, 1, 1)] + ([(2, 3, 4, 2), (3, 3, 2, 4)] if T else [])
    for din, dout, din1, dout1 in rect:
        for r in [1, 2]:
            obs.append(ob_apply(din, dout, r, "pairs", din1, dout1))
            obs.append(ob_choi(din, dout, r, "pairs", 2, din1, dout1))
            obs.append(ob_apply_choi(din, dout, r, "pairs", din1, dout1))
    for din, dout in [(2, 2), (2, 3), (3, 2), (1, 2), (2, 1)] + ([(3, 3), (2, 4)] if T else []):
        obs.append(ob_apply_choi_direct(din, dout))
    # partial channel
    multi = [((2, 2), 0), ((2, 2), 1), ((2, 3), 0), ((2, 3), 1), ((3, 2), 0), ((3, 2), 1),
             ((2, 2, 2), 0), ((2, 2, 2), 1), ((2, 2, 2), 2), ((1, 2, 3), 1)]
    if T:
        multi += [((2, 3, 2), 1), ((2, 3, 2), 0), ((2, 2, 2, 2), 1), ((2, 2, 2, 2), 2), ((3, 3), 1), ((2, 4), 1)]
    for dims, pos in multi:
        din = dims[pos]
        for dout in ([din] + ([3 if din == 2 else 2] if prod(dims) <= 8 else [])):
            for form in ["flat", "pairs"]:
                for via in (False, True):
                    if via and prod(dims) * dout // din > 12 and not T:
                        continue
                    obs.append(ob_partial(dims, pos, din, dout, 2 if prod(dims) <= 8 else 1, form, via))
    for d in [2, 3]:
        obs.append(ob_partial_default(d, 2))
    for din, dout in itertools.product(dd, dd):
        for r in [1, 2] + ([3] if T else []):
            obs.append(ob_natural(din, dout, r))
    # channel_dim
    for (a, b, c, d) in [(2, 2, 2, 2), (2, 3, 2, 3), (3, 2, 3, 2), (2, 3, 3, 2), (1, 2, 2, 1)]:
        for form in ["flat", "pairs", "nested_col", "choi"]:
            if form in ("flat", "nested_col") and (a != c or b != d):
                continue
            for dimarg in [None, [[a, b], [c, d]], [a, b], [[a + 1, b], [c, d]], [b, a]] + ([a] if a == b == c == d else []):
                obs.append(ob_channel_dim(a, b, c, d, form, dimarg))
    # Choi -> Kraus
    sizes = [(1, 2), (2, 1), (2, 2)] + ([(2, 3), (3, 2)] if T else [])
    for din, dout in sizes:
        obs.append(ob_choi_to_kraus(din, dout, "hermitian"))
        if din * dout <= (4 if T else 2):
            obs.append(ob_choi_to_kraus(din, dout, "general"))
    return obs
