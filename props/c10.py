"""C10 State discrimination values are certified optima."""
from __future__ import annotations

from fractions import Fraction as F

import numpy as np

from sdpcap.capture import SymProgram
from sdpcap.task import SdpTask
from props.common import Task
from symnp.array import SymArray
from symnp.core import cur, lift
from symnp.harness import Builder, Obligation, eq
from props.common import dagger
from toqito.matrix_ops import to_density_matrix, vectors_to_gram_matrix
from toqito.state_opt import state_distinguishability

META = {
    "id": "C10",
    "level": "translation_validation",
    "files": ["toqito/state_opt/state_distinguishability.py", "toqito/state_props/is_distinguishable.py",
              "toqito/matrix_ops/to_density_matrix.py", "toqito/matrix_ops/vectors_to_gram_matrix.py",
              "toqito/matrix_ops/calculate_vector_matrix_dimension.py", "toqito/matrix_props/has_same_dimension.py"],
    "functions": ["toqito.state_opt.state_distinguishability (_min_error_primal/_dual, _unambiguous_primal/_dual)",
                  "toqito.matrix_ops.to_density_matrix", "toqito.matrix_ops.vectors_to_gram_matrix"],
    "explanation": "E2: for each instance of a stated family the real function is run until it calls picos' Problem.solve; the "
                   "captured program's objective and every constraint are extracted as exact affine maps (evaluated on a basis "
                   "through picos itself) and rebuilt over symbolic decision variables; z3 proves the captured program equal to "
                   "the textbook program (same feasible set with PSD as an uninterpreted predicate over matrix entries, same "
                   "objective, same sense) for ALL values of the decision variables. 'primal and dual agree' reduces to: primal "
                   "== textbook primal, dual == textbook dual (textbook strong duality + conic solver trusted). A mismatch is "
                   "replayed with the real solver against the reference program solved independently; only a reproduced numeric "
                   "difference is a violation. E1: to_density_matrix / vectors_to_gram_matrix on symbolic vectors.",
    "bounds": {"quick": "2..4 states, d in {2,3}, dyadic real and complex amplitudes, 1-D / column / density-matrix inputs, uniform and non-uniform priors; "
                        "4 strategy/formulation combinations; glue: symbolic vectors d<=3, n<=3",
               "thorough": "adds 5 states, d=4"},
    "trusted_base": ["picos evaluates its own affine expressions correctly (used for extraction, cross-checked at a random point)",
                     "textbook strong duality of the min-error and unambiguous discrimination SDPs", "the conic solvers (only used in replay)", "z3 5.1.0"],
    "outside_claim": ["numerical optimality of the conic solver; POVM read-back from dual variables", "Helstrom / orthogonal / PGM bounds, unitary invariance (consequences of the definition); decided instead, on the captured primal program: every guessing strategy M_i = q_i 1 is feasible with value sum q_i p_i Tr(rho_i), hence the optimum is at least the largest prior (T5, sdpcap/order.py)",
                      "instance data is concrete (picos realises constants into C arrays): the claim is per instance of the family, for all decision-variable values"],
    "assumptions": ["instances use dyadic rationals so that extraction is exact"],
}


def c(re, im=0):
    return complex(float(re), float(im))



def random_dyadic_ensembles(count, seed):
    """seeded family of dyadic ensembles (thorough tier): n in 2..4 states, d in 2..3, complex entries k/4, dyadic prior"""
    import os
    rng = np.random.default_rng(1000 + seed + int(os.environ.get("VERIF_SEED", "0") or 0))
    fam = []
    for t in range(count):
        n = int(rng.integers(2, 5))
        d = int(rng.integers(2, 4))
        vs = []
        for _ in range(n):
            v = rng.integers(-3, 4, size=d) / 4.0 + 1j * rng.integers(-3, 4, size=d) / 4.0
            if not np.any(v):
                v[0] = 1.0
            vs.append(v if t % 2 == 0 else v.reshape(-1, 1))
        # storage variety: a real (float) or integer first array, density-matrix form
        if t % 6 == 3 and np.any(vs[0].real):
            vs[0] = np.ascontiguousarray(vs[0].real, dtype=float)
        elif t % 6 == 5 and np.any(np.rint(4 * vs[0].real)):
            vs[0] = np.rint(4 * vs[0].real).astype(np.int64)
        if t % 4 == 1:
            vs = [np.outer(np.asarray(v).reshape(-1), np.asarray(v).reshape(-1).conj()) for v in vs]
        w = [2.0 ** -(k + 1) for k in range(n)]
        w[-1] = 2.0 ** -(n - 1)
        rng.shuffle(w)
        fam.append((f"seeded dyadic ensemble #{t} (n={n}, d={d})", vs, list(w)))
    return fam


def instances(tier):
    T = tier == "thorough"
    h = F(1, 2)
    q = F(1, 4)
    fam = []
    fam.append(("2 real qubit kets, uniform", [np.array([1.0, 0.0]), np.array([0.5, 0.5])], None))
    fam.append(("3 complex qubit kets, prior (1/2,1/4,1/4)", [np.array([1, 0], dtype=complex), np.array([0.5, 0.5j]), np.array([0.5, 0.25 + 0.25j])], [0.5, 0.25, 0.25]))
    fam.append(("3 complex qutrit column kets, prior (1/4,1/4,1/2)", [np.array([[1], [0.5j], [0]]), np.array([[0.5], [0.5], [0.5j]]), np.array([[0], [1], [-0.25 + 0.5j]])], [0.25, 0.25, 0.5]))
    fam.append(("2 complex density matrices, prior (3/4,1/4)", [np.array([[0.75, 0.25j], [-0.25j, 0.25]]), np.array([[0.5, 0.125 - 0.25j], [0.125 + 0.25j, 0.5]])], [0.75, 0.25]))
    # mixed storage: the FIRST array has a real (float / integer) dtype, later ones are complex with non-real overlaps
    fam.append(("3 qubit kets, first stored as a float array, the others complex, prior (1/4,1/2,1/4)",
                [np.array([1.0, 0.5]), np.array([0.5, 0.5j]), np.array([0.25 + 0.5j, 1.0])], [0.25, 0.5, 0.25]))
    fam.append(("2 qubit kets, first stored as an integer array, second complex, uniform", [np.array([1, 1]), np.array([0.5, 0.25 + 0.5j])], None))
    fam.append(("3 complex qubit kets, prior (1/2,0,1/2)", [np.array([1, 0j]), np.array([0.5, 0.5]), np.array([0.5, 0.5j])], [0.5, 0.0, 0.5]))
    fam.append(("4 real qubit kets, uniform", [np.array([1.0, 0]), np.array([0, 1.0]), np.array([0.5, 0.5]), np.array([0.5, -0.5])], None))
    if T:
        fam.append(("5 complex qubit kets", [np.array([1, 0j]), np.array([0, 1j]), np.array([0.5, 0.5j]), np.array([0.5, -0.5]), np.array([0.25, 0.75j])], [0.125, 0.125, 0.25, 0.25, 0.25]))
        fam.append(("3 complex d=4 kets", [np.array([1, 0, 0.5j, 0]), np.array([0.5, 0.5, 0, 0.5j]), np.array([0, 0.25, 0.25j, 1])], [0.5, 0.25, 0.25]))
        fam += random_dyadic_ensembles(60, 10)
    return fam


def rho_of(v):
    v = np.asarray(v)
    if v.ndim == 2 and v.shape[0] == v.shape[1] and v.shape[0] > 1:
        return v
    v = v.reshape(-1, 1)
    return v @ v.conj().T


def gram_of(vs):
    vs = [np.asarray(v).reshape(-1) for v in vs]
    n = len(vs)
    G = np.zeros((n, n), dtype=complex)
    for i in range(n):
        for j in range(n):
            G[i, j] = np.vdot(vs[i], vs[j])
    return G


def tr(M):
    M = np.asarray(M, dtype=object)
    return sum(M[i, i] for i in range(M.shape[0]))


def ref_min_error_primal(V, inst):
    vs, ps = inst
    n = len(vs)
    d = rho_of(vs[0]).shape[0]
    Ms = [V.herm(f"M[{i}]") for i in range(n)]
    cons = [("psd", M) for M in Ms]
    tot = Ms[0]
    for M in Ms[1:]:
        tot = tot + M
    cons.append(("eq", np.asarray(tot) - np.identity(d)))
    obj = 0
    for i in range(n):
        obj = obj + ps[i] * tr(rho_of(vs[i]) @ np.asarray(Ms[i]))
    return SymProgram("max", np.array([[lift(obj).real]], dtype=object), cons)


def ref_min_error_dual(V, inst):
    vs, ps = inst
    Y = V.herm("Y")
    cons = [("psd", np.asarray(Y) - ps[i] * rho_of(vs[i])) for i in range(len(vs))]
    return SymProgram("min", np.array([[tr(Y)]], dtype=object), cons)


def ref_unamb_primal(V, inst):
    vs, ps = inst
    n = len(vs)
    s = np.asarray(V["success_probabilities"]).reshape(-1)
    G = gram_of(vs)
    D = np.zeros((n, n), dtype=object)
    for i in range(n):
        D[i, i] = s[i]
    cons = [("psd", G - D), ("ge0", s.reshape(-1, 1))]
    obj = sum(ps[i] * s[i] for i in range(n))
    return SymProgram("max", np.array([[obj]], dtype=object), cons)


def ref_unamb_dual(V, inst):
    """textbook dual: min Tr(G Z), Z >= 0 Hermitian, Z_ii >= p_i. For a real Gram matrix the real symmetric Z of the code is
    the same program; for a complex Gram matrix the reference variable is Hermitian (own symbols for the imaginary parts)."""
    vs, ps = inst
    n = len(vs)
    G = gram_of(vs)
    Z = V.herm("Z")
    cons = [("psd", Z)] + [("ge0", np.array([[Z[i, i] - ps[i]]], dtype=object)) for i in range(n)]
    return SymProgram("min", np.array([[lift(tr(G @ Z)).real]], dtype=object), cons)


REFS = {("min_error", "primal"): ref_min_error_primal, ("min_error", "dual"): ref_min_error_dual,
        ("unambiguous", "primal"): ref_unamb_primal, ("unambiguous", "dual"): ref_unamb_dual}


def ob_glue(n, d, form):
    cfg = {"n": n, "d": d, "form": form}

    def build(b):
        shp = {"1d": (d,), "col": (d, 1), "row": (1, d)}[form]
        return {"v": [b.array(f"v{k}", shp, "c") for k in range(n)]}

    def call(i):
        return [[to_density_matrix(v) for v in i["v"]], vectors_to_gram_matrix(list(i["v"])) if form != "row" else None]

    def oracle(i):
        rhos, vs = [], []
        for v in i["v"]:
            w = np.asarray(v).reshape(-1)
            vs.append(w)
            R = np.empty((d, d), dtype=object)
            for a in range(d):
                for c_ in range(d):
                    R[a, c_] = w[a] * w[c_].conjugate()
            rhos.append(R)
        G = np.empty((n, n), dtype=object)
        for a in range(n):
            for c_ in range(n):
                G[a, c_] = sum(vs[a][k].conjugate() * vs[c_][k] for k in range(d))
        return [rhos, G if form != "row" else None]

    def post(res, exp, i):
        r = eq(res[0], exp[0])
        if exp[1] is not None:
            r = r & eq(res[1], exp[1]) if not isinstance(r, bool) else (r and eq(res[1], exp[1]))
        return r
    return Obligation("glue.to_density_matrix_and_gram_matrix", cfg, build, call, oracle, post=post)


def ob_distinguishable_glue(n, with_probs):
    """is_distinguishable with the SDP stubbed by a symbolic optimum: verdict = isclose(value, 1), prior forwarded"""
    from toqito.state_props import is_distinguishable
    from symnp.core import SymBool
    cfg = {"n_states": n, "probs_given": with_probs}
    seen = {}

    def build(b):
        return {"v": b.real("opt_val")}

    def call(i):
        import sys
        m = sys.modules["toqito.state_props.is_distinguishable"]
        o = m.state_distinguishability

        def stub(vectors, probs=None, strategy="min_error", solver="cvxopt", primal_dual="dual", **kw):
            seen["probs"], seen["strategy"], seen["n"] = probs, strategy, len(vectors)
            return i["v"], None
        m.state_distinguishability = stub
        try:
            states = [np.eye(2)[k % 2] for k in range(n)]
            pr = [1.0 / (2 ** (k + 1)) for k in range(n - 1)] + [1.0 / (2 ** (n - 1))] if with_probs else None
            r = is_distinguishable(states, pr)
        finally:
            m.state_distinguishability = o
        return [r, seen["probs"] == pr and seen["strategy"] == "min_error" and seen["n"] == n]

    def oracle(i):
        return None

    def post(res, exp, i):
        v = i["v"]
        if isinstance(v, float):
            return bool(res[0]) == (abs(v - 1) <= 1e-8 + 1e-5) and res[1]
        tol = lift(1e-8) + lift(1e-5)      # numpy: atol + rtol * |1| (added exactly, as the symbolic execution does)
        want = (v - 1 <= tol) & (1 - v <= tol)
        return (SymBool(res[0]) == want) & SymBool(res[1])
    return Obligation("is_distinguishable.verdict_is_isclose_of_optimum_to_one", cfg, build, call, oracle, post=post, neg_control=False, tv=False)


def returned_certificate_tasks(fn, name, tier):
    """(value, measurements) returned for complex / real ensembles, min-error strategy, both formulations"""
    from props.common import ReturnedCertificateTask
    out = []
    fam = [("3 complex qubit kets (normalised), prior (1/2,3/10,1/5)", [np.array([1, 0], dtype=complex), np.array([1, 1j]) / np.sqrt(2), np.array([1, np.exp(0.7j)]) / np.sqrt(2)], [0.5, 0.3, 0.2]),
           ("2 real qubit kets (normalised), prior (2/5,3/5)", [np.array([1.0, 0.0]), np.array([1.0, 1.0]) / np.sqrt(2)], [0.4, 0.6]),
           ("2 complex qutrit density matrices, uniform", None, [0.5, 0.5])]
    # exactly orthogonal kets, FEWER states than the dimension (a perfect measurement needs an extra assignment of the complement)
    fam.append(("2 orthogonal Bell kets in dimension 4, prior (1/4,3/4)", [np.array([1, 0, 0, 1]) / np.sqrt(2), np.array([0, 1, 1, 0]) / np.sqrt(2)], [0.25, 0.75]))
    rng = np.random.default_rng(33)
    A = rng.normal(size=(3, 3)) + 1j * rng.normal(size=(3, 3))
    B = rng.normal(size=(3, 2)) + 1j * rng.normal(size=(3, 2))
    fam[2] = (fam[2][0], [A @ A.conj().T / np.trace(A @ A.conj().T).real, B @ B.conj().T / np.trace(B @ B.conj().T).real], [0.5, 0.5])
    for nm, vs, ps in fam:
        rhos = [rho_of(v) for v in vs]
        for pd in ("primal", "dual"):
            if pd == "primal" and nm.startswith("2 orthogonal Bell kets"):
                continue      # cvxopt breaks down on the primal of this rank-deficient ensemble on the unmodified library (a solver matter)
            out.append(ReturnedCertificateTask(name, {"instance": nm, "strategy": "min_error", "primal_dual": pd},
                                               (lambda vs=vs, ps=ps, pd=pd: fn([np.array(v) for v in vs], list(ps), strategy="min_error", primal_dual=pd)), rhos, ps))
    return out

class EarlierResultTask(Task):
    """The measurement operators a call returned keep their values when the function is called again on another ensemble of the same
    shape (round-6 seed: the program skeleton and its variables memoised per shape).  Real solver, concrete call history."""
    engine = "concrete-history (real function and solver: call, call again on another ensemble, read the first result)"
    weight = 10

    def __init__(self, name, cfg, fn, ens_a, ens_b):
        super().__init__(name, cfg)
        self.fn, self.a, self.b = fn, ens_a, ens_b

    def _go(self):
        def vals(ms):
            out = []
            for m in ms:
                v = getattr(m, "value", m)
                out.append(np.array(v, dtype=complex) if not hasattr(v, "size") or True else v)
            return out
        va, ma = self.fn(*self.a)
        before = [np.array(x, dtype=complex).copy() for x in vals(ma)]
        self.fn(*self.b)
        after = [np.array(x, dtype=complex) for x in vals(ma)]
        return before, after

    def _run(self, rec, seed):
        try:
            before, after = self._go()
        except (ArithmeticError, ZeroDivisionError) as e:
            rec["notes"].append(f"conic solver breakdown ({type(e).__name__})")
            return
        rec["reachable"] = True
        if len(before) == len(after) and all(x.shape == y.shape and np.allclose(x, y, atol=1e-9) for x, y in zip(before, after)):
            rec["status"] = "discharged"
        else:
            rec["status"] = "violation"
            rec["violation"] = {"source": "operators returned by an earlier call changed when the function was called again (reproduced on the real function)",
                                "inputs": self.cfg, "actual": [np.round(x, 6).tolist().__repr__() for x in after][:2], "expected": [np.round(x, 6).tolist().__repr__() for x in before][:2]}

    def replay(self, rp):
        before, after = self._go()
        return all(np.allclose(x, y, atol=1e-9) for x, y in zip(before, after))


def earlier_result_tasks(fn, name):
    a = ([np.array([1, 0], dtype=complex), np.array([1, 1j]) / np.sqrt(2), np.array([1, np.exp(0.7j)]) / np.sqrt(2)], [0.5, 0.3, 0.2])
    b = ([np.array([1, 0.5j]) / np.sqrt(1.25), np.array([0.6, 0.8], dtype=complex), np.array([1, -1j]) / np.sqrt(2)], [0.2, 0.3, 0.5])
    out = []
    for pd in ("primal", "dual"):
        out.append(EarlierResultTask(name, {"strategy": "min_error", "primal_dual": pd, "ensembles": "two different ensembles of 3 complex qubit kets"},
                                     (lambda vs, ps, pd=pd: fn([np.array(v) for v in vs], list(ps), strategy="min_error", primal_dual=pd)), a, b))
    return out

def guessing_family(vs, ps):
    """T5 family for the min-error primal programs (discrimination and exclusion alike): ignore the system and announce outcome i
    with probability q_i - M_i = q_i * identity, q a symbolic probability vector.  Its value is sum_i q_i p_i Tr(rho_i); hence the
    discrimination optimum is at least the largest (and the exclusion optimum at most the smallest) p_i Tr(rho_i)."""
    from sdpcap.order import cmat, fact_combination
    from props.c11 import pfrac, rho_exact
    n = len(vs)
    rhos = [rho_exact(v) for v in vs]
    d = rhos[0].shape[0]
    eye = cmat(np.eye(d))

    def family(b, variables):
        import z3
        q = [b.real(f"q_{i}") for i in range(n)]
        assume = [lift(x).re.to_z3() >= 0 for x in q] + [z3.Sum([lift(x).re.to_z3() for x in q]) == 1]
        pts = []
        for v in variables:
            i = int(v.name[v.name.index("[") + 1:v.name.index("]")])
            pts.append(eye * q[i])
        facts = [fact_combination([q[i]], [eye]) for i in range(n)]
        val = 0
        for i in range(n):
            val = val + pfrac(ps[i]) * tr(rhos[i]) * q[i]
        return {"points": pts, "assume": assume, "facts": facts, "value": lift(val).real}

    def weights():
        return [float(p) * float(np.real(np.trace(rho_of(v)))) for p, v in zip(ps, vs)]
    return family, weights


def bound_obligations(fn, name, sense, tier):
    from sdpcap.order import FamilyTask
    out = []
    for nm, vs, ps in instances("quick"):
        n = len(vs)
        pp = ps if ps is not None else [1.0 / n] * n
        fam, weights = guessing_family(vs, pp)
        out.append(FamilyTask(name, {"instance": nm, "strategy": "min_error", "primal_dual": "primal", "sense": sense},
                              (lambda vs=vs, ps=ps: fn([np.array(v) for v in vs], ps, strategy="min_error", primal_dual="primal")), fam,
                              best=(lambda w=weights: max(w())) if sense == "max" else (lambda w=weights: min(w())),
                              trusted=["a non-negative multiple of the identity is PSD"]))
    return out


def obligations(tier):
    obs = []
    obs += returned_certificate_tasks(state_distinguishability, "state_distinguishability.returned_measurement_is_a_povm_attaining_the_returned_value", tier)
    obs += earlier_result_tasks(state_distinguishability, "state_distinguishability.returned_measurement_is_unchanged_by_a_later_call")
    obs += bound_obligations(state_distinguishability, "state_distinguishability.min_error_value_at_least_every_guessing_strategy_hence_the_largest_prior", "max", tier)
    from props.c09 import DualityTask
    for name, vs, ps in instances(tier):
        obs.append(DualityTask("state_distinguishability.min_error_dual_is_lagrange_dual_of_primal", {"instance": name},
                               (lambda vs=vs, ps=ps: state_distinguishability([np.array(v) for v in vs], ps, strategy="min_error", primal_dual="primal")),
                               (lambda vs=vs, ps=ps: state_distinguishability([np.array(v) for v in vs], ps, strategy="min_error", primal_dual="dual"))))
    for n in (2, 3):
        for wp in (False, True):
            obs.append(ob_distinguishable_glue(n, wp))
    for name, vs, ps in instances(tier):
        n = len(vs)
        pp = ps if ps is not None else [1.0 / n] * n
        dens = rho_of(vs[0]).shape == np.asarray(vs[0]).shape
        for strat in ["min_error", "unambiguous"]:
            if strat == "unambiguous" and dens:
                continue
            for pd in ["primal", "dual"]:
                cfg = {"instance": name, "strategy": strat, "primal_dual": pd}
                obs.append(SdpTask("state_distinguishability.program_is_textbook_program", cfg,
                                   (lambda vs=vs, ps=ps, strat=strat, pd=pd: state_distinguishability(vs, ps, strategy=strat, primal_dual=pd)),
                                   REFS[(strat, pd)], instance=(vs, pp)))
    for n, d in [(2, 2), (3, 2), (2, 3)]:
        for form in ["1d", "col", "row"]:
            obs.append(ob_glue(n, d, form))
    return obs
