"""C03 Partial transpose and realignment exchange exactly the stated indices."""
from __future__ import annotations

import itertools

import numpy as np

from symnp.harness import Obligation, eq
from props.common import CvxpyPathTask, prod, flat_index
from toqito.channels import partial_transpose, realignment

META = {
    "id": "C03",
    "level": "other",
    "files": ["toqito/channels/partial_transpose.py", "toqito/channels/realignment.py", "toqito/perms/permute_systems.py",
              "toqito/perms/swap.py", "toqito/helper/expr_as_np_array.py", "toqito/helper/np_array_as_expr.py"],
    "functions": ["toqito.channels.partial_transpose", "toqito.channels.realignment", "toqito.perms.permute_systems", "toqito.perms.swap"],
    "explanation": "Bounded symbolic execution of the real partial_transpose / realignment on arrays of uninterpreted-sort "
                   "entries (pure relabelling: any arithmetic on an entry aborts the run) and of symbolic complex numbers "
                   "(product form). For each enumerated (row dims, column dims, S, argument form) z3 decides cell-for-cell "
                   "equality with an explicit multi-index oracle for all entry values. cvxpy Variable path: affine map of the "
                   "returned expression extracted on a basis and proved equal to the numeric path for all variable values.",
    "bounds": {
        "quick": "square: <=3 subsystems, dims in {1,2,3}, N<=18; rectangular: <=3 subsystems, local dims in {2,3}, totals<=18; "
                 "all subsets S (list, ndarray, int); realignment: local dims in {2,3} (rect) / {2,3,4} (square); cvxpy N<=6",
        "thorough": "square N<=36, <=4 subsystems incl. 2x2x2x2; rectangular totals<=36; realignment dims<=5; cvxpy N<=12",
    },
    "trusted_base": ["numpy object-array semantics = numeric semantics (translator validation per obligation)",
                     "cvxpy evaluates its own expression tree correctly (.value)", "z3 5.1.0"],
    "outside_claim": ["sizes above the bound", "rectangular inputs with a local dimension 1 (excluded by the property's quantifier)"],
    "assumptions": [],
}


def oracle_pt(X, dr, dc, S):
    dr, dc = [int(d) for d in dr], [int(d) for d in dc]
    n = len(dr)
    S = set(int(s) for s in S)
    odr = [dc[k] if k in S else dr[k] for k in range(n)]
    odc = [dr[k] if k in S else dc[k] for k in range(n)]
    X = np.asarray(X)
    out = np.empty((prod(odr), prod(odc)), dtype=object)
    for a, r in enumerate(itertools.product(*[range(d) for d in odr])):
        for b, c in enumerate(itertools.product(*[range(d) for d in odc])):
            rr = [c[k] if k in S else r[k] for k in range(n)]
            cc = [r[k] if k in S else c[k] for k in range(n)]
            out[a, b] = X[flat_index(rr, dr), flat_index(cc, dc)]
    return out


def dimarg(dr, dc, form):
    if form == "flat":
        return list(dr)
    if form == "flat_array":
        return np.array(dr)
    if form == "2row":
        return [list(dr), list(dc)]
    return np.array([list(dr), list(dc)])


def sysarg(S, form):
    if form == "int":
        return int(S[0])
    if form == "np.int64":
        return np.int64(S[0])
    if form == "array":
        return np.array(S)
    return list(S)


def ob_def(dr, dc, S, dform, sform):
    cfg = {"dims_r": list(dr), "dims_c": list(dc), "sys": list(S), "dim_form": dform, "sys_form": sform}

    def build(b):
        return {"X": b.array("X", (prod(dr), prod(dc)), "e")}

    def call(i):
        return partial_transpose(i["X"], sysarg(S, sform), dimarg(dr, dc, dform))

    def oracle(i):
        return oracle_pt(i["X"], dr, dc, S)
    return Obligation("partial_transpose.definition", cfg, build, call, oracle)


def ob_scalar_dim(N, d, S, dform):
    """a single number d for `dim` means local dimensions [d, N/d] (rows and columns alike)"""
    cfg = {"N": N, "dim_scalar": d, "sys": list(S), "dim_form": dform}
    dims = [d, N // d]

    def build(b):
        return {"X": b.array("X", (N, N), "e")}

    def call(i):
        darg = {"int": d, "float": float(d), "list1": [d], "array1": np.array([d])}[dform]
        return partial_transpose(i["X"], list(S), darg)

    def oracle(i):
        return oracle_pt(i["X"], dims, dims, S)
    return Obligation("partial_transpose.scalar_dim_means_[d,N/d]", cfg, build, call, oracle)


def ob_default(d):
    cfg = {"d": d}

    def build(b):
        return {"X": b.array("X", (d * d, d * d), "e")}

    def call(i):
        return [partial_transpose(i["X"]), partial_transpose(i["X"], [0]), partial_transpose(i["X"], [0, 1])]

    def oracle(i):
        return [oracle_pt(i["X"], [d, d], [d, d], [1]), oracle_pt(i["X"], [d, d], [d, d], [0]), np.asarray(i["X"]).T]
    return Obligation("partial_transpose.default_arguments", cfg, build, call, oracle)


def ob_algebra(dr, dc, S):
    """involution; all subsystems = transpose; PT_S and PT_{S^c} differ by a full transpose"""
    cfg = {"dims_r": list(dr), "dims_c": list(dc), "sys": list(S)}
    n = len(dr)

    def build(b):
        return {"X": b.array("X", (prod(dr), prod(dc)), "e")}

    def call(i):
        D = [list(dr), list(dc)]
        y = partial_transpose(i["X"], list(S), D)
        odr = [dc[k] if k in S else dr[k] for k in range(n)]
        odc = [dr[k] if k in S else dc[k] for k in range(n)]
        back = partial_transpose(y, list(S), [odr, odc])
        full = partial_transpose(i["X"], list(range(n)), D)
        comp = [k for k in range(n) if k not in S]
        res = [back, full]
        if comp:
            res.append(partial_transpose(i["X"], comp, D))
        return res

    def oracle(i):
        X = np.asarray(i["X"])
        res = [X, X.T]
        if len(S) < n:
            res.append(oracle_pt(X, dr, dc, S).T)
        return res
    return Obligation("partial_transpose.involution_full_transpose_complement", cfg, build, call, oracle)


def oracle_realign(X, dr, dc):
    r1, r2 = dr
    c1, c2 = dc
    X = np.asarray(X)
    out = np.empty((r1 * c1, r2 * c2), dtype=object)
    for i1 in range(r1):
        for j1 in range(c1):
            for i2 in range(r2):
                for j2 in range(c2):
                    out[i1 * c1 + j1, i2 * c2 + j2] = X[i1 * r2 + i2, j1 * c2 + j2]
    return out


def ob_realign(dr, dc, form):
    cfg = {"dims_r": list(dr), "dims_c": list(dc), "dim_form": form}

    def build(b):
        return {"X": b.array("X", (prod(dr), prod(dc)), "e")}

    def call(i):
        if form == "omitted":
            return realignment(i["X"])
        if form == "int":
            return realignment(i["X"], int(dr[0]))
        if form == "flat":
            return realignment(i["X"], list(dr))
        return realignment(i["X"], [list(dr), list(dc)])

    def oracle(i):
        return oracle_realign(i["X"], dr, dc)
    return Obligation("realignment.definition", cfg, build, call, oracle)


def ob_realign_product(sa, sb):
    cfg = {"A_shape": list(sa), "B_shape": list(sb)}

    def build(b):
        return {"A": b.array("A", sa, "c"), "B": b.array("B", sb, "c")}

    def call(i):
        R = realignment(np.kron(i["A"], i["B"]), [[sa[0], sb[0]], [sa[1], sb[1]]])
        X = np.kron(i["A"], i["B"])
        fro_in = sum(v * v.conjugate() for v in np.asarray(X).flat)
        fro_out = sum(v * v.conjugate() for v in np.asarray(R).flat)
        return [R, fro_out - fro_in]

    def oracle(i):
        va = np.asarray(i["A"]).reshape(-1, 1)
        vb = np.asarray(i["B"]).reshape(1, -1)
        return [va @ vb, 0]
    return Obligation("realignment.product_to_rank_one_and_frobenius", cfg, build, call, oracle)


def subsets(n):
    for r in range(1, n + 1):
        for s in itertools.combinations(range(n), r):
            yield list(s)


def obligations(tier):
    T = tier == "thorough"
    obs = []
    # square
    for n in ([2, 3, 4] if T else [2, 3]):
        for d in itertools.product([1, 2, 3] if n < 4 else [1, 2], repeat=n):
            if not (2 <= prod(d) <= (36 if T else 18)):
                continue
            for S in subsets(n):
                obs.append(ob_def(d, d, S, "flat", "list"))
                if len(S) == 1:
                    obs.append(ob_def(d, d, S, "flat_array", "int"))
                else:
                    obs.append(ob_def(d, d, list(reversed(S)), "2row", "array"))
                obs.append(ob_algebra(d, d, S))
    # rectangular, local dims >= 2
    for n in [2, 3]:
        vals = [2, 3, 4] if (T and n == 2) else [2, 3]
        for dr in itertools.product(vals, repeat=n):
            for dc in itertools.product(vals, repeat=n):
                if dr == dc or prod(dr) > (36 if T else 18) or prod(dc) > (36 if T else 18):
                    continue
                for S in subsets(n):
                    obs.append(ob_def(dr, dc, S, "2row", "list"))
                    obs.append(ob_def(dr, dc, S, "array", "array" if len(S) > 1 else "int"))
                    if dr < dc:
                        obs.append(ob_algebra(dr, dc, S))
    # the empty set (nothing is transposed) and a numpy integer as S
    for d in [(2, 2), (2, 3), (2, 2, 2)]:
        for sform in ("list", "array"):
            obs.append(ob_def(d, d, [], "flat", sform))
        obs.append(ob_def(d, d, [len(d) - 1], "flat", "np.int64"))
    obs.append(ob_def((2, 3), (3, 2), [], "2row", "list"))
    obs.append(ob_def((2, 3), (3, 2), [0], "2row", "np.int64"))
    # many subsystems (9..17), all but two or three of dimension 1 (orderings of unordered containers, digit arithmetic)
    many = [([1, 2, 1, 1, 1, 1, 1, 1, 2], [1]), ([1, 2, 1, 1, 1, 1, 1, 1, 3], [8, 0, 3]), ([2, 1, 1, 1, 1, 1, 1, 1, 3, 1], [0, 9]),
            ([1, 3, 1, 1, 1, 1, 1, 1, 2, 1], [8]), ([1, 1, 2, 1, 1, 1, 1, 1, 1, 1, 1, 1, 1, 1, 1, 1, 3], [16, 5])]
    for d, S in many:
        obs.append(ob_def(tuple(d), tuple(d), S, "flat", "list"))
        obs.append(ob_algebra(tuple(d), tuple(d), S))
    for d in [2, 3] + ([4, 5] if T else [4]):
        obs.append(ob_default(d))
    for N, d in [(4, 2), (6, 2), (6, 3), (8, 2), (8, 4), (9, 3), (12, 3), (12, 4), (6, 1), (6, 6)] + ([(15, 3), (15, 5), (16, 2), (16, 8)] if T else []):
        for S in ([0], [1], [0, 1]):
            for dform in (("int", "float", "list1", "array1") if (T or N <= 8) else ("int",)):
                obs.append(ob_scalar_dim(N, d, S, dform))
    # realignment
    # local dimensions >= 2 only: that is the property's quantifier for realignment (dimension-1 factors make the
    # swap / partial_transpose chain hit the vector branch of permute_systems; not claimed, see DESIGN.md false alarms)
    for d1 in [2, 3, 4] + ([5] if T else []):
        obs.append(ob_realign((d1, d1), (d1, d1), "omitted"))
        for d2 in [2, 3, 4]:
            if d1 * d2 > (20 if T else 12):
                continue
            obs.append(ob_realign((d1, d2), (d1, d2), "flat"))
            obs.append(ob_realign((d1, d2), (d1, d2), "int"))
    vals = [2, 3, 4] if T else [2, 3]
    for dr in itertools.product(vals, repeat=2):
        for dc in itertools.product(vals, repeat=2):
            obs.append(ob_realign(dr, dc, "2row"))
    for sa, sb in [((2, 2), (2, 2)), ((2, 3), (3, 2)), ((3, 2), (2, 2)), ((2, 2), (2, 3)), ((2, 3), (2, 3))] + ([((3, 3), (2, 4)), ((4, 2), (3, 3))] if T else []):
        obs.append(ob_realign_product(sa, sb))
    # cvxpy Variable path
    cv = [((2, 2), [1]), ((2, 2), [0]), ((2, 3), [0]), ((3, 2), [1]), ((2, 3), [0, 1])]
    cv += [((2, 2, 2), [1]), ((2, 2, 2), [0, 2])] if not T else \
        [((2, 2, 2), [1]), ((2, 2, 2), [0, 2]), ((2, 3, 2), [1]), ((3, 4), [0]), ((2, 2, 3), [2, 0])]
    for d, S in cv:
        for st in (["complex", "hermitian", "symmetric", "real"] if prod(d) <= 6 else ["hermitian", "real"]):
            obs.append(CvxpyPathTask("partial_transpose.cvxpy_variable_path_equals_numeric_path", {"dims": list(d), "sys": list(S), "variable": st},
                                     lambda X, S=S, d=d: partial_transpose(X, list(S), list(d)), prod(d), prod(d), st))
    obs.append(CvxpyPathTask("partial_transpose.cvxpy_variable_path_equals_numeric_path", {"dims": "omitted", "sys": "omitted", "variable": "hermitian"},
                             lambda X: partial_transpose(X), 4, 4, "hermitian"))
    # rectangular variable
    obs.append(CvxpyPathTask("partial_transpose.cvxpy_variable_path_equals_numeric_path", {"dims": [[2, 2], [2, 3]], "sys": [1], "variable": "complex"},
                             lambda X: partial_transpose(X, [1], [[2, 2], [2, 3]]), 4, 6, "complex"))
    return obs
