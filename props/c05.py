"""C05 Dual and complementary maps satisfy their defining identities."""
from __future__ import annotations

import itertools

import numpy as np

from symnp.harness import Obligation, eq, implies
from symnp.core import And, Or, SymBool
from props.common import dagger, prod
from props.c04 import as_form, build_kraus, choi_oracle, phi
from toqito.channel_ops import apply_channel, complementary_channel, dual_channel, kraus_to_choi
from toqito.channel_props import is_trace_preserving, is_unital

META = {
    "id": "C05",
    "level": "other",
    "files": ["toqito/channel_ops/dual_channel.py", "toqito/channel_ops/complementary_channel.py", "toqito/channel_ops/apply_channel.py",
              "toqito/channel_ops/kraus_to_choi.py", "toqito/helper/channel_dim.py", "toqito/perms/swap.py",
              "toqito/channel_props/is_unital.py", "toqito/channel_props/is_trace_preserving.py", "toqito/matrix_props/is_identity.py"],
    "functions": ["toqito.channel_ops.dual_channel", "toqito.channel_ops.complementary_channel", "toqito.channel_ops.apply_channel",
                  "toqito.channel_props.is_unital", "toqito.channel_props.is_trace_preserving"],
    "explanation": "Bounded symbolic execution of the real dual_channel / complementary_channel (observed through the real "
                   "apply_channel) with all entries of Phi (Kraus flat / nested / paired, or Choi), X and Y symbolic complex "
                   "numbers. z3 decides the adjoint identity <Y,Phi(X)> = <Phi*(Y),X>, dual(dual Phi) = Phi as maps, the "
                   "equivalence of the verdict formulas of is_unital(Phi) and is_trace_preserving(dual Phi), the entry "
                   "formula Tr(K_i rho K_j^dagger) of the complementary channel, its trace = Tr(rho * sum K^dagger K), and "
                   "that the completeness guard raises only when sum K^dagger K != I and passes only within tolerance.",
    "bounds": {"quick": "dims (d_in,d_out) in {1,2,3}^2, rank<=2, rectangular left/right pairs, Choi form with dims argument; complementary: d in {2,3}, r<=3",
               "thorough": "dims<=4, rank<=3"},
    "trusted_base": ["numpy object-array semantics = numeric semantics (translator validation per obligation)", "z3 5.1.0"],
    "outside_claim": ["'same non-zero spectrum on pure inputs' (spectral consequence of the entry formula, a theorem of linear algebra, not glue)",
                      "dimensions above the bound"],
    "assumptions": ["floats modelled as reals"],
}


def hs(A, B):
    """<A,B> = Tr(A^dagger B)"""
    A, B = np.asarray(A), np.asarray(B)
    tot = 0
    for i in range(A.shape[0]):
        for j in range(A.shape[1]):
            tot = tot + A[i, j].conjugate() * B[i, j]
    return tot


def ob_adjoint(din, dout, r, form, din1=None, dout1=None):
    paired = form in ("pairs", "choi_pairs")
    cfg = {"d_in": din, "d_out": dout, "rank": r, "form": form}
    d1i, d1o = (din1 or din), (dout1 or dout)
    if paired:
        cfg.update({"d_in_right": d1i, "d_out_right": d1o})

    def build(b):
        A, B = build_kraus(b, din, dout, r, paired, din1, dout1)
        return {"A": A, "B": B, "X": b.array("X", (din, d1i if paired else din), "c"),
                "Y": b.array("Y", (dout, d1o if paired else dout), "c")}

    def call(i):
        if form.startswith("choi"):
            kform = "pairs" if paired else "flat"
            J = kraus_to_choi(as_form(i["A"], i["B"], kform))
            dims = [[din, dout], [d1i if paired else din, d1o if paired else dout]]
            m = J
            md = dual_channel(J, dims=dims)
        else:
            m = as_form(i["A"], i["B"], form)
            md = dual_channel(m)
        lhs = hs(i["Y"], apply_channel(i["X"], m))
        rhs = hs(apply_channel(i["Y"], md), i["X"])
        return lhs - rhs

    def oracle(i):
        return 0
    return Obligation("dual_channel.adjoint_identity", cfg, build, call, oracle, neg_control=False)


def ob_adjoint_symbolic_choi(din, dout):
    """Phi given directly by an arbitrary symbolic Choi matrix (any linear map)"""
    cfg = {"d_in": din, "d_out": dout}

    def build(b):
        return {"J": b.array("J", (din * dout, din * dout), "c"), "X": b.array("X", (din, din), "c"), "Y": b.array("Y", (dout, dout), "c")}

    def call(i):
        Jd = dual_channel(i["J"], dims=[din, dout])
        return [hs(i["Y"], apply_channel(i["X"], i["J"])) - hs(apply_channel(i["Y"], Jd), i["X"]), np.asarray(Jd.shape)]

    def oracle(i):
        return [0, np.asarray((din * dout, din * dout))]
    return Obligation("dual_channel.adjoint_identity_symbolic_choi", cfg, build, call, oracle, neg_control=False)


def ob_double_dual(din, dout, r, form):
    cfg = {"d_in": din, "d_out": dout, "rank": r, "form": form}
    paired = form in ("pairs",)

    def build(b):
        A, B = build_kraus(b, din, dout, r, paired)
        return {"A": A, "B": B, "X": b.array("X", (din, din), "c")}

    def call(i):
        if form == "choi":
            m = kraus_to_choi(list(i["A"]))
            dd = dual_channel(dual_channel(m, dims=[din, dout]), dims=[dout, din])
        else:
            m = as_form(i["A"], i["B"], form)
            dd = dual_channel(dual_channel(m))
        return apply_channel(i["X"], dd)

    def oracle(i):
        return phi(i["X"], i["A"], i["B"])
    return Obligation("dual_channel.dual_of_dual_acts_as_phi", cfg, build, call, oracle)


def ob_unital_tp(d, r, form):
    """Phi unital  <=>  Phi* trace preserving : the two verdict formulas are equivalent for every map"""
    cfg = {"d": d, "rank": r, "form": form}
    paired = form in ("pairs", "choi_pairs")

    def build(b):
        A, B = build_kraus(b, d, d, r, paired)
        return {"A": A, "B": B}

    def call(i):
        if form.startswith("choi"):
            m = kraus_to_choi(as_form(i["A"], i["B"], "pairs" if paired else "flat"))
        else:
            m = as_form(i["A"], i["B"], form)
        u = is_unital(m)
        t = is_trace_preserving(dual_channel(m))
        return [SymBool(u) == SymBool(t)]

    def oracle(i):
        return [True]
    return Obligation("dual_channel.unital_iff_dual_trace_preserving", cfg, build, call, oracle, neg_control=False)


def ob_complementary(d, r, mixed=False):
    cfg = {"d": d, "rank": r}
    if mixed:
        cfg["dtypes"] = "first Kraus operator real (float array in the numeric runs), the others complex"

    def build(b):
        A, _ = build_kraus(b, d, d, r, False)
        if mixed:
            A = [b.array("A0real", (d, d), "r")] + list(A[1:])
        return {"A": A, "rho": b.array("rho", (d, d), "c")}

    def S_of(i):
        tot = None
        for k in i["A"]:
            t = dagger(k) @ np.asarray(k)
            tot = t if tot is None else tot + t
        return tot

    def call(i):
        comp = complementary_channel(list(i["A"]))
        out = apply_channel(i["rho"], comp)
        return [out, np.trace(out)]

    def oracle(i):
        A = [np.asarray(k) for k in i["A"]]
        rho = np.asarray(i["rho"])
        out = np.empty((r, r), dtype=object)
        for a in range(r):
            for c in range(r):
                out[a, c] = np.trace(A[a] @ rho @ dagger(A[c]))
        # Tr of the output = Tr(rho * sum K^dagger K)  (= Tr rho under completeness)
        return [out, np.trace(rho @ S_of(i))]

    def post(res, exp, i):
        # on the accepting path the completeness relation holds within (a generous multiple of) the tolerance
        S = S_of(i)
        I = np.identity(d)
        within = True
        for a in range(d):
            for c in range(d):
                dlt = S[a, c] - I[a, c]
                if isinstance(dlt, (int, float, complex, np.number)):
                    within = within and abs(dlt) <= 1e-4
                else:
                    within = within & (dlt.real <= 1e-4) & (dlt.real >= -1e-4) & (dlt.imag <= 1e-4) & (dlt.imag >= -1e-4)
        return eq(res, exp) & within if not isinstance(within, bool) else (eq(res, exp) and within)

    def exc_post(e, i):
        # raising is legitimate only if the completeness relation fails exactly
        if not isinstance(e, ValueError):
            return False
        S = S_of(i)
        exact = eq(S, np.identity(d))
        return ~exact if isinstance(exact, SymBool) else (not exact)
    def witness():
        if not mixed:
            # a complete (trace preserving) family of r generic complex operators: mixed-unitary channel with unequal weights
            rng = np.random.default_rng(50 + 7 * d + r)
            w = rng.random(r) + 0.2
            w = w / w.sum()
            ks = []
            for k in range(r):
                q, _ = np.linalg.qr(rng.normal(size=(d, d)) + 1j * rng.normal(size=(d, d)))
                ks.append(np.sqrt(w[k]) * q)
            rho = rng.normal(size=(d, d)) + 1j * rng.normal(size=(d, d))
            return [{"A": ks, "rho": rho @ rho.conj().T / np.trace(rho @ rho.conj().T).real}]
        # complete families whose first operator is a REAL float array and whose later operators are complex
        p = 0.3
        out = []
        if d == 2:
            Yp = np.array([[0, -1j], [1j, 0]])
            ks = [np.sqrt(1 - p) * np.eye(2), np.sqrt(p) * Yp] + [np.zeros((2, 2), dtype=complex)] * (r - 2)
            out.append({"A": ks, "rho": np.array([[0.7, 0.2 - 0.1j], [0.2 + 0.1j, 0.3]])})
        U = np.diag(np.exp(2j * np.pi * np.arange(d) / d))
        ks = [np.sqrt(1 - p) * np.eye(d), np.sqrt(p) * U] + [np.zeros((d, d), dtype=complex)] * (r - 2)
        rho = np.full((d, d), 1.0 / d, dtype=complex)
        out.append({"A": ks, "rho": rho})
        return out
    return Obligation("complementary_channel.entries_trace_and_guard", cfg, build, call, oracle, post=post, exc_post=exc_post,
                      neg_control=False, witness=witness)


def ob_complementary_accepts_exact(d):
    """a family that satisfies completeness by construction (c,s with c^2+s^2=1 : K0=diag(1,c), K1=[[0,s],[0,0]] style) is accepted"""
    cfg = {"d": d, "family": "amplitude-damping-like, c*c + s*s = 1"}

    def build(b):
        return {"c": b.real("c"), "s": b.real("s"), "rho": b.array("rho", (d, d), "c")}

    def ks(i):
        c, s = i["c"], i["s"]
        K0 = np.zeros((d, d), dtype=object)
        K1 = np.zeros((d, d), dtype=object)
        for k in range(d):
            K0[k, k] = 1 if k < d - 1 else c
        K1[0, d - 1] = s
        return [K0, K1]

    def call(i):
        from symnp.array import SymArray
        K = [k.view(SymArray) if not isinstance(i["c"], (int, float)) else k.astype(float) for k in ks(i)]
        comp = complementary_channel(K)
        return np.trace(apply_channel(i["rho"], comp))

    def oracle(i):
        return np.trace(np.asarray(i["rho"]))

    def assume(i):
        c, s = i["c"], i["s"]
        return [(c * c + s * s).eq_solver(1)]

    def valid(ni):
        return abs(ni["c"] ** 2 + ni["s"] ** 2 - 1) < 1e-12
    return Obligation("complementary_channel.accepts_complete_family_and_preserves_trace", cfg, build, call, oracle,
                      assume=assume, valid=valid, tv=False, neg_control=False, mode="nra")


def obligations(tier):
    T = tier == "thorough"
    obs = []
    dd = [1, 2, 3] + ([4, 5] if T else [])
    for din, dout in itertools.product(dd, dd):
        for r in ([1, 2, 3, 4] if T else [1, 2]):
            for form in ["flat", "nested_col", "pairs"]:
                obs.append(ob_adjoint(din, dout, r, form))
                obs.append(ob_double_dual(din, dout, r, form))
            if r >= 3:      # the single-row nested form [[K1, ..., Kr]] is a CP Kraus list only for r > 2 (two entries are a left/right pair)
                obs.append(ob_adjoint(din, dout, r, "nested_row"))
                obs.append(ob_double_dual(din, dout, r, "nested_row"))
            if 2 <= din * dout <= 9:   # a 1x1 "Choi matrix" is a scalar: permute_systems treats it as a vector (degenerate, not claimed)
                obs.append(ob_adjoint(din, dout, r, "choi"))
                obs.append(ob_adjoint(din, dout, r, "choi_pairs"))
                obs.append(ob_double_dual(din, dout, r, "choi"))
    if not T:
        for din, dout in [(2, 2), (2, 3), (1, 2)]:
            obs.append(ob_adjoint(din, dout, 3, "nested_row"))
            obs.append(ob_double_dual(din, dout, 3, "nested_row"))
    for din, dout, din1, dout1 in [(2, 3, 3, 2), (2, 2, 3, 2), (3, 2, 2, 2), (2, 1, 1, 2), (1, 2, 2, 3)] + ([(2, 3, 4, 2)] if T else []):
        for r in [1, 2]:
            obs.append(ob_adjoint(din, dout, r, "pairs", din1, dout1))
            obs.append(ob_adjoint(din, dout, r, "choi_pairs", din1, dout1))
    for din, dout in [(2, 2), (2, 3), (3, 2), (1, 2)] + ([(3, 3), (2, 4)] if T else []):
        obs.append(ob_adjoint_symbolic_choi(din, dout))
    for d in [1, 2, 3] + ([4] if T else []):
        for r in [1, 2]:
            for form in ["pairs", "choi", "choi_pairs"]:
                if form.startswith("choi") and (d > 3 or d == 1):
                    continue
                obs.append(ob_unital_tp(d, r, form))
    for d in [2, 3] + ([4] if T else []):
        for r in [1, 2, 3] + ([5] if d == 2 else []) + ([10] if (T and d == 3) else []):     # 5 > d^2 = 4: a non-minimal Kraus family
            if d * r <= (12 if T else 10) or r > d * d:
                obs.append(ob_complementary(d, r))
                if r >= 2:
                    obs.append(ob_complementary(d, r, mixed=True))
        obs.append(ob_complementary_accepts_exact(d))
    return obs
