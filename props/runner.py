"""Runs the obligations of one property, writes evidence, prints VIOLATION / KNOWN-FINDING lines."""
from __future__ import annotations

import argparse
import hashlib
import importlib
import json
import multiprocessing as mp
import os
import random
import signal
import sys
import time

VERIF = os.path.dirname(os.path.dirname(os.path.abspath(__file__)))
sys.path.insert(0, VERIF)
REPO = os.environ.get("VERIF_REPO", "/repo")

_TASKS = []
_SEED = 0


class _Alarm(BaseException):
    pass


def _on_alarm(sig, frm):
    raise _Alarm()


def _run_idx(i):
    from symnp.harness import Obligation, run_obligation
    t = _TASKS[i]
    cap = int(getattr(t, "wall_cap_s", 600) + 120)
    signal.signal(signal.SIGALRM, _on_alarm)
    signal.alarm(cap)
    t0 = time.time()
    try:
        if isinstance(t, Obligation):
            rec = run_obligation(t, _SEED)
        else:
            rec = t.run(_SEED)
    except _Alarm:
        rec = {"name": t.name, "cfg": t.cfg, "status": "inconclusive", "notes": [f"hard wall cap {cap}s"],
               "paths": 0, "queries": 0, "solver_s": 0.0, "wall_s": time.time() - t0}
    except BaseException as e:  # noqa: BLE001
        import traceback
        rec = {"name": t.name, "cfg": t.cfg, "status": "error", "notes": [f"{type(e).__name__}: {e}"],
               "trace": traceback.format_exc()[-2000:], "paths": 0, "queries": 0, "solver_s": 0.0,
               "wall_s": time.time() - t0}
    finally:
        signal.alarm(0)
    rec["idx"] = i
    rec.setdefault("engine", getattr(t, "engine", "E1-symnp"))
    return rec


def load_known():
    p = os.path.join(VERIF, "known_findings.json")
    if not os.path.exists(p):
        return []
    with open(p) as f:
        return json.load(f).get("findings", [])


def match_known(prop, rec, known):
    for k in known:
        if k.get("property") != prop or k.get("obligation") != rec["name"]:
            continue
        cm = k.get("cfg_match", {})

        def ok(a, b):
            v = rec["cfg"].get(a)
            if isinstance(b, dict) and "in" in b:
                return v in b["in"]
            return v == b
        if not all(ok(a, b) for a, b in cm.items()):
            continue
        # optional explicit list of failing configurations (every cfg key except the free-text "family" must agree)
        ex = k.get("cfg_exact_any")
        if ex is not None and {a: b for a, b in rec["cfg"].items() if a != "family"} not in ex:
            continue
        # optional failure signature: the finding only covers violations whose recorded detail contains this text
        dm = k.get("detail_match")
        if dm is not None and dm not in json.dumps(rec.get("violation", {}), default=str):
            continue
        return k
    return None


def sha(path):
    try:
        with open(path, "rb") as f:
            return hashlib.sha256(f.read()).hexdigest()[:16]
    except OSError:
        return None


def main(argv=None):
    global _TASKS, _SEED
    ap = argparse.ArgumentParser()
    ap.add_argument("prop")
    ap.add_argument("--tier", default=os.environ.get("VERIF_TIER", "quick"))
    ap.add_argument("--only", default=None, help="substring filter on obligation names (debugging)")
    ap.add_argument("--jobs", type=int, default=int(os.environ.get("VERIF_JOBS", "16")))
    ap.add_argument("--replay", default=None)
    ap.add_argument("--no-evidence", action="store_true")
    ap.add_argument("-v", action="store_true")
    a = ap.parse_args(argv)
    pid = a.prop.upper()
    tier = "thorough" if a.tier.startswith("t") else "quick"
    if tier == "thorough" and "VERIF_XCHECK" not in os.environ:
        os.environ["VERIF_XCHECK"] = "1"      # thorough: goal queries (the first 24 per obligation) are re-decided by z3 4.8.12 and cvc5 (SMT-LIB2 dump)
    _SEED = int(os.environ.get("VERIF_SEED", "0") or 0)
    t0 = time.time()

    from symnp.array import import_all_toqito
    import_all_toqito()
    mod = importlib.import_module(f"props.{pid.lower()}")
    from symnp.harness import guard_module
    guard_module(mod)
    meta = mod.META

    if a.replay:
        return do_replay(mod, pid, a.replay)

    tasks = list(mod.obligations(tier))
    if a.only:
        tasks = [t for t in tasks if a.only in t.name]
    random.Random(_SEED).shuffle(tasks)
    # longest first helps the pool; tasks may carry a weight
    tasks.sort(key=lambda t: -getattr(t, "weight", 1))
    _TASKS = tasks
    recs = []
    if a.jobs <= 1 or len(tasks) <= 1:
        for i in range(len(tasks)):
            recs.append(_run_idx(i))
    else:
        ctx = mp.get_context("fork")
        with ctx.Pool(min(a.jobs, len(tasks))) as pool:
            for rec in pool.imap_unordered(_run_idx, range(len(tasks)), chunksize=1):
                recs.append(rec)
                if a.v:
                    print(f"  [{rec['status']:12s}] {rec['name']} {json.dumps(rec['cfg'], default=str)[:100]} "
                          f"paths={rec.get('paths')} q={rec.get('queries')} {rec.get('wall_s', 0):.1f}s "
                          f"{'; '.join(rec.get('notes', []))[:200]}", flush=True)
    recs.sort(key=lambda r: r["idx"])

    known = load_known()
    n_viol = 0
    n_known = 0
    n_err = 0
    lines = []
    from symnp.harness import write_replay
    for rec in recs:
        if rec["status"] == "violation":
            k = match_known(pid, rec, known)
            if k is not None:
                rec["status"] = "known-finding"
                n_known += 1
                lines.append(f"KNOWN-FINDING: property={pid} {k.get('what', rec['name'])}")
            else:
                n_viol += 1
                if n_viol > 25:
                    continue   # counted, but no more replay files / lines than 25 per run
                path = write_replay(VERIF, pid, rec)
                lines.append(f"VIOLATION property={pid} replay={path}")
                lines.append(f"  obligation={rec['name']} cfg={json.dumps(rec['cfg'], default=str)} "
                             f"detail={json.dumps(rec.get('violation', {}), default=str)[:600]}")
        elif rec["status"] == "error":
            n_err += 1
            lines.append(f"HARNESS-ERROR property={pid} obligation={rec['name']} cfg={json.dumps(rec['cfg'], default=str)} "
                         f"{'; '.join(rec.get('notes', []))[:400]}")
        elif rec["status"] == "inconclusive":
            lines.append(f"INCONCLUSIVE property={pid} obligation={rec['name']} cfg={json.dumps(rec['cfg'], default=str)[:200]} "
                         f"{'; '.join(rec.get('notes', []))[:300]}")
    # each distinct known finding is printed once
    seen = set()
    for ln in lines:
        if ln.startswith("KNOWN-FINDING"):
            if ln in seen:
                continue
            seen.add(ln)
        print(ln)

    wall = time.time() - t0
    if not a.no_evidence and not a.only:
        write_evidence(pid, tier, meta, recs, wall, n_viol)
    n_dis = sum(r["status"] == "discharged" for r in recs)
    n_inc = sum(r["status"] == "inconclusive" for r in recs)
    print(f"{pid} tier={tier} obligations={len(recs)} discharged={n_dis} inconclusive={n_inc} "
          f"known={n_known} violations={n_viol} errors={n_err} queries={sum(r.get('queries', 0) for r in recs)} "
          f"solver_s={sum(r.get('solver_s', 0) for r in recs):.1f} wall_s={wall:.1f}")
    if n_viol:
        return 1
    if n_err:
        return 2
    return 0


def write_evidence(pid, tier, meta, recs, wall, n_viol):
    files = {}
    for f in meta.get("files", []):
        files[f] = sha(os.path.join(REPO, f))
    n = len(recs)
    n_dis = sum(r["status"] == "discharged" for r in recs)
    stubs = sorted({s for r in recs for s in r.get("stubs", [])})
    samples = []
    for r in recs[:: max(1, n // 6)][:8]:
        samples.append({k: r.get(k) for k in ("name", "cfg", "status", "paths", "queries", "solver_s",
                                              "smt_assertions", "atoms", "neg_control", "reachable", "tv", "engine")})
    by_status = {}
    for r in recs:
        by_status[r["status"]] = by_status.get(r["status"], 0) + 1
    names = {}
    for r in recs:
        names.setdefault(r["name"], {"n": 0, "discharged": 0})
        names[r["name"]]["n"] += 1
        names[r["name"]]["discharged"] += r["status"] == "discharged"
    cov = {
        "explanation": meta["explanation"],
        "obligations": n,
        "discharged": n_dis,
        "inconclusive": by_status.get("inconclusive", 0),
        "known_findings": by_status.get("known-finding", 0),
        "by_status": by_status,
        "by_obligation": names,
        "evaluations": n,
        "distinct_nontrivial": len({json.dumps([r["name"], r["cfg"]], sort_keys=True, default=str) for r in recs
                                    if r.get("queries", 0) > 0 or r.get("programs", 0) > 0}),
        "rule": "one obligation per (harness, configuration) inside the stated bound; distinct by (name, cfg); "
                "non-trivial = at least one solver query or captured program was discharged for it",
        "samples": samples,
        "checker_cmd": f"./vcheck {pid} --tier {tier}",
        "trusted_base": meta.get("trusted_base", []),
        "functions_encoded": meta.get("functions", []),
        "source_sha256_16": files,
        "bounds": meta.get("bounds", {}).get(tier, meta.get("bounds")),
        "stubs": stubs,
        "paths": sum(r.get("paths", 0) for r in recs),
        "queries": sum(r.get("queries", 0) for r in recs),
        "solver_s": round(sum(r.get("solver_s", 0) for r in recs), 2),
        "negative_controls_refuted": sum(1 for r in recs if r.get("neg_control") is True),
        "reachability_witnesses": sum(1 for r in recs if r.get("reachable") is True),
        "translator_validations_ok": sum(1 for r in recs if r.get("tv") is True),
        "storage_type_variants_replayed": sum(r.get("dtype_variants", 0) for r in recs),
        "abstraction_candidates_redecided_in_nra": sum(r.get("refinements", 0) for r in recs),
        "spurious_candidates_refuted_in_nra": sum(r.get("spurious_candidates_refuted", 0) for r in recs),
        "cross_solver": {k: {"agree": sum((r.get("cross_solver") or {}).get(k, {}).get("agree", 0) for r in recs),
                             "unknown_or_timeout": sum((r.get("cross_solver") or {}).get(k, {}).get("unknown", 0) for r in recs)}
                         for k in ("z3-4.8.12", "cvc5")} | {"goal_queries_skipped_over_per_obligation_budget": sum((r.get("cross_solver") or {}).get("skipped_over_budget", 0) for r in recs)},
        "programs": sum(r.get("programs", 0) for r in recs),
        "disagreements_checked": sum(r.get("disagreements_checked", 0) for r in recs),
        "outside_claim": meta.get("outside_claim", []),
        "inconclusive_list": [{"name": r["name"], "cfg": r["cfg"], "notes": r.get("notes", [])[:3]}
                              for r in recs if r["status"] == "inconclusive"][:40],
        "exhaustive": False,
    }
    if meta.get("level") == "translation_validation":
        cov["programs"] = max(cov["programs"], 1)
    ev = {
        "property_id": pid, "tier": tier, "seed": _SEED, "level": meta.get("level", "other"),
        "coverage": cov,
        "assumptions": meta.get("assumptions", []) + stubs[:40],
        "wall_s": round(wall, 2), "violations": n_viol,
    }
    os.makedirs(os.path.join(VERIF, "evidence"), exist_ok=True)
    with open(os.path.join(VERIF, "evidence", f"{pid}.json"), "w") as f:
        json.dump(ev, f, indent=1, default=str)


def do_replay(mod, pid, path):
    from symnp.harness import from_jsonable, numeric_verdict
    with open(path) as f:
        rp = json.load(f)
    for t in list(mod.obligations("thorough")) + list(mod.obligations("quick")):
        if t.name == rp["obligation"] and json.dumps(t.cfg, sort_keys=True, default=str) == json.dumps(rp["cfg"], sort_keys=True, default=str):
            if hasattr(t, "replay"):
                ok = t.replay(rp)
            else:
                ninputs = from_jsonable(rp["violation"]["inputs"])
                ok, detail = numeric_verdict(t, ninputs)
                print(json.dumps(detail, default=str)[:2000])
            print("replay:", "property holds at this input" if ok else "VIOLATION reproduced")
            return 0 if ok else 1
    print("obligation not found")
    return 2


if __name__ == "__main__":
    sys.exit(main())
