"""SymArray: object-dtype ndarray subclass holding Sym scalars, numpy function handlers, kernel UFs,
and the module-scoped proxies that put toqito's `np` / `scipy` names under symbolic control."""
from __future__ import annotations

import contextlib
import itertools
import sys
import types
from fractions import Fraction

import numpy as np
import scipy
import scipy.linalg
import z3

from .core import (ONE, ZERO, Elem, Poly, Realization, Sym, SymBool, SymError, And, Or, cur, lift)

_SYMTYPES = (Sym, SymBool, Elem)


def has_sym(a):
    """does this ndarray / list hold symbolic scalars?"""
    if isinstance(a, _SYMTYPES):
        return True
    if isinstance(a, np.ndarray):
        if a.dtype != object or a.size == 0:
            return False
        for x in a.flat:
            if isinstance(x, _SYMTYPES):
                return True
        return False
    if isinstance(a, (list, tuple)):
        return any(has_sym(x) for x in a)
    return False


def as0d(x):
    a = np.empty((), dtype=object)
    a[()] = x
    return a.view(SymArray)


def unwrap(r):
    if isinstance(r, tuple):
        return tuple(unwrap(x) for x in r)
    if isinstance(r, np.ndarray) and r.ndim == 0 and r.dtype == object:
        return r[()]
    return r


def review(r):
    """view plain object arrays that hold symbolic scalars as SymArray (dispatch by content)."""
    if type(r) is np.ndarray and r.dtype == object and has_sym(r):
        return r.view(SymArray)
    if isinstance(r, tuple):
        return tuple(review(x) for x in r)
    return r


def review_args(args):
    out = []
    for a in args:
        if type(a) is np.ndarray and a.dtype == object and has_sym(a):
            out.append(a.view(SymArray))
        elif isinstance(a, list) and a and any(type(x) is np.ndarray and x.dtype == object for x in a):
            out.append([review(x) for x in a])
        else:
            out.append(a)
    return tuple(out)


def sarr(x):
    """anything array-like with symbolic content -> SymArray of Sym (numbers lifted)."""
    if isinstance(x, SymArray):
        return x
    if isinstance(x, _SYMTYPES):
        return as0d(x)
    a = np.empty(np.shape(x), dtype=object) if not isinstance(x, np.ndarray) else None
    if a is None:
        a = x.astype(object) if x.dtype != object else x
        return a.view(SymArray)
    src = np.array(x, dtype=object)
    return src.view(SymArray)


def lifted(a):
    """SymArray whose every element is a Sym (python numbers lifted)."""
    a = np.asarray(a, dtype=object) if not isinstance(a, np.ndarray) else a
    out = np.empty(a.shape, dtype=object)
    for idx in np.ndindex(a.shape):
        v = a[idx]
        out[idx] = v if isinstance(v, Sym) else lift(v)
    return out.view(SymArray)


# ----------------------------------------------------------------------------------------------
class SymArray(np.ndarray):
    __array_priority__ = 100

    # object arrays return self for .real in numpy; a complex128 array would not
    @property
    def real(self):
        return _map(self, lambda v: v.real if isinstance(v, Sym) else np.real(v))

    @property
    def imag(self):
        return _map(self, lambda v: v.imag if isinstance(v, Sym) else np.imag(v))

    def astype(self, dtype, *a, **k):
        dt = np.dtype(dtype)
        if dt == object:
            return self
        if dt.kind in "cf":
            cur().stubs.add("astype(float/complex) on symbolic array: kept symbolic (float kept complex-capable)")
            return self
        if dt.kind in "iub":
            return np.array([[int(v)] if False else int(v) for v in self.flat], dtype=dt).reshape(self.shape)
        raise SymError(f"astype({dt}) on symbolic array")

    def round(self, decimals=0, out=None):
        cur().stubs.add("np.round on symbolic array: identity (rounding outside the claim)")
        return self

    def all(self, axis=None, **k):
        if axis is not None:
            return np.apply_along_axis(lambda v: And(*list(v)), axis, self)
        return And(*[_tobool(v) for v in self.flat])

    def any(self, axis=None, **k):
        if axis is not None:
            return np.apply_along_axis(lambda v: Or(*list(v)), axis, self)
        return Or(*[_tobool(v) for v in self.flat])

    def max(self, axis=None, **k):
        return _reduce_axis(self, axis, symmax)

    def min(self, axis=None, **k):
        return _reduce_axis(self, axis, symmin)

    def __array_function__(self, func, types_, args, kwargs):
        h = HANDLERS.get(func)
        if h is not None:
            return h(*args, **kwargs)
        r = super().__array_function__(func, types_, args, kwargs)
        return review(r)

    def key(self):
        return (self.shape, tuple(_key(v) for v in self.flat))


def _key(v):
    if isinstance(v, Sym):
        return v.key()
    if isinstance(v, Elem):
        return ("E", v.name)
    return lift(v).key()


def _tobool(v):
    if isinstance(v, SymBool):
        return v
    if isinstance(v, Sym):
        return v != 0
    return SymBool(bool(v))


def _map(a, f):
    out = np.empty(a.shape, dtype=object)
    for idx in np.ndindex(a.shape):
        out[idx] = f(a[idx])
    return out.view(SymArray)


def _reduce_axis(a, axis, f):
    if axis is None:
        return f(list(a.flat))
    a = np.asarray(a).view(SymArray)
    moved = np.moveaxis(a, axis, -1)
    out = np.empty(moved.shape[:-1], dtype=object)
    for idx in np.ndindex(out.shape):
        out[idx] = f(list(moved[idx]))
    return out.view(SymArray) if out.ndim else out[()]


def symmax(vals, kind="max"):
    """max as a definitional symbol: m >= every v, m equals one of them (exact, linear)."""
    vals = [lift(v) for v in vals]
    if all(v.is_const() for v in vals):
        cs = [v.cval() for v in vals]
        return lift(max(cs) if kind == "max" else min(cs))
    if len(vals) == 1:
        return vals[0]
    for v in vals:
        if v.im.t:
            raise SymError("max/min over complex symbolic values")
    c = cur()
    ks = tuple(sorted(set(v.re.key() for v in vals)))
    a = c.new_atom(kind, kind, key=(kind, ks))
    if a.info is None:
        a.info = vals
        polys = [v.re for v in vals]
        f = max if kind == "max" else min
        a.evalf = lambda vv, polys=polys, f=f: f(p.evalf(vv) for p in polys)
        zs = [p.to_z3(c) for p in polys]
        if kind == "max":
            c.side.append(z3.And(*[a.z3 >= z for z in zs]))
        else:
            c.side.append(z3.And(*[a.z3 <= z for z in zs]))
        c.side.append(z3.Or(*[a.z3 == z for z in zs]))
    return Sym(Poly.atom(a.id))


def symmin(vals):
    return symmax(vals, "min")


# ----------------------------------------------------------------------------------------------
# numpy function handlers (reached via __array_function__ or via the module proxies)
# ----------------------------------------------------------------------------------------------
HANDLERS = {}


def handles(*funcs):
    def deco(f):
        for fn in funcs:
            HANDLERS[fn] = f
        return f
    return deco


@handles(np.isclose)
def h_isclose(a, b, rtol=1e-05, atol=1e-08, equal_nan=False):
    a, b = np.broadcast_arrays(lifted(np.asarray(a, dtype=object)), lifted(np.asarray(b, dtype=object)))
    out = np.empty(a.shape, dtype=object)
    for idx in np.ndindex(a.shape):
        out[idx] = close_scalar(a[idx], b[idx], rtol, atol)
    return out.view(SymArray) if out.ndim else out[()]


def close_scalar(x, y, rtol, atol):
    """numpy's definition: |x - y| <= atol + rtol * |y|"""
    d = x - y
    if d.re.is_zero() and d.im.is_zero():
        return SymBool(True) if (rtol >= 0 and atol >= 0) else (abs(d) <= atol + rtol * abs(y))
    bound = atol + (rtol * abs(y) if rtol != 0 else 0)
    if not d.im.t:
        # |d| <= t  <=>  -t <= d <= t, no abs atom needed
        return (d <= bound) & (-d <= bound)
    return abs(d) <= bound


@handles(np.allclose)
def h_allclose(a, b, rtol=1e-05, atol=1e-08, equal_nan=False):
    r = h_isclose(a, b, rtol, atol)
    if isinstance(r, SymBool):
        return r
    return And(*list(np.asarray(r).flat))


@handles(np.array_equal)
def h_array_equal(a, b, equal_nan=False):
    a, b = np.asarray(a, dtype=object), np.asarray(b, dtype=object)
    if a.shape != b.shape:
        return False
    return And(*[lift(x).eq(y) for x, y in zip(a.flat, b.flat)])


@handles(np.real)
def h_real(a):
    return sarr(a).real if not isinstance(a, Sym) else a.real


@handles(np.imag)
def h_imag(a):
    return sarr(a).imag if not isinstance(a, Sym) else a.imag


@handles(np.round, np.around)
def h_round(a, decimals=0, out=None):
    cur().stubs.add("np.round on symbolic array: identity (rounding outside the claim)")
    return a


@handles(np.all)
def h_all(a, axis=None, **k):
    return sarr(a).all(axis=axis)


@handles(np.any)
def h_any(a, axis=None, **k):
    return sarr(a).any(axis=axis)


@handles(np.amax, np.max)
def h_max(a, axis=None, **k):
    return sarr(a).max(axis=axis)


@handles(np.amin, np.min)
def h_min(a, axis=None, **k):
    return sarr(a).min(axis=axis)


@handles(np.iscomplexobj)
def h_iscomplexobj(a):
    return any(isinstance(v, Sym) and v.im.t for v in np.asarray(a, dtype=object).flat)


@handles(np.isreal)
def h_isreal(a):
    return _map(sarr(a), lambda v: lift(v).imag.eq(0))


@handles(np.count_nonzero)
def h_count_nonzero(a, axis=None, **k):
    tot = lift(0)
    for v in sarr(a).flat:
        tot = tot + lift(_tobool(v))
    return tot


@handles(np.copy)
def h_copy(a, *args, **k):
    return np.ndarray.copy(sarr(a))


@handles(np.vdot)
def h_vdot(a, b):
    a, b = sarr(a).ravel(), sarr(b).ravel()
    tot = lift(0)
    for x, y in zip(a, b):
        tot = tot + lift(x).conjugate() * y
    return tot


# ----------------------------------------------------------------------------------------------
# kernels as uninterpreted functions
# ----------------------------------------------------------------------------------------------
def kernel(name, args, outs, extra=(), concrete=None):
    """Uninterpreted kernel. `args`: symbolic arrays; `outs`: list of (shape, 'r'|'c');
    same (name, args-normal-form, extra) => same output atoms (congruence on the normal form).
    `concrete(*numeric_args)` recomputes the outputs numerically for replay / translator validation."""
    c = cur()
    args = [lifted(np.asarray(a, dtype=object)) for a in args]
    key = ("kernel", name, tuple(a.key() for a in args), tuple(extra))
    rec = c.by_key.get(key)
    if rec is None:
        cache = {}

        def compute(vals, args=args, concrete=concrete):
            k = id(vals)
            if k not in cache:
                cache.clear()
                num = [np.array([complex(v.evalf(vals)) for v in a.flat]).reshape(a.shape) for a in args]
                num = [n.real if not np.any(n.imag) else n for n in num]
                res = concrete(*num)
                if not isinstance(res, (tuple, list)):
                    res = (res,)
                cache[k] = [np.asarray(r) for r in res]
            return cache[k]

        res = []
        for oi, (shape, kind) in enumerate(outs):
            out = np.empty(shape, dtype=object)
            for fi, idx in enumerate(np.ndindex(*shape) if shape else [()]):
                def ev(vals, oi=oi, idx=idx, part=0):
                    v = compute(vals)[oi][idx]
                    return float(np.real(v)) if part == 0 else float(np.imag(v))
                ar = c.new_atom(f"{name}{oi}_{'_'.join(map(str, idx))}r", "uf",
                                evalf=(lambda vals, ev=ev: ev(vals, part=0)) if concrete else None)
                if kind == "c":
                    ai = c.new_atom(f"{name}{oi}_{'_'.join(map(str, idx))}i", "uf",
                                    evalf=(lambda vals, ev=ev: ev(vals, part=1)) if concrete else None)
                    out[idx] = Sym(Poly.atom(ar.id), Poly.atom(ai.id))
                else:
                    out[idx] = Sym(Poly.atom(ar.id))
            res.append(out.view(SymArray) if shape else out[()])
        c.by_key[key] = res
        c.stubs.add(f"kernel {name}: uninterpreted function of its argument's normal form")
        c.events.append(("kernel", name, [a.shape for a in args], tuple(extra)))
        rec = res
    return rec


def _is_sq(a):
    return a.ndim == 2 and a.shape[0] == a.shape[1]


def det_exact(a):
    """Leibniz / Laplace expansion - exact, so `det` needs no contract (n <= 4)."""
    a = lifted(a)
    n = a.shape[0]
    if n == 0:
        return lift(1)
    if n == 1:
        return a[0, 0]
    tot = lift(0)
    for j in range(n):
        minor = np.delete(np.delete(np.asarray(a), 0, 0), j, 1)
        tot = tot + (-1) ** j * a[0, j] * det_exact(minor)
    return tot


def _stacked(a, fn, what):
    """numpy's linalg routines accept a stack of matrices (..., M, N) and work on the last two axes: apply a scalar-valued
    handler per matrix and stack the results; for the kernels without a per-matrix form a stack is not modelled (SymError =>
    inconclusive, never a silently wrong model)"""
    a = sarr(a)
    if a.ndim <= 2:
        return None
    if fn is None:
        raise SymError(f"{what} on a stack of matrices (ndim {a.ndim}) is not modelled")
    lead = a.shape[:-2]
    out = np.empty(lead, dtype=object)
    for idx in np.ndindex(*lead):
        out[idx] = fn(np.asarray(a)[idx].view(SymArray))
    return out.view(SymArray)


@handles(np.linalg.det)
def h_det(a):
    a = sarr(a)
    st = _stacked(a, h_det, "det")
    if st is not None:
        return st
    if a.shape[0] <= 4:
        return det_exact(a)
    return kernel("det", [a], [((), "c")], concrete=np.linalg.det)[0]


@handles(np.linalg.eigvalsh)
def h_eigvalsh(a, UPLO="L"):
    a = sarr(a)
    _stacked(a, None, "eigvalsh")
    n = a.shape[0]
    return kernel("eigvalsh", [a], [((n,), "r")], concrete=np.linalg.eigvalsh)[0]


def _add_eq(c, lhs, rhs):
    from .core import as_z3
    for x, y in zip(np.asarray(lhs, dtype=object).flat, np.asarray(rhs, dtype=object).flat):
        c.side.append(as_z3(lift(x).eq_solver(y)))


def want_contract(name):
    return name in getattr(cur(), "contracts", ())


@handles(np.linalg.eigh)
def h_eigh(a, UPLO="L"):
    _stacked(a, None, "eigh")
    a = sarr(a)
    n = a.shape[0]
    w = h_eigvalsh(a)
    c = cur()
    fresh = ("kernel", "eigh_vec", (lifted(a).key(),), ()) not in c.by_key
    v = kernel("eigh_vec", [a], [((n, n), "c")], concrete=lambda m: np.linalg.eigh(m)[1])[0]
    if fresh and want_contract("eigh"):
        V = np.asarray(v)
        Vd = V.conj().T
        # LAPACK reads the lower triangle only (UPLO='L') and ignores the imaginary part of the diagonal: the contract
        # is stated for that Hermitian matrix, so it is true for every input and can never make the context inconsistent
        L = lifted(a)
        H = np.empty((n, n), dtype=object)
        for i in range(n):
            for j in range(n):
                H[i, j] = L[i, j] if i > j else (L[j, i].conjugate() if i < j else L[i, i].real)
        _add_eq(c, (V * np.asarray(w)[None, :]) @ Vd, H)
        _add_eq(c, Vd @ V, np.identity(n, dtype=object))
        from .core import as_z3
        for k in range(n - 1):
            c.side.append(as_z3(w[k] <= w[k + 1]))
        c.stubs.add("contract eigh: V diag(w) V^dagger = M, V^dagger V = I, w ascending")
    return _EighResult(w, v)


class _EighResult(tuple):
    def __new__(cls, w, v):
        return super().__new__(cls, (w, v))

    eigenvalues = property(lambda s: s[0])
    eigenvectors = property(lambda s: s[1])


@handles(np.linalg.eigvals)
def h_eigvals(a):
    _stacked(a, None, "eigvals")
    a = sarr(a)
    n = a.shape[0]
    return kernel("eigvals", [a], [((n,), "c")], concrete=np.linalg.eigvals)[0]


@handles(np.linalg.eig)
def h_eig(a):
    _stacked(a, None, "eig")
    a = sarr(a)
    n = a.shape[0]
    w = h_eigvals(a)
    v = kernel("eig_vec", [a], [((n, n), "c")], concrete=lambda m: np.linalg.eig(m)[1])[0]
    return _EighResult(w, v)


@handles(np.linalg.svd)
def h_svd(a, full_matrices=True, compute_uv=True, hermitian=False):
    _stacked(a, None, "svd")
    a = sarr(a)
    m, n = a.shape
    k = min(m, n)
    s = kernel("svd_s", [a], [((k,), "r")], concrete=lambda x: np.linalg.svd(x, compute_uv=False))[0]
    if not compute_uv:
        return s
    us = (m, m) if full_matrices else (m, k)
    vs = (n, n) if full_matrices else (k, n)
    c = cur()
    fresh = ("kernel", "svd_uv", (lifted(a).key(),), (full_matrices,)) not in c.by_key
    u, vh = kernel("svd_uv", [a], [(us, "c"), (vs, "c")], extra=(full_matrices,),
                   concrete=lambda x: (lambda r: (r[0], r[2]))(np.linalg.svd(x, full_matrices=full_matrices)))
    if fresh and want_contract("svd"):
        from .core import as_z3
        U, W = np.asarray(u)[:, :k], np.asarray(vh)[:k, :]
        _add_eq(c, (U * np.asarray(s)[None, :]) @ W, lifted(a))
        for sv in np.asarray(s):
            c.side.append(as_z3(sv >= 0))
        for kk in range(k - 1):
            c.side.append(as_z3(s[kk] >= s[kk + 1]))
        c.stubs.add("contract svd: U diag(s) V^H = M, s >= 0 descending")
    return (u, s, vh)


@handles(np.linalg.matrix_rank)
def h_rank(a, tol=None, hermitian=False, **k):
    a = sarr(a)
    if a.ndim < 2:
        return lift(Or(*[lift(v) != 0 for v in a.flat]))
    st = _stacked(a, lambda m: h_rank(m, tol=tol, hermitian=hermitian, **k), "matrix_rank")
    if st is not None:
        return st
    return kernel("matrix_rank", [a], [((), "r")], extra=(repr(tol), bool(hermitian), tuple(sorted(k.items()))),
                  concrete=lambda x: np.linalg.matrix_rank(x, tol=tol, hermitian=hermitian, **k))[0]


@handles(np.linalg.norm)
def h_norm(x, ord=None, axis=None, keepdims=False):
    x = sarr(x)
    if axis is not None:
        raise SymError("norm with axis on symbolic array")
    if (x.ndim == 1 and ord in (None, 2)) or (x.ndim == 2 and ord in (None, "fro")) or (x.ndim > 2 and ord is None):
        tot = lift(0)
        for v in lifted(x).flat:
            tot = tot + Sym(v.re * v.re + v.im * v.im)
        return tot.sqrt()
    if x.ndim == 1 and ord == 1:
        tot = lift(0)
        for v in lifted(x).flat:
            tot = tot + abs(v)
        return tot
    if x.ndim == 1 and ord == np.inf:
        return symmax([abs(v) for v in lifted(x).flat])
    if x.ndim == 2 and ord in ("nuc", 2) and min(x.shape) >= 1:
        # nuclear / spectral norm = sum / largest of the singular values: written over the SAME kernel np.linalg.svd uses, so that
        # code summing svd(M, compute_uv=False) itself and code calling norm(M, "nuc") are the same term for the solver
        sv = kernel("svd_s", [x], [((min(x.shape),), "r")], concrete=lambda m: np.linalg.svd(m, compute_uv=False))[0]
        sv = list(np.asarray(sv, dtype=object).flat)
        if ord == 2:
            return symmax(sv) if len(sv) > 1 else sv[0]
        tot = lift(0)
        for v in sv:
            tot = tot + v
        return tot
    return kernel(f"norm_{ord}", [x], [((), "r")], concrete=lambda m: np.linalg.norm(m, ord=ord))[0]


@handles(np.linalg.inv)
def h_inv(a):
    _stacked(a, None, "inv")
    a = sarr(a)
    n = a.shape[0]
    return kernel("inv", [a], [((n, n), "c")], concrete=np.linalg.inv)[0]


@handles(np.linalg.qr)
def h_qr(a, mode="reduced"):
    _stacked(a, None, "qr")
    a = sarr(a)
    m, n = a.shape
    k = min(m, n)
    if mode != "reduced":
        raise SymError("qr mode")
    return kernel("qr", [a], [((m, k), "c"), ((k, n), "c")], concrete=lambda x: tuple(np.linalg.qr(x)))


@handles(np.linalg.cholesky)
def h_cholesky(a, **k):
    _stacked(a, None, "cholesky")
    a = sarr(a)
    n = a.shape[0]
    return kernel("cholesky", [a], [((n, n), "c")], concrete=np.linalg.cholesky)[0]


def sp_sqrtm(a, *args, **k):
    if not has_sym(a):
        return scipy.linalg.sqrtm(a, *args, **k)
    a = sarr(a)
    n = a.shape[0]
    return kernel("sqrtm", [a], [((n, n), "c")], concrete=scipy.linalg.sqrtm)[0]


def sp_inv(a, *args, **k):
    if not has_sym(a):
        return scipy.linalg.inv(a, *args, **k)
    return h_inv(a)


def sp_det(a, *args, **k):
    if not has_sym(a):
        return scipy.linalg.det(a, *args, **k)
    return h_det(a)


def sp_eigh(a, *args, **k):
    if not has_sym(a):
        return scipy.linalg.eigh(a, *args, **k)
    return h_eigh(a)


def sp_fmp(a, t):
    if not has_sym(a):
        return scipy.linalg.fractional_matrix_power(a, t)
    a = sarr(a)
    n = a.shape[0]
    return kernel("fractional_matrix_power", [a], [((n, n), "c")], extra=(repr(t),),
                  concrete=lambda m: scipy.linalg.fractional_matrix_power(m, t))[0]


def sp_orth(a, rcond=None):
    if not has_sym(a):
        return scipy.linalg.orth(a, rcond)
    raise SymError("scipy.linalg.orth on symbolic array: output shape is data dependent")


def sp_null_space(a, rcond=None):
    if not has_sym(a):
        return scipy.linalg.null_space(a, rcond)
    raise SymError("scipy.linalg.null_space on symbolic array: output shape is data dependent")


SCIPY_LINALG_OVERRIDES = {
    "sqrtm": sp_sqrtm, "inv": sp_inv, "det": sp_det, "eigh": sp_eigh,
    "fractional_matrix_power": sp_fmp, "orth": sp_orth, "null_space": sp_null_space,
}


# ----------------------------------------------------------------------------------------------
# module proxies
# ----------------------------------------------------------------------------------------------
def _wrap(f):
    if isinstance(f, type) or not callable(f):
        return f

    def w(*args, **kwargs):
        args = review_args(args)
        h = HANDLERS.get(f)
        symbolic = any(has_sym(a) for a in args) or any(has_sym(v) for v in kwargs.values())
        if h is not None and symbolic:
            return review(h(*args, **kwargs))
        if symbolic and getattr(f, "__name__", "") in ("isfinite", "isnan", "isinf"):
            # solver terms are real numbers: always finite
            const = getattr(f, "__name__") == "isfinite"
            a0 = args[0]
            return np.full(np.shape(a0), const, dtype=bool) if np.ndim(a0) else const
        try:
            return review(f(*args, **kwargs))
        except TypeError as e:
            # a numpy routine without an object-dtype loop: the model does not cover this operation - not a result of the code
            if symbolic and ("not supported for the input types" in str(e) or "object arrays are not supported" in str(e)
                             or "ufunc" in str(e) and "object" in str(e)):
                raise SymError(f"numpy.{getattr(f, '__name__', f)} has no object-dtype implementation: {e}") from e
            raise
    w.__name__ = getattr(f, "__name__", "wrapped")
    w.__wrapped__ = f
    return w


def _mk_array(obj, dtype=None, *a, **k):
    if has_sym(obj):
        if dtype is not None and np.dtype(dtype).kind in "iub":
            raise Realization("symbolic array converted to integer dtype")
        r = np.array(obj, dtype=object)
        return r.view(SymArray)
    if dtype is not None:
        return np.array(obj, dtype, *a, **k)
    return np.array(obj, *a, **k)


def _mk_asarray(obj, dtype=None, *a, **k):
    if has_sym(obj):
        if isinstance(obj, SymArray):
            return obj
        return _mk_array(obj, dtype)
    return np.asarray(obj, dtype, *a, **k)


def _obj_filled(val):
    def f(shape, dtype=None, *a, **k):
        if dtype is not None and np.dtype(dtype).kind in "iub":
            # integer / boolean buffers (index tables, digit arrays, masks) hold concrete values: numpy's own array
            return (np.zeros if val == 0 else np.ones)(shape, dtype, *a, **k)
        if isinstance(shape, (int, np.integer)):
            shape = (int(shape),)
        shape = tuple(int(s) for s in shape)
        out = np.empty(shape, dtype=object)
        c = lift(val)
        for idx in np.ndindex(shape):
            out[idx] = c
        return out.view(SymArray)
    return f


def _sym_sqrt(x, *a, **k):
    if isinstance(x, Sym):
        return x.sqrt()
    if has_sym(x):
        return _map(sarr(x), lambda v: lift(v).sqrt())
    from .core import _CTX
    if _CTX and getattr(_CTX[-1], "exact_sqrt", False) and isinstance(x, (int, float, np.integer, np.floating)) \
            and not isinstance(x, (bool, np.bool_)) and x >= 0:
        return lift(x).sqrt()     # exact algebraic number (a perfect-square rational collapses to a constant)
    return np.sqrt(x, *a, **k)


def _sym_log2(x, *a, **k):
    if isinstance(x, Sym):
        return x.log2()
    if has_sym(x):
        return _map(sarr(x), lambda v: lift(v).log2())
    return np.log2(x, *a, **k)


def _sym_abs(x, *a, **k):
    if isinstance(x, Sym):
        return abs(x)
    if has_sym(x):
        return _map(sarr(x), lambda v: abs(lift(v)))
    return np.abs(x, *a, **k)


def _sym_conj(x, *a, **k):
    if isinstance(x, Sym):
        return x.conjugate()
    if has_sym(x):
        return _map(sarr(x), lambda v: lift(v).conjugate())
    return np.conj(x, *a, **k)


class ModProxy(types.ModuleType):
    """stands in for `numpy` / `numpy.linalg` / `scipy` / `scipy.linalg` inside one toqito module."""

    def __init__(self, real, overrides=None, sub=None):
        super().__init__(real.__name__)
        object.__setattr__(self, "_real", real)
        object.__setattr__(self, "_ov", overrides or {})
        object.__setattr__(self, "_sub", sub or {})
        object.__setattr__(self, "_cache", {})

    def __getattr__(self, name):
        ov = object.__getattribute__(self, "_ov")
        if name in ov:
            return ov[name]
        sub = object.__getattribute__(self, "_sub")
        if name in sub:
            return sub[name]
        cache = object.__getattribute__(self, "_cache")
        if name in cache:
            return cache[name]
        v = getattr(object.__getattribute__(self, "_real"), name)
        if isinstance(v, types.ModuleType):
            return v
        w = _wrap(v) if isinstance(v, (types.FunctionType, types.BuiltinFunctionType, np.ufunc)) or \
            type(v).__name__ in ("_ArrayFunctionDispatcher",) else v
        cache[name] = w
        return w


NP_OVERRIDES = {}   # property modules may register further `np.<name>` replacements here (name -> callable)


def make_np_proxy(objzeros=False, rng=None):
    ov = {"array": _mk_array, "asarray": _mk_asarray, "sqrt": _sym_sqrt, "abs": _sym_abs, "absolute": _sym_abs,
          "conj": _sym_conj, "conjugate": _sym_conj, "log2": _sym_log2}
    ov.update(NP_OVERRIDES)
    if objzeros:
        ov.update({"zeros": _obj_filled(0), "empty": _obj_filled(0), "ones": _obj_filled(1)})
        ov["ndarray"] = _NdarrayMeta
    sub = {"linalg": ModProxy(np.linalg)}
    if rng is not None:
        sub["random"] = rng
    return ModProxy(np, ov, sub)


class _NdarrayMetaT(type):
    def __instancecheck__(cls, inst):
        return isinstance(inst, np.ndarray)

    def __subclasscheck__(cls, sub):
        return issubclass(sub, np.ndarray)

    def __call__(cls, shape, *a, **k):
        return _obj_filled(0)(shape)


class _NdarrayMeta(metaclass=_NdarrayMetaT):
    """np.ndarray(shape=...) followed by assignment -> object array; isinstance still works."""


def make_scipy_proxy():
    lin = ModProxy(scipy.linalg, SCIPY_LINALG_OVERRIDES)
    return ModProxy(scipy, {}, {"linalg": lin}), lin


_DIRECT = {}
for _n, _f in SCIPY_LINALG_OVERRIDES.items():
    _DIRECT[getattr(scipy.linalg, _n)] = _f


@contextlib.contextmanager
def symbolic_mode(objzeros=(), rng=None, extra=None):
    """Rebind numpy/scipy names inside every loaded toqito module (and only there)."""
    import toqito  # noqa: F401
    saved = []
    spx, splin = make_scipy_proxy()
    for mname, mod in list(sys.modules.items()):
        if not (mname == "toqito" or mname.startswith("toqito.")) or mod is None:
            continue
        if ".tests" in mname:
            continue
        d = mod.__dict__
        npx = None
        for gname, gval in list(d.items()):
            new = None
            if gval is np:
                if npx is None:
                    npx = make_np_proxy(objzeros=(mname in objzeros or objzeros == "all"), rng=rng)
                new = npx
            elif gval is np.linalg:
                new = ModProxy(np.linalg)
            elif gval is scipy:
                new = spx
            elif gval is scipy.linalg:
                new = splin
            elif isinstance(gval, types.ModuleType):
                continue
            else:
                try:
                    if gval in _DIRECT:
                        new = _DIRECT[gval]
                    elif gval in HANDLERS:
                        new = _wrap(gval)
                except TypeError:
                    pass
            if new is not None:
                saved.append((d, gname, gval))
                d[gname] = new
        if extra and mname in extra:
            for gname, new in extra[mname].items():
                saved.append((d, gname, d.get(gname, _MISSING)))
                d[gname] = new
    try:
        yield
    finally:
        for d, gname, gval in reversed(saved):
            if gval is _MISSING:
                d.pop(gname, None)
            else:
                d[gname] = gval


_MISSING = object()


def import_all_toqito():
    import importlib
    import pkgutil
    import toqito
    for m in pkgutil.walk_packages(toqito.__path__, "toqito."):
        if ".tests" in m.name:
            continue
        try:
            importlib.import_module(m.name)
        except Exception:  # noqa: BLE001
            pass
